"""C07 Encoding a grid and reading it back preserves the grid.

Real code executed on a cloned Grid over a symbolic face table (every padding layout / size mix inside the bound, symbolic node
numbering) with symbolic node positions: Grid.to_xarray(fmt) -> _encode_ugrid / _encode_exodus / _encode_scrip, then
Grid.from_dataset on the encoded dataset (format sniffing by _parse_grid_type, _read_ugrid / _read_exodus / _read_scrip) and the
face_node_connectivity / coordinate properties of the re-read grid.  Which derived quantities were materialised before the
encoding is a vector of symbolic booleans; "another grid was encoded earlier" is a preceding to_xarray of a second grid that has
edges.  z3 shows on every path that each re-read face has the source face's corner positions in the same cyclic order (Exodus:
up to a permutation of the faces), that every name in the UGRID topology metadata exists, and that the encoded dataset only
carries attribute values NetCDF can store.  The NetCDF layer itself (C library) is modelled as the identity on datasets
satisfying that predicate; every replay goes through a real file."""
import itertools
import z3
import numpy as np
from symex import core as sc, symnp, symxr
from symex.core import mk
from symex.runner import Obligation, world
from . import common as C
from .common import F

N_FACE, N_NODE = 3, 6
HIST = ["edges", "face_centers", "edge_centers", "node_xyz", "node_face", "edge_face", "face_face"]
FUNCS = {"ugrid": ["Grid.to_xarray", "_ugrid._encode_ugrid", "io.utils._parse_grid_type", "_ugrid._is_ugrid", "_ugrid._read_ugrid",
                   "_ugrid._standardize_connectivity", "Grid.from_dataset", "Grid.__init__"],
         "exodus": ["Grid.to_xarray", "_exodus._encode_exodus", "_exodus._get_element_type", "io.utils._parse_grid_type", "_exodus._read_exodus",
                    "connectivity._replace_fill_values", "coordinates._lonlat_rad_to_xyz", "Grid.from_dataset"],
         "scrip": ["Grid.to_xarray", "_scrip._encode_scrip", "_scrip.grid_center_lat_lon", "io.utils._parse_grid_type", "_scrip._read_scrip", "_scrip._to_ugrid",
                   "connectivity._replace_fill_values", "Grid.from_dataset"]}


def _zr(v):
    v = sc.z(v)
    return z3.ToReal(v) if z3.is_int(v) else v


def _reals(ctx, name, n, lo, hi):
    v = [z3.Real(f"{name}_{i}") for i in range(n)]
    for x in v:
        ctx.solver.add(x >= lo, x <= hi)
    ctx.eng.declare(name, v)
    return v


def _materialise(g, h):
    if h["edges"]:
        g.edge_node_connectivity, g.face_edge_connectivity
    if h["face_centers"]:
        g.face_lon
    if h["edge_centers"]:
        g.edge_lon
    if h["node_xyz"]:
        g.node_x
    if h["node_face"]:
        g.node_face_connectivity
    if h["edge_face"]:
        g.edge_face_connectivity
    if h["face_face"]:
        g.face_face_connectivity


def _storable(v):
    """what netCDF4 accepts as an attribute value"""
    if isinstance(v, (str, int, float, np.integer, np.floating)) and not isinstance(v, bool):
        return True
    if isinstance(v, (sc.SymInt, sc.SymReal)):
        return True
    if isinstance(v, symnp.SArr):
        return v.dtype not in (symnp.bool_, bool, object)
    if isinstance(v, np.ndarray):
        return v.dtype.kind in "iufSU"
    if isinstance(v, (list, tuple)):
        return all(isinstance(x, (str, int, float, np.integer, np.floating)) and not isinstance(x, bool) for x in v)
    return False


def _sel(arr, idx, n):
    """arr[idx] as a term, arr a list of z3 terms"""
    out = arr[n - 1]
    for i in range(n - 2, -1, -1):
        out = z3.If(idx == i, arr[i], out)
    return out


def _real_faces(g, nd=9):
    out = []
    fn = g.face_node_connectivity.values
    lon, lat = g.node_lon.values, g.node_lat.values
    for r in fn:
        out.append([(round(float(lon[i]) % 360.0, nd) % 360.0, round(float(lat[i]), nd)) for i in r if i != F])
    return out


SCRIP_ORDER = [3, 0, 5, 1, 4, 2]
FIXED = [[0, 1, 2, 3, F], [1, 4, 5, 2, F], [3, 2, 5, 0, 4], [0, 4, 1, F, F]]


def make_roundtrip(oid, fmt, n_max, xyz_source=False, other_first=False, tiers=("quick", "thorough"), cost=5, sizes=None, flags=(), fixed=None):
    """fixed: a concrete face table (then connectivity histories do not fork); otherwise the table is symbolic"""
    N_FACE = len(fixed) if fixed else 3

    def setup(ctx):
        ctx.const("fmt", fmt); ctx.const("xyz_source", xyz_source); ctx.const("other_first", other_first)
        if fixed:
            n_max_ = len(fixed[0])
            fn = [[z3.IntVal(x) for x in r] for r in fixed]
            nf = [z3.IntVal(len(C.face_corners(r))) for r in fixed]
            ctx.eng.declare("fn", fn)
        else:
            fn, nf = C.sym_face_table(ctx, N_FACE, n_max, N_NODE, sizes=sizes)
        lon = _reals(ctx, "lon", N_NODE, -180, 180)
        lat = _reals(ctx, "lat", N_NODE, -90, 90)
        if fmt == "scrip":
            # the SCRIP reader sorts the corners lexicographically: the longitudes lie in disjoint bands whose order differs from the
            # node numbering (so the reader renumbers every node); nodes 1 and 4 share a longitude and are ordered by latitude
            for r, i in enumerate(SCRIP_ORDER):
                if i != 4:
                    ctx.solver.add(lon[i] >= -170 + 50 * r, lon[i] <= -130 + 50 * r)
            ctx.solver.add(lon[4] == lon[1], lat[4] != lat[1])
        xyz = [_reals(ctx, "xyz" + c, N_NODE, -1, 1) for c in "xyz"] if xyz_source else None
        area = _reals(ctx, "area", N_FACE, sc.lift(1e-9), 13)
        h = {k: (ctx.bool("h_" + k) if k in flags else False) for k in HIST}
        for k in HIST:
            if k not in flags:
                ctx.const("h_" + k, False)
        return fn, nf, lon, lat, xyz, area, h

    def run(ctx, inp):
        fn, nf, lon, lat, xyz, area, h = inp
        sc.NL_UF[0] = True
        symnp.TRIG_RANGE[0] = True
        old_sqrt, symnp.SQRT_MODE[0] = symnp.SQRT_MODE[0], "uf"
        old_unq, symnp.UNIQUE_MODE[0] = symnp.UNIQUE_MODE[0], ("rank" if fmt == "scrip" else symnp.UNIQUE_MODE[0])
        try:
            _run(ctx, fn, nf, lon, lat, xyz, area, h)
        finally:
            sc.NL_UF[0] = False
            symnp.TRIG_RANGE[0] = False
            symnp.SQRT_MODE[0] = old_sqrt
            symnp.UNIQUE_MODE[0] = old_unq

    def _run(ctx, fn, nf, lon, lat, xyz, area, h):
        w = world()
        Grid = w.get("uxarray.grid.grid", "Grid")
        if other_first:
            # another, larger grid with edges and centres is encoded first
            og = C.clone_grid(C.sarr_int([[0, 1, 2, 3, 4], [0, 4, 5, F, F], [5, 4, 6, 7, F], [1, 0, 5, F, F]]), *C.default_lonlat(8))
            og.edge_node_connectivity, og.face_edge_connectivity, og.face_lon, og.edge_lon
            og.to_xarray("ugrid")
        extra = {}
        if xyz_source:
            for c, vals in zip("xyz", xyz):
                extra["node_" + c] = symxr.DataArray(C.sarr_1d(vals, symnp.float64), dims=["n_node"])
        g = C.clone_grid(C.sarr_int(fn), lon, lat, extra=extra)
        if fmt == "scrip":
            # quadrature is C05's subject: the areas handed to the encoder are arbitrary positive reals
            g._ds["face_areas"] = symxr.DataArray(C.sarr_1d(area, symnp.float64), dims=["n_face"])
        hv = {k: bool(v) for k, v in h.items()}
        _materialise(g, hv)
        try:
            enc = g.to_xarray(fmt)
        except (sc.Unsupported, sc.Inconclusive, sc.PathBudget):
            raise
        except Exception as ex:      # the library's own exception on this path: the encoding must succeed
            ctx.prove(f"to_xarray('{fmt}') returns a dataset", False, note=f"raised {type(ex).__name__}: {str(ex)[:120]}")
            return

        # ---- the encoded dataset can be stored
        for name in list(enc._vars):
            for k, v in dict(enc[name].attrs).items():
                ctx.prove(f"attribute '{k}' of encoded variable '{name}' is a value NetCDF can store", _storable(v), note=f"{type(v).__name__}")
        for k, v in dict(enc.attrs).items():
            ctx.prove(f"global attribute '{k}' of the encoded dataset is a value NetCDF can store", _storable(v), note=f"{type(v).__name__}")

        if fmt == "ugrid":
            topo = dict(enc["grid_topology"].attrs)
            for k, v in topo.items():
                if k.endswith("_coordinates"):
                    for nm in v.split():
                        ctx.prove(f"topology attribute {k} names an existing variable", nm in enc._vars, note=f"{nm} missing")
                elif k.endswith("_connectivity"):
                    ctx.prove(f"topology attribute {k} names an existing variable", v in enc._vars, note=f"{v} missing")
                elif k.endswith("_dimension") and k != "topology_dimension":
                    ctx.prove(f"topology attribute {k} names an existing dimension", v in enc.dims, note=f"{v} missing")
            ctx.prove("edge_dimension is named exactly when the dataset has edges", ("edge_dimension" in topo) == ("n_edge" in enc.dims))
            ctx.prove("edge/face coordinates are named exactly when present", ("face_coordinates" in topo) == ("face_lon" in enc._vars)
                      and ("edge_coordinates" in topo) == ("edge_lon" in enc._vars))

        # ---- reading it back
        try:
            g2 = Grid.from_dataset(enc)
            g2.face_node_connectivity, g2.n_node
        except (sc.Unsupported, sc.Inconclusive, sc.PathBudget):
            raise
        except Exception as ex:
            ctx.prove("the encoded dataset can be opened as a grid", False, note=f"raised {type(ex).__name__}: {str(ex)[:120]}")
            return
        fn2 = g2.face_node_connectivity.values.raw() if hasattr(g2.face_node_connectivity.values, "raw") else g2.face_node_connectivity.values
        ctx.prove("the re-read grid has as many faces", g2.n_face == N_FACE)
        n2 = g2.n_node
        w2 = fn2.shape[1]
        if fmt == "exodus":
            if xyz_source:
                src_pos = [xyz[0], xyz[1], xyz[2]]
            else:
                conv = w.get("uxarray.grid.coordinates", "_lonlat_rad_to_xyz")
                X, Y, Z = conv(symnp.deg2rad(C.sarr_1d(lon, symnp.float64)), symnp.deg2rad(C.sarr_1d(lat, symnp.float64)))
                src_pos = [[_zr(v) for v in X.flat_list()], [_zr(v) for v in Y.flat_list()], [_zr(v) for v in Z.flat_list()]]
            got_pos = [[_zr(v) for v in a.values.flat_list()] for a in (g2.node_x, g2.node_y, g2.node_z)]
        else:
            src_pos = [lon, lat]
            got_pos = [[_zr(v) for v in a.values.flat_list()] for a in (g2.node_lon, g2.node_lat)]
        n2c = len(got_pos[0])

        def face_eq(f_src, f_got):
            cs = []
            for j in range(max(n_max, w2)):
                got_id = sc.z(fn2[f_got, j]) if j < w2 else z3.IntVal(F)
                if j >= n_max:
                    cs.append(got_id == F)
                    continue
                same_pos = z3.And(got_id >= 0, got_id < sc.z(n2),
                                  *[_sel(gp, got_id, n2c) == _sel(sp, fn[f_src][j], N_NODE) for gp, sp in zip(got_pos, src_pos)])
                cs.append(z3.If(j < nf[f_src], same_pos, got_id == F))
            return z3.And(*cs)

        if fmt == "exodus":
            # Exodus may regroup faces: some permutation must match.  One permutation valid on the whole path is looked for first
            # (cheap queries); the disjunction over all permutations is the fall-back and the source of counterexamples.
            lab = "the re-read faces are the source faces (same corner positions and cyclic order) as a multiset"
            if sc.NL_UF[0]:
                lem = sc.nl_unit_lemmas()
                if lem:
                    ctx.eng.solver.add(*lem)
            for p in itertools.permutations(range(N_FACE)):
                cand = z3.And(*[face_eq(f, p[f]) for f in range(N_FACE)])
                if ctx.eng.check(z3.Not(cand)) == z3.unsat:
                    ctx.prove(lab, cand, note=f"permutation {p}")
                    break
            else:
                ctx.prove(lab, z3.Or(*[z3.And(*[face_eq(f, p[f]) for f in range(N_FACE)]) for p in itertools.permutations(range(N_FACE))]))
        else:
            for f in range(N_FACE):
                ctx.prove(f"re-read face {f} has the source face's corner positions in the same order, padding only at the end", face_eq(f, f))

        # ---- opening must not consume the encoded dataset: a second open (what a later to_netcdf + open_grid sees) gives the same grid
        try:
            g3 = Grid.from_dataset(enc)
            fn3 = g3.face_node_connectivity.values
            fn3 = fn3.raw() if hasattr(fn3, "raw") else fn3
        except (sc.Unsupported, sc.Inconclusive, sc.PathBudget):
            raise
        except Exception as ex:
            ctx.prove("the encoded dataset can be opened a second time", False, note=f"raised {type(ex).__name__}: {str(ex)[:120]}")
            return
        a3, a2 = fn3.flat_list(), fn2.flat_list()
        ctx.prove("opening the encoded dataset again (as a later write to NetCDF would see it) gives the same connectivity",
                  len(a3) == len(a2) and z3.And(*[sc.z(x) == sc.z(y) for x, y in zip(a3, a2)]))

    def replay(v):
        import uxarray as ux, xarray as xr, tempfile, os, shutil
        rows = C.model_table(v)
        lon, lat = [float(x) for x in v["lon"]], [float(x) for x in v["lat"]]
        extra = {}
        if xyz_source:
            for c in "xyz":
                extra["node_" + c] = xr.DataArray(np.array([float(x) for x in v["xyz" + c]]), dims=["n_node"])
        if other_first:
            og = C.real_grid([[0, 1, 2, 3, 4], [0, 4, 5, F, F], [5, 4, 6, 7, F], [1, 0, 5, F, F]], *C.default_lonlat(8))
            og.edge_node_connectivity, og.face_edge_connectivity, og.face_lon, og.edge_lon
            og.to_xarray("ugrid")
        g = C.real_grid(rows, lon, lat, extra=extra)
        hv = {k: bool(v["h_" + k]) for k in HIST}
        if fmt == "scrip":
            # as on the symbolic side: the areas are the model's positive values (a degenerate model polygon has area 0, which the
            # SCRIP reader takes for a structured file - zero-area faces are outside the claim)
            g._ds["face_areas"] = xr.DataArray(np.array([float(x) for x in v["area"]]), dims=["n_face"])
        try:
            _materialise(g, hv)
        except Exception:
            return None          # a table on which the library cannot derive the quantity is not a counterexample of C07
        what = f"to_xarray('{fmt}') after materialising {[k for k in HIST if hv[k]]} on faces {[C.face_corners(r) for r in rows]}"
        try:
            enc = g.to_xarray(fmt)
        except Exception as e:
            return f"{what} raised {type(e).__name__}: {str(e)[:120]}"
        if fmt == "ugrid":
            topo = enc["grid_topology"].attrs
            for k, val in topo.items():
                names = val.split() if k.endswith("_coordinates") else [val] if k.endswith("_connectivity") else []
                for nm in names:
                    if nm not in enc:
                        return f"{what}: grid_topology.{k} names '{nm}' which is not in the dataset"
                if k.endswith("_dimension") and k != "topology_dimension" and val not in enc.dims:
                    return f"{what}: grid_topology.{k} names dimension '{val}' which is not in the dataset"
            if ("edge_dimension" in topo) != ("n_edge" in enc.dims):
                return f"{what}: edge_dimension attribute {'present' if 'edge_dimension' in topo else 'absent'} but n_edge {'present' if 'n_edge' in enc.dims else 'absent'}"
        if xyz_source and fmt == "exodus":
            want = sorted(sorted([tuple(round(float(v["xyz" + c][i]), 9) for c in "xyz") for i in C.face_corners(r)][k:] +
                                 [tuple(round(float(v["xyz" + c][i]), 9) for c in "xyz") for i in C.face_corners(r)][:k]
                                 for k in range(len(C.face_corners(r))))[0] for r in rows)
        d = tempfile.mkdtemp(prefix="c07_")
        try:
            for via in ("direct", "file"):
                try:
                    if via == "file":
                        p = os.path.join(d, "enc.nc")
                        enc.to_netcdf(p)
                        g2 = ux.open_grid(p)
                    else:
                        g2 = ux.open_grid(enc)
                    if xyz_source and fmt == "exodus":
                        got = []
                        for r in g2.face_node_connectivity.values:
                            pts = [tuple(round(float(a.values[i]), 9) for a in (g2.node_x, g2.node_y, g2.node_z)) for i in r if i != F]
                            got.append(sorted(pts[k:] + pts[:k] for k in range(len(pts)))[0])
                        if sorted(got) != want:
                            return f"{what}, re-read ({via}): faces (xyz, canonical rotation) {sorted(got)} differ from the source's {want}"
                        continue
                    a, b = _real_faces(g, 7), _real_faces(g2, 7)
                except Exception as e:
                    return f"{what}, re-read ({via}) raised {type(e).__name__}: {str(e)[:160]}"
                if fmt == "exodus":
                    a, b = sorted(a), sorted(b)
                if a != b:
                    return f"{what}, re-read ({via}): faces {b} differ from the source's {a}"
        finally:
            shutil.rmtree(d, ignore_errors=True)
        return None

    return Obligation(oid, f"{fmt} round trip ({'xyz-bearing' if xyz_source else 'lon/lat'} source{', another grid encoded first' if other_first else ''})",
                      setup, run, replay, exact=False, functions=FUNCS[fmt],
                      bounds=(f"fixed table {[C.face_corners(r) for r in fixed]}" if fixed else
                              f"{N_FACE} faces of 3..{n_max} corners (every size mix / padding layout, symbolic numbering)") +
                             f" over {N_NODE} nodes with symbolic positions; symbolic history flags {list(flags)} (2^{len(flags)} materialisation sets)",
                      stubs=["NetCDF write/read = identity on datasets whose attribute values are storable (replays go through real files)",
                             "trig / products uninterpreted (positions compared as terms)"] + (["face_areas: arbitrary positive reals (C05)"] if fmt == "scrip" else []),
                      max_paths=20000, timeout_s=6000 if cost >= 100 else 1500, tiers=tiers, cost=cost)


FIXED2 = [[2, 1, 0, F, F], [1, 2, 3, 4, 5], [0, 1, 5, 4, F], [3, 2, 0, F, F]]     # three different sizes, 3 / 5 / 4 / 3
SOME = ("edges", "face_centers", "node_xyz")


def obligations(tier):
    cheap = ("face_centers", "node_xyz")
    obs = [make_roundtrip("C07.ugrid.table", "ugrid", 4, flags=cheap),
           make_roundtrip("C07.ugrid.table5", "ugrid", 5, flags=cheap, tiers=("thorough",), cost=20),
           make_roundtrip("C07.ugrid.history", "ugrid", 5, flags=HIST, fixed=FIXED, cost=20),
           make_roundtrip("C07.ugrid.after_other", "ugrid", 5, other_first=True, flags=("edges", "face_centers"), fixed=FIXED),
           make_roundtrip("C07.exodus.history", "exodus", 5, flags=HIST, fixed=FIXED, cost=20),
           make_roundtrip("C07.exodus.mix2", "exodus", 5, flags=SOME, fixed=FIXED2),
           make_roundtrip("C07.exodus.xyz", "exodus", 5, xyz_source=True, flags=SOME, fixed=FIXED2),
           make_roundtrip("C07.scrip.some", "scrip", 5, flags=SOME, fixed=FIXED, cost=10),
           make_roundtrip("C07.scrip.mix2", "scrip", 5, flags=("edges",), fixed=FIXED2),
           make_roundtrip("C07.scrip.history", "scrip", 5, flags=HIST, fixed=FIXED, tiers=("thorough",), cost=100)]
    return [o for o in obs if tier in o.tiers]
