"""C18 The dual mesh swaps nodes and faces with correct ring order.

Real code executed (cloned): Grid.get_dual -> validation._check_duplicate_nodes_indices, dual.construct_dual, dual.construct_faces
(py_func of the njit kernel), Grid.from_topology on the result; dual._order_nodes (py_func) on abstract geometry;
UxDataArray.get_dual.  Three kinds of obligation:

 faces   the per-node gather on a *symbolic* node-face table (every valence mix incl. nodes with < 3 faces, every numbering), with
         _order_nodes replaced by its contract (a permutation of the gathered faces that keeps the first, padding at the end) -
         which the 'order' obligations establish for the real function;
 order   the real _order_nodes on a ring of k face centres whose geometry is abstract (dot/cross/norm as uninterpreted terms,
         arccos an unknown strictly decreasing function into [0, pi]): the result lists the ring in the order "left of the
         reference chord by decreasing cosine, then right of it by increasing cosine", i.e. by increasing counter-clockwise angle;
 ccw     the sign convention, in true polynomial arithmetic: a centre with det(c, a-c, p-c) > 0 (counter-clockwise side seen from
         outside) is listed before one with det < 0;
 data    UxDataArray.get_dual on closed grids: dimension names swapped in place, values untouched, sizes match the dual grid."""
import itertools
import math
import z3
import numpy as np
from symex import core as sc, symnp, symxr
from symex.core import mk
from symex.runner import Obligation, world
from . import common as C
from .common import F

FUNCS = ["Grid.get_dual", "validation._check_duplicate_nodes_indices", "dual.construct_dual", "dual.construct_faces", "Grid.from_topology",
         "_topology._read_topology", "Grid.face_node_connectivity", "Grid.node_lon/node_lat"]


def _zr(v):
    v = sc.z(v)
    return z3.ToReal(v) if z3.is_int(v) else v


# ------------------------------------------------------------------ the contract of _order_nodes used by the gather obligations
def _order_summary(ctx, calls=None):
    def summary(temp_face, node_0, node_central, n_edges, dual_node_x, dual_node_y, dual_node_z, max_edges):
        e = ctx.eng
        n = int(n_edges)
        if calls is not None:
            calls.append({"temp": [sc.z(v) for v in temp_face.flat_list()], "node_0": [sc.z(v) for v in node_0.flat_list()],
                          "central": [sc.z(v) for v in node_central.flat_list()], "n": n,
                          "dual": [[sc.z(v) for v in a.flat_list()] for a in (dual_node_x, dual_node_y, dual_node_z)]})
        t = [sc.z(v) for v in temp_face.flat_list()][:n]
        out = [t[0]]
        fresh = [e.fresh("ord", "Int") for _ in range(n - 1)]
        for i, v in enumerate(fresh):
            e.solver.add(z3.Or(*[v == x for x in t[1:]]))
            for w_ in fresh[:i]:
                e.solver.add(v != w_)
        out += fresh
        out += [z3.IntVal(F)] * (int(max_edges) - n)
        return symnp.SArr.new([mk(x) for x in out], (int(max_edges),), None, symnp.int64)
    return summary


# a primal mesh that only provides sizes and coordinates; the node-face table is supplied separately (symbolic)
P_ROWS = [[0, 1, 2, F], [0, 2, 3, F], [0, 3, 1, F], [1, 3, 2, F], [1, 2, 3, 0]]      # 5 faces over 4 nodes (sizes only)
P_LON = [10.0, 100.0, -140.0, -20.0]
P_LAT = [50.0, -20.0, -30.0, -60.0]
FC_LON = [-35.0, 75.0, 160.0, -100.0, 20.0]
FC_LAT = [40.0, -10.0, 25.0, -45.0, -70.0]


def make_faces(oid, n_node, max_val, min_val=1, tiers=("quick", "thorough"), cost=5):
    n_face = len(P_ROWS)

    def setup(ctx):
        S = ctx.solver
        nf = [[z3.Int(f"nfc_{i}_{j}") for j in range(max_val)] for i in range(n_node)]
        val = [z3.Int(f"val_{i}") for i in range(n_node)]
        for i in range(n_node):
            S.add(val[i] >= min_val, val[i] <= max_val)
            for j in range(max_val):
                S.add(z3.If(j < val[i], z3.And(nf[i][j] >= 0, nf[i][j] < n_face), nf[i][j] == F))
                for k in range(j + 1, max_val):
                    S.add(z3.Implies(k < val[i], nf[i][j] != nf[i][k]))
        # the table's width is the largest valence (uxarray builds it that way)
        S.add(z3.Or(*[v == max_val for v in val]))
        ctx.eng.declare("nfc", nf)
        ctx.eng.declare("val", val)
        flon = [z3.Real(f"flon_{f}") for f in range(n_face)]
        flat = [z3.Real(f"flat_{f}") for f in range(n_face)]
        for v in flon:
            S.add(v >= -180, v <= 180)
        for v in flat:
            S.add(v >= -90, v <= 90)
        ctx.eng.declare("flon", flon)
        ctx.eng.declare("flat", flat)
        return nf, val, flon, flat

    def _vars(nf_data, lon, lat, flon, flat, arr_i, arr_f):
        return {"node_lon": (["n_node"], arr_f(lon)), "node_lat": (["n_node"], arr_f(lat)),
                "face_node_connectivity": (["n_face", "n_max_face_nodes"], arr_i(P_ROWS), dict(C.FN_ATTRS)),
                "face_lon": (["n_face"], arr_f(flon)), "face_lat": (["n_face"], arr_f(flat)),
                "node_face_connectivity": (["n_node", "n_max_node_faces"], nf_data, {"cf_role": "node_face_connectivity", "_FillValue": F, "start_index": 0})}

    def run(ctx, inp):
        nf, val, flon, flat = inp
        sc.NL_UF[0] = True
        old_sqrt, symnp.SQRT_MODE[0] = symnp.SQRT_MODE[0], "uf"
        symnp.TRIG_RANGE[0] = True
        w = world()
        gd = w.G["uxarray.grid.dual"]
        saved = gd["_order_nodes"]
        calls = []
        gd["_order_nodes"] = _order_summary(ctx, calls)
        try:
            lon, lat = P_LON[:n_node], P_LAT[:n_node]
            rows = [r for r in P_ROWS]
            g = C.clone_grid_from(_vars(C.sarr_int(nf), lon, lat, flon, flat, lambda r: C.sarr_int(r), lambda v: C.sarr_1d(v, symnp.float64)))
            dual = g.get_dual()
            dfn = dual.face_node_connectivity.values
            dfn = dfn.raw() if hasattr(dfn, "raw") else dfn
            n_dual = dual.n_face
            width = dfn.shape[1]
            keep = [val[i] >= 3 for i in range(n_node)]
            ctx.prove("the dual has one face per primal node with at least three faces", sc.z(n_dual) == z3.Sum([z3.If(k, 1, 0) for k in keep]))
            ctx.prove("the dual has one node per primal face", sc.z(dual.n_node) == n_face)
            dl, dt = dual.node_lon.values.flat_list(), dual.node_lat.values.flat_list()
            ctx.prove("dual node f lies at the centre of primal face f",
                      len(dl) == n_face and z3.And(*[z3.And(_zr(dl[f]) == flon[f], _zr(dt[f]) == flat[f]) for f in range(n_face)]))
            for i in range(n_node):
                rank = z3.Sum([z3.If(keep[j], 1, 0) for j in range(i)]) if i else z3.IntVal(0)
                conds = []
                for r in range(min(n_node, dfn.shape_cap[0])):
                    row = [sc.z(dfn[r, j]) for j in range(width)]
                    members = z3.And(*[z3.Implies(j < val[i], z3.Or(*[row[c] == nf[i][j] for c in range(width)])) for j in range(max_val)])
                    padding = z3.And(*[z3.If(c < val[i], row[c] != F, row[c] == F) for c in range(width)])
                    conds.append(z3.Implies(rank == r, z3.And(members, padding)))
                ctx.prove(f"the dual face of node {i} (the i-th kept node keeps its rank) has exactly the faces meeting at the node, padding only at the end",
                          z3.Implies(keep[i], z3.And(*conds)))
            # what the ordering kernel is asked: the ring of node i is ordered about node i itself, starting from its first face's centre
            nxyz = [[_zr(v) for v in a.values.flat_list()] for a in (g.node_x, g.node_y, g.node_z)]
            fxyz = [[_zr(v) for v in a.values.flat_list()] for a in (g.face_x, g.face_y, g.face_z)]

            def sel(arr, idx):
                out = arr[-1]
                for q in range(len(arr) - 2, -1, -1):
                    out = z3.If(idx == q, arr[q], out)
                return out
            for c, call in enumerate(calls):
                cl = []
                for i in range(n_node):
                    rank = z3.Sum([z3.If(keep[j], 1, 0) for j in range(i)]) if i else z3.IntVal(0)
                    right = z3.And(*[_zr(call["central"][a]) == nxyz[a][i] for a in range(3)],
                                   *[_zr(call["node_0"][a]) == sel(fxyz[a], nf[i][0]) for a in range(3)],
                                   call["n"] == val[i],
                                   *[_zr(x) == y for a in range(3) for x, y in zip(call["dual"][a], fxyz[a])])
                    cl.append(z3.Implies(z3.And(keep[i], rank == c), right))
                ctx.prove(f"ordering call {c}: ring ordered about its own primal node, from its first face's centre, over the face-centre arrays", z3.And(*cl))
            ctx.reachable("a node with fewer than three faces is skipped", z3.Or(*[z3.Not(k) for k in keep]) if min_val < 3 else True)
        finally:
            gd["_order_nodes"] = saved
            sc.NL_UF[0] = False
            symnp.SQRT_MODE[0] = old_sqrt
            symnp.TRIG_RANGE[0] = False

    def replay(v):
        nfm = [[int(x) for x in r] for r in v["nfc"]]
        val = [int(x) for x in v["val"]]
        flon, flat = [float(x) for x in v["flon"]], [float(x) for x in v["flat"]]
        # the real _order_nodes needs real geometry: model centres are used as they are unless two coincide
        if len({(round(a, 9), round(b, 9)) for a, b in zip(flon, flat)}) < len(flon):
            flon, flat = FC_LON[:], FC_LAT[:]
        g = C.real_grid_from(_vars(nfm, P_LON[:n_node], P_LAT[:n_node], flon, flat, lambda r: r, lambda x: list(x)))
        try:
            dual = g.get_dual()
        except Exception as e:
            return f"get_dual raised {type(e).__name__}: {str(e)[:120]} on node-face table {nfm}"
        rows = [[int(x) for x in r if int(x) != F] for r in dual.face_node_connectivity.values]
        raw = [[int(x) for x in r] for r in dual.face_node_connectivity.values]
        kept = [i for i in range(n_node) if val[i] >= 3]
        if len(rows) != len(kept):
            return f"node-face table {nfm}: dual has {len(rows)} faces, nodes with >= 3 faces: {kept}"
        if dual.n_node != n_face or not np.allclose((np.asarray(dual.node_lon.values) - np.array(flon) + 180) % 360 - 180, 0, atol=1e-9) \
                or not np.allclose(dual.node_lat.values, flat, atol=1e-9):
            return f"dual nodes are not the primal face centres: lon {dual.node_lon.values.tolist()} vs {flon}"
        for r, i in enumerate(kept):
            want = sorted(nfm[i][:val[i]])
            if sorted(rows[r]) != want or any(x == F for x in raw[r][:val[i]]):
                return f"node-face table {nfm}: dual face {r} (primal node {i}) is {raw[r]}, faces at the node are {want}"
        # ring order: reference model of the angular sort, about the face's OWN primal node, starting from its first face
        ll = lambda lo, la: np.array([math.cos(math.radians(la)) * math.cos(math.radians(lo)), math.cos(math.radians(la)) * math.sin(math.radians(lo)), math.sin(math.radians(la))])      # noqa: E731
        for r, i in enumerate(kept):
            c = ll(P_LON[i], P_LAT[i])
            ring = nfm[i][:val[i]]
            a = ll(flon[ring[0]], flat[ring[0]])
            u0, nrm = a - c, np.cross(a, c)
            ang = {}
            for f in ring[1:]:
                u = ll(flon[f], flat[f]) - c
                t = math.acos(max(-1.0, min(1.0, float(np.dot(u0, u) / (np.linalg.norm(u0) * np.linalg.norm(u))))))
                ang[f] = (2 * math.pi - t) if float(np.dot(nrm, u)) > 0 else t
            vals = sorted(ang.values())
            if any(b_ - a_ < 1e-6 for a_, b_ in zip(vals, vals[1:])) or (vals and (vals[0] < 1e-6 or vals[-1] > 2 * math.pi - 1e-6)):
                continue          # degenerate ring for these centres: no verdict
            want_ring = [ring[0]] + sorted(ang, key=ang.get)
            if rows[r] != want_ring:
                return f"node-face table {nfm}, centres (lon {flon}, lat {flat}): dual face {r} of primal node {i} lists {rows[r]}, counter-clockwise order about node {i} is {want_ring}"
        return None

    return Obligation(oid, f"dual faces gather exactly the faces at each node ({n_node} nodes, valence {min_val}..{max_val})", setup, run, replay, exact=True,
                      functions=FUNCS, bounds=f"{n_node} primal nodes, 5 primal faces, symbolic node-face table with valences {min_val}..{max_val} and any numbering; symbolic face centres",
                      stubs=["dual._order_nodes replaced by its contract (permutation keeping the first entry, padding at the end) - established by C18.order.*"],
                      max_paths=20000, timeout_s=1500, tiers=tiers, cost=cost)


# ------------------------------------------------------------------ _order_nodes on abstract geometry
def make_order(oid, k, tiers=("quick", "thorough"), cost=5):
    max_edges = k + 1
    temp = list(reversed(range(k)))           # indices of the ring's centres in the dual node arrays (not the identity)

    def setup(ctx):
        c = [z3.Real(f"c_{a}") for a in "xyz"]
        P = [[z3.Real(f"p_{j}_{a}") for a in "xyz"] for j in range(k)]
        ctx.eng.declare("c", c)
        ctx.eng.declare("P", P)
        return c, P

    def run(ctx, inp):
        c, P = inp
        sc.NL_UF[0] = True
        old_sqrt, symnp.SQRT_MODE[0] = symnp.SQRT_MODE[0], "uf"
        symnp.TRIG_RANGE[0] = True
        symnp.TRIG_MONO[0] = True
        try:
            A = lambda vals: symnp.SArr.new([mk(x) for x in vals], (len(vals),), None, symnp.float64)
            dx, dy, dz = A([P[j][0] for j in range(k)]), A([P[j][1] for j in range(k)]), A([P[j][2] for j in range(k)])
            central, node_0 = A(c), A(P[temp[0]])
            # the quantities the ordering depends on, built with the same operations the kernel uses (compared term by term below)
            node_zero = node_0 - central
            node_cross = symnp.cross(node_0, central)
            zm = symnp.linalg.norm(node_zero)
            side, cosv = {}, {}
            for j in range(1, k):
                diff = A(P[temp[j]]) - central
                dm = symnp.linalg.norm(diff)
                side[j] = sc.z(symnp.dot(node_cross, diff))
                cosv[j] = sc.z(symnp.dot(node_zero, diff) / (zm * dm))
            # general position: no centre on the reference line, cosines strictly inside (-1, 1) and pairwise different
            for j in range(1, k):
                ctx.assume(side[j] != 0, cosv[j] > -1, cosv[j] < 1)
                for i in range(1, j):
                    ctx.assume(cosv[i] != cosv[j])
            del symnp.TRIG_LOG[:]
            fn = world().G["uxarray.grid.dual"]["_order_nodes"]
            out = fn(symnp.array(temp), node_0, central, k, dx, dy, dz, max_edges)
            args = [a for (n, a, t) in symnp.TRIG_LOG if n == "arccos"]
            if len(args) != k - 1 or not all(z3.simplify(a).eq(z3.simplify(cosv[j])) for j, a in zip(range(1, k), args)):
                raise sc.Unsupported("the kernel's angle arguments are not the terms the harness constrains (evaluation order changed)")
            got = [sc.z(v) for v in out.flat_list()]

            def before(i, j):
                return z3.Or(z3.And(side[i] < 0, side[j] > 0), z3.And(side[i] < 0, side[j] < 0, cosv[i] > cosv[j]),
                             z3.And(side[i] > 0, side[j] > 0, cosv[i] < cosv[j]))
            ctx.prove("the reference centre stays first", got[0] == temp[0])
            for j in range(1, k):
                rank = 1 + z3.Sum([z3.If(before(i, j), 1, 0) for i in range(1, k) if i != j])
                ctx.prove(f"ring member {j} is placed at its counter-clockwise rank", z3.And(*[z3.Implies(rank == r, got[r] == temp[j]) for r in range(1, k)]))
            ctx.prove("padding only at the end", len(got) == max_edges and z3.And(*[got[r] == F for r in range(k, max_edges)]))
        finally:
            sc.NL_UF[0] = False
            symnp.SQRT_MODE[0] = old_sqrt
            symnp.TRIG_RANGE[0] = False
            symnp.TRIG_MONO[0] = False

    def replay(v):
        """abstract model -> concrete ring: the model only fixes the combinatorics (which members are left/right of the reference chord and
        their cosine order); a real ring with that combinatorics is laid out around a node and the real kernel is judged by true azimuth"""
        from uxarray.grid.dual import _order_nodes
        problems = []
        for lon0, lat0, rad in ((30.0, 20.0, 0.2), (179.0, -75.0, 0.12), (-60.0, 89.0, 0.3)):
            for perm in ([1, 2, 3, 4, 5, 6][:k - 1], [3, 1, 4, 2, 6, 5][:k - 1] if k > 3 else [2, 1]):
                perm = [p for p in perm if p <= k - 1]
                if sorted(perm) != list(range(1, k)):
                    perm = list(range(k - 1, 0, -1))
                lam, phi = math.radians(lon0), math.radians(lat0)
                cvec = np.array([math.cos(phi) * math.cos(lam), math.cos(phi) * math.sin(lam), math.sin(phi)])
                e1 = np.cross([0.0, 0.0, 1.0], cvec); e1 /= np.linalg.norm(e1)
                e2 = np.cross(cvec, e1)                       # (e1, e2, c) right-handed: azimuth grows counter-clockwise seen from outside
                az = {0: 0.0}
                for slot, j in enumerate(perm, 1):
                    az[j] = 2 * math.pi * slot / k + 0.05 * slot
                pts = np.zeros((k, 3))
                for j in range(k):
                    p = cvec + rad * (1 + 0.3 * (j % 3)) * (math.cos(az[j]) * e1 + math.sin(az[j]) * e2)
                    pts[temp[j]] = p / np.linalg.norm(p)
                out = _order_nodes(np.array(temp, dtype=np.intp), pts[temp[0]].copy(), cvec.copy(), k, pts[:, 0].copy(), pts[:, 1].copy(), pts[:, 2].copy(), max_edges)
                want = [temp[0]] + [temp[j] for j in perm] + [F] * (max_edges - k)
                if [int(x) for x in out] != want:
                    problems.append(f"node at ({lon0},{lat0}), ring azimuths {[round(math.degrees(az[j]), 1) for j in range(k)]} for members {temp}: "
                                    f"_order_nodes returned {[int(x) for x in out]}, counter-clockwise order is {want}")
        return problems[0] if problems else None

    return Obligation(oid, f"_order_nodes lists a ring of {k} centres by increasing counter-clockwise angle", setup, run, replay, exact=False,
                      functions=["dual._order_nodes"],
                      bounds=f"ring of {k} face centres (valence {k}); geometry abstract; general position (no centre on the reference line, distinct cosines in (-1,1))",
                      stubs=["np.dot / np.cross / np.linalg.norm results as uninterpreted terms", "np.arccos: unknown strictly decreasing function into [0, pi]"],
                      assumptions=["'left of the reference chord' is the sign of the kernel's own d_side term; its geometric meaning is C18.ccw"],
                      max_paths=20000, timeout_s=1500, tiers=tiers, cost=cost)


# ------------------------------------------------------------------ the sign convention, polynomial arithmetic
def make_ccw(oid):
    def setup(ctx):
        # frame: node on the z axis, reference centre in the x-z half plane (dot, cross and norm are rotation invariant)
        ax, az = ctx.real("a_x", 0.01, 1), ctx.real("a_z", -1, 1)
        p = [[ctx.real(f"p{j}_{a}", -1, 1) for a in "xyz"] for j in (1, 2)]
        return ax, az, p

    def run(ctx, inp):
        ax, az, p = inp
        A = lambda vals: symnp.SArr.new(list(vals), (len(vals),), None, symnp.float64)
        symnp.TRIG_RANGE[0] = True
        symnp.TRIG_MONO[0] = True
        sc.NL_UF[0] = True
        sc.NL_SIGN[0] = True
        old_sqrt, symnp.SQRT_MODE[0] = symnp.SQRT_MODE[0], "uf"
        try:
            c = [0.0, 0.0, 1.0]
            a = [ax, 0.0, az]
            dx, dy, dz = A([a[0], p[0][0], p[1][0]]), A([a[1], p[0][1], p[1][1]]), A([a[2], p[0][2], p[1][2]])
            # det(c, a - c, p - c) = a_x * p_y in this frame: p1 on the counter-clockwise side of the chord c->a, p2 on the clockwise side
            ctx.assume(sc.z(p[0][1]) > sc.lift(1e-6), sc.z(p[1][1]) < -sc.lift(1e-6))
            # strict Cauchy-Schwarz (p - c is not parallel to a - c because its y component is non-zero): the kernel's cosine terms,
            # rebuilt with the kernel's own operations, lie strictly inside (-1, 1)
            node_zero = A(a) - A(c)
            zm = symnp.linalg.norm(node_zero)
            for j in (0, 1):
                diff = A(p[j]) - A(c)
                ctx.assume(sc.z(symnp.dot(node_zero, diff) / (zm * symnp.linalg.norm(diff))) > -1, sc.z(symnp.dot(node_zero, diff) / (zm * symnp.linalg.norm(diff))) < 1)
            fn = world().G["uxarray.grid.dual"]["_order_nodes"]
            out = fn(symnp.array([0, 1, 2]), A(a), A(c), 3, dx, dy, dz, 3)
            got = [sc.z(v) for v in out.flat_list()]
            ctx.prove("the centre on the counter-clockwise side of the reference chord (seen from outside) directly follows the reference", got[1] == 1)
            ctx.prove("the centre on the clockwise side is never listed before it", z3.And(got[0] == 0, z3.Or(got[2] == 2, got[2] == F)))
        finally:
            symnp.TRIG_RANGE[0] = False
            symnp.TRIG_MONO[0] = False
            sc.NL_UF[0] = False
            sc.NL_SIGN[0] = False
            symnp.SQRT_MODE[0] = old_sqrt

    def replay(v):
        from uxarray.grid.dual import _order_nodes
        a = np.array([float(v["a_x"]), 0.0, float(v["a_z"])])
        P = np.array([a] + [[float(v[f"p{j}_{c}"]) for c in "xyz"] for j in (1, 2)])
        out = [int(x) for x in _order_nodes(np.array([0, 1, 2], dtype=np.intp), a.copy(), np.array([0.0, 0.0, 1.0]), 3, P[:, 0].copy(), P[:, 1].copy(), P[:, 2].copy(), 3)]
        if out[1] != 1:
            return f"node (0,0,1), reference centre {a.tolist()}, centres {P[1].tolist()} (counter-clockwise side) and {P[2].tolist()} (clockwise side): order {out}"
        return None

    return Obligation(oid, "_order_nodes: counter-clockwise seen from outside (sign convention)", setup, run, replay, exact=True, functions=["dual._order_nodes"],
                      bounds="3 centres, node on the z axis and reference centre in the x-z half plane (rotation invariance of dot/cross/norm assumed); coordinates in [-1,1], 1e-6 margin from the chord's plane",
                      stubs=["np.arccos: unknown function into [0, pi], 0 only at 1 and pi only at -1", "products of two unknowns: uninterpreted with the sign rule of multiplication; quotients, sqrt uninterpreted"],
                      timeout_s=900, query_timeout_s=300)


# ------------------------------------------------------------------ data
# closed grids: tetrahedron (n_face = n_node = 4) and triangular prism (5 faces, 6 nodes), outward counter-clockwise faces
TETRA = ([[0, 1, 2], [0, 3, 1], [1, 3, 2], [2, 3, 0]], [0.0, 120.0, -120.0, 37.0], [-25.0, -25.0, -25.0, 88.0])
PRISM = ([[0, 1, 2, F], [5, 4, 3, F], [0, 3, 4, 1], [1, 4, 5, 2], [2, 5, 3, 0]], [0.0, 120.0, -120.0, 0.0, 120.0, -120.0], [40.0, 40.0, 40.0, -40.0, -40.0, -40.0])
LAYOUTS = [("n_face",), ("n_node",), ("t", "n_face"), ("n_face", "t"), ("t", "n_node", "lev"), ("n_node", "t"), ("t", "lev")]


def make_data(oid, mesh, layouts=LAYOUTS):
    rows, lon, lat = {"tetra": TETRA, "prism": PRISM}[mesh]
    n_face, n_node = len(rows), len(lon)
    sizes = {"n_face": n_face, "n_node": n_node, "t": 2, "lev": 3}

    def setup(ctx):
        lay = ctx.enum("layout", [",".join(l) for l in layouts])
        n = max(int(np.prod([sizes[d] for d in l])) for l in layouts)
        vals = [z3.Real(f"v_{i}") for i in range(n)]
        ctx.eng.declare("vals", vals)
        return lay, vals

    def run(ctx, inp):
        lay, vals = inp
        w = world()
        li = sc.concretize(sc.SymInt(lay.e))
        dims = layouts[li]
        shape = tuple(sizes[d] for d in dims)
        n = int(np.prod(shape))
        g = C.clone_grid(C.sarr_int(rows), lon, lat)
        U = w.get("uxarray.core.dataarray", "UxDataArray")
        da = U(symnp.SArr.new([mk(v) for v in vals[:n]], shape, None, symnp.float64), dims=list(dims), uxgrid=g, name="field")
        out = da.get_dual()
        swap = {"n_face": "n_node", "n_node": "n_face"}
        ctx.prove("dimension names: n_face <-> n_node in place, others untouched", tuple(out.dims) == tuple(swap.get(d, d) for d in dims), note=f"{tuple(out.dims)}")
        ov = out.values
        ctx.prove("values unchanged and unpermuted", tuple(ov.shape_cap) == shape and z3.And(*[_zr(a) == b for a, b in zip(ov.flat_list(), vals[:n])]))
        dg = out.uxgrid
        ctx.prove("the result is attached to the dual grid (one face per node, one node per face)", sc.and_(dg is not g, dg.n_face == n_node, dg.n_node == n_face))
        for d, s in zip(out.dims, shape):
            if d in ("n_face", "n_node"):
                ctx.prove(f"length of {d} equals the dual grid's count", s == {"n_face": dg.n_face, "n_node": dg.n_node}[d])
        ctx.prove("name kept", out.name == "field")

    def replay(v):
        import uxarray as ux
        dims = layouts[int(v["layout"])]
        shape = tuple(sizes[d] for d in dims)
        n = int(np.prod(shape))
        g = C.real_grid(rows, lon, lat)
        data = np.array([float(x) for x in v["vals"][:n]]).reshape(shape)
        da = ux.UxDataArray(data, dims=list(dims), uxgrid=g, name="field")
        try:
            out = da.get_dual()
        except Exception as e:
            return f"get_dual on dims {dims} raised {type(e).__name__}: {str(e)[:150]}"
        swap = {"n_face": "n_node", "n_node": "n_face"}
        want = tuple(swap.get(d, d) for d in dims)
        if tuple(out.dims) != want:
            return f"get_dual on dims {dims}: result dims {tuple(out.dims)}, expected {want}"
        if not np.array_equal(np.asarray(out.values), data):
            return f"get_dual on dims {dims}: values changed"
        for d, s in zip(out.dims, out.shape):
            if d in ("n_face", "n_node") and s != {"n_face": out.uxgrid.n_face, "n_node": out.uxgrid.n_node}[d]:
                return f"get_dual on dims {dims}: dimension {d} has length {s}, the dual grid has {out.uxgrid.n_face} faces / {out.uxgrid.n_node} nodes"
        return None

    return Obligation(oid, f"UxDataArray.get_dual swaps the element dimension ({mesh})", setup, run, replay, exact=True,
                      functions=["UxDataArray.get_dual", "dual.construct_dual", "dual.construct_faces", "dual._order_nodes", "Grid.from_topology", "Grid.hole_edge_indices"],
                      bounds=f"closed {mesh} ({n_face} faces, {n_node} nodes), {len(layouts)} dimension layouts, symbolic values", timeout_s=900)


def obligations(tier):
    obs = [make_faces("C18.faces.v4", 4, 4, min_val=1),
           make_faces("C18.faces.closed", 4, 4, min_val=3, cost=3),
           make_order("C18.order.4", 4),
           make_order("C18.order.5", 5, cost=20),
           make_order("C18.order.6", 6, tiers=("thorough",), cost=100),
           make_ccw("C18.ccw"),
           make_data("C18.data.tetra", "tetra"),
           make_data("C18.data.prism", "prism")]
    return [o for o in obs if tier in o.tiers]
