"""C06 Integration is the area-weighted sum over faces.

Real code executed: UxDataArray.integrate (cloned onto the symxr base class) over a cloned real Grid whose
compute_face_areas runs for real; only the numeric kernel get_all_face_area_from_coords is replaced by an
uninterpreted area function A(face, rule, order) >= 0, so 'areas as computed with the requested rule and order'
is a term-level statement.  History: an earlier area computation with other arguments on the same grid."""
import z3
import numpy as np
from symex import core as sc, symnp, symxr
from symex.core import mk
from symex.runner import Obligation, world
from . import common as C
from .common import F

RULES = ["triangular", "gaussian"]
ORDERS = [1, 4, 8]
FUNCS = ["UxDataArray.integrate", "Grid.compute_face_areas", "Grid.face_areas", "Grid.n_face/n_node/n_edge", "Grid.n_nodes_per_face"]
A = z3.Function("A", z3.IntSort(), z3.IntSort(), z3.IntSort(), z3.RealSort())     # area of face f under (rule index, order)

# grids (connectivity is not the subject here): sizes chosen so that element counts coincide
GRIDS = {
    "tetra": ([[0, 1, 2], [0, 3, 1], [1, 3, 2], [2, 3, 0]], 4),          # n_face = n_node = 4, n_edge = 6
    "tri3": ([[0, 1, 2], [0, 1, 2], [0, 1, 2]], 3),                      # n_face = n_node = n_edge = 3 (degenerate, sizes only)
    "mixed": ([[0, 1, 2, 3], [1, 4, 2, F], [2, 4, 5, F]], 6),            # n_face 3, n_node 6, n_edge 8
}


def _sizes(name):
    rows, n_node = GRIDS[name]
    _, allp = C.ref_edges(rows)
    return {"n_face": len(rows), "n_node": n_node, "n_edge": len(allp)}


def make(oid, gname, kind, lead, hist, dtype="float", tiers=("quick", "thorough"), cost=1):
    rows, n_node = GRIDS[gname]
    lon, lat = C.default_lonlat(n_node)
    sizes = _sizes(gname)
    L = sizes[kind]
    shape = tuple(lead) + (L,)
    dims = tuple(f"d{i}" for i in range(len(lead))) + (kind,)
    nvals = int(np.prod(shape))

    def setup(ctx):
        ctx.const("grid", gname); ctx.const("kind", kind); ctx.const("lead", list(lead)); ctx.const("hist", hist); ctx.const("dtype", dtype)
        rule = ctx.enum("rule", RULES)
        order = ctx.enum("order", ORDERS)
        rule0 = ctx.enum("rule0", RULES)
        order0 = ctx.enum("order0", ORDERS)
        if dtype == "float":
            vals = [z3.Real(f"v_{i}") for i in range(nvals)]
        else:
            vals = [z3.Int(f"v_{i}") for i in range(nvals)]
            for v in vals:
                ctx.solver.add(v >= -3, v <= 3)
        ctx.eng.declare("vals", vals)
        return rule, order, rule0, order0, vals

    def run(ctx, inp):
        rule, order, rule0, order0, vals = inp
        w = world()
        calls = []

        def area_kernel(x, y, z, face_nodes, face_geometry, dim, quadrature_rule="triangular", order=4, coords_type="spherical"):
            calls.append((quadrature_rule, order))
            r = _idx(quadrature_rule, RULES)
            o = _idx(order, ORDERS, values=True)
            ar = [mk(A(f, r, o)) for f in range(len(rows))]
            for a in ar:
                ctx.solver.add(sc.lift(a) >= 0)
            jac = [mk(A(f, r, o)) for f in range(len(rows))]
            return symnp.SArr.new(ar, (len(rows),), None, symnp.float64), symnp.SArr.new(jac, (len(rows),), None, symnp.float64)
        gg = w.G["uxarray.grid.grid"]
        saved = gg["get_all_face_area_from_coords"]
        gg["get_all_face_area_from_coords"] = area_kernel
        try:
            extra = None
            if hist == "supplied":
                # the source ships its own per-face areas (as MPAS areaCell): arbitrary positive reals unrelated to any quadrature
                sup = [z3.Real(f"supplied_area_{f}") for f in range(len(rows))]
                for a_ in sup:
                    ctx.solver.add(a_ > 0, a_ <= 13)
                ctx.eng.declare("supplied", sup)
                extra = {"face_areas": symxr.DataArray(C.sarr_1d(sup, symnp.float64), dims=["n_face"])}
            g = C.clone_grid(symnp.array(rows), lon, lat, extra=extra)
            if hist == "compute":
                g.compute_face_areas(rule0, order0.concrete() if False else order0)
            elif hist == "face_areas":
                g.face_areas
            elif hist == "total":
                g.calculate_total_face_area(rule0, order0)
            U = w.get("uxarray.core.dataarray", "UxDataArray")
            data = symnp.SArr.new([mk(v) for v in vals], shape, None, symnp.float64 if dtype == "float" else symnp.int64)
            da = U(data, dims=list(dims), uxgrid=g, name="var")
            raised = None
            try:
                out = da.integrate(rule, order)
            except Exception as ex:      # noqa: BLE001  (path-steering exceptions are BaseException)
                raised = ex
        finally:
            gg["get_all_face_area_from_coords"] = saved
        if kind != "n_face":
            ctx.prove(f"{kind}-centred data is rejected", raised is not None)
            return
        ctx.prove("face-centred data is integrated (no exception)", raised is None,
                  note=None if raised is None else repr(raised))
        if raised is not None:
            return
        r, o = rule.e, _idx(order, ORDERS, values=True)
        outv = out.values
        nlead = int(np.prod(lead)) if lead else 1
        got = outv.flat_list() if isinstance(outv, symnp.SArr) else [outv]
        ctx.prove("result shape/dims/name/grid", sc.and_(len(got) == nlead, tuple(out.dims) == dims[:-1], out.name == "var",
                                                         out.uxgrid is g, (outv.shape_cap if isinstance(outv, symnp.SArr) else ()) == tuple(lead)))
        if len(got) != nlead:
            return
        for i in range(nlead):
            exp = z3.Sum([A(f, r, o) * (z3.ToReal(vals[i * L + f]) if dtype != "float" else vals[i * L + f]) for f in range(L)])
            ctx.prove(f"out[{i}] = sum_f area_f(rule,order) * v[{i},f]", _real(got[i]) == exp)
        ctx.reachable("integrated")
        # 'integrating the constant 1 gives the grid's total area': the total for the same rule and order is the sum of the same areas
        gg["get_all_face_area_from_coords"] = area_kernel
        try:
            tot = g.calculate_total_face_area(rule, order)
        finally:
            gg["get_all_face_area_from_coords"] = saved
        ctx.prove("calculate_total_face_area(rule, order) = sum_f area_f(rule, order) = integral of the constant 1", _real(tot) == z3.Sum([A(f, r, o) for f in range(L)]))

    def replay(v):
        import uxarray as ux
        from uxarray.grid.area import get_all_face_area_from_coords
        extra = None
        if hist == "supplied":
            import xarray as xr
            extra = {"face_areas": xr.DataArray(np.array([float(x) for x in v["supplied"]]), dims=["n_face"])}
        g = C.real_grid(rows, lon, lat, extra=extra)
        rule, order = RULES[v["rule"]], ORDERS[v["order"]]
        if hist == "compute":
            g.compute_face_areas(RULES[v["rule0"]], ORDERS[v["order0"]])
        elif hist == "face_areas":
            g.face_areas
        elif hist == "total":
            g.calculate_total_face_area(RULES[v["rule0"]], ORDERS[v["order0"]])
        data = np.array(v["vals"], dtype=float if dtype == "float" else np.int64).reshape(shape)
        da = ux.UxDataArray(data, dims=list(dims), uxgrid=g, name="var")
        try:
            out = da.integrate(rule, order)
        except Exception as ex:    # noqa: BLE001
            return None if kind != "n_face" else f"integrate raised {ex!r} on face-centred data"
        if kind != "n_face":
            return f"{kind}-centred data of shape {shape} was integrated (result {np.asarray(out.values).tolist()}) on a grid with sizes {sizes} instead of being rejected"
        ref_grid = C.real_grid(rows, lon, lat)
        areas, _ = get_all_face_area_from_coords(ref_grid.node_lon.values, ref_grid.node_lat.values, np.zeros(n_node),
                                                 ref_grid.face_node_connectivity.values, ref_grid.n_nodes_per_face.values, 2, rule, order, "spherical")
        exp = np.tensordot(data.astype(float), areas, axes=([-1], [0]))
        if tuple(out.dims) != dims[:-1] or out.name != "var" or out.uxgrid is not g:
            return f"result dims/name/grid wrong: {out.dims} {out.name}"
        if np.asarray(out.values).shape != tuple(lead) or not np.allclose(np.asarray(out.values, dtype=float), exp, rtol=1e-9, atol=1e-12):
            return f"integrate({rule},{order}) after history {hist}({RULES[v['rule0']]},{ORDERS[v['order0']]}) = {np.asarray(out.values).tolist()}, expected {exp.tolist()} (dtype {dtype})"
        tot = float(g.calculate_total_face_area(rule, order))
        if abs(tot - float(areas.sum())) > 1e-9 * max(1.0, float(areas.sum())):
            return (f"calculate_total_face_area({rule},{order}) after history {hist} = {tot!r}, the sum of the face areas for that rule and order "
                    f"(= integral of the constant 1) is {float(areas.sum())!r}")
        return None

    return Obligation(oid, f"integrate on grid '{gname}' {sizes}, data on {kind} with leading dims {tuple(lead)}, dtype {dtype}, history {hist}",
                      setup, run, replay, exact=False, functions=FUNCS,
                      bounds=f"L={L}, leading dims {tuple(lead)}, rules {RULES}, orders {ORDERS}, values arbitrary reals (ints in [-3,3] for int dtype)",
                      stubs=["area.get_all_face_area_from_coords -> uninterpreted A(face, rule, order) >= 0"],
                      assumptions=["face areas are non-negative", "data are finite"], tiers=tiers, cost=cost, validate=_validate)


def _idx(x, table, values=False):
    """z3 term identifying a (possibly symbolic) enum member"""
    if isinstance(x, sc.SymEnum):
        if values:
            return z3.Sum([z3.If(x.e == i, int(v), 0) for i, v in enumerate(x.vals)])
        return x.e
    if values:
        return z3.IntVal(int(x))
    return z3.IntVal(table.index(x))


def _real(v):
    if isinstance(v, sc.SymInt):
        return z3.ToReal(v.e)
    if isinstance(v, sc.Sym):
        return v.e
    if isinstance(v, int):
        return z3.RealVal(v)
    return sc.lift(v)


def _validate():
    """einsum/shape semantics of the shim against numpy on concrete data"""
    rng = np.random.default_rng(0)
    n = 0
    for lead in [(), (2,), (2, 2)]:
        a = rng.random(3)
        d = rng.random(lead + (3,))
        got = symnp.einsum("i,...i", symnp.array(a), symnp.array(d))
        exp = np.einsum("i,...i", a, d)
        got = symnp.to_numpy(got) if isinstance(got, symnp.SArr) else got
        if not np.allclose(np.asarray(got, dtype=float), exp):
            raise AssertionError("shim einsum disagrees with numpy")
        n += 1
    return n


def obligations(tier):
    obs = [
        make("C06.face.tetra.1d", "tetra", "n_face", (), "none"),
        make("C06.face.tetra.2d.hist_compute", "tetra", "n_face", (2,), "compute"),
        make("C06.face.mixed.3d.hist_face_areas", "mixed", "n_face", (2, 2), "face_areas"),
        make("C06.face.mixed.1d.hist_total", "mixed", "n_face", (), "total"),
        make("C06.face.mixed.2d.int", "mixed", "n_face", (2,), "none", dtype="int"),
        make("C06.face.mixed.1d.supplied_areas", "mixed", "n_face", (), "supplied"),
        make("C06.node.tetra.1d", "tetra", "n_node", (), "none"),           # n_node == n_face
        make("C06.node.tri3.2d", "tri3", "n_node", (2,), "none"),           # all three counts coincide
        make("C06.edge.tri3.1d", "tri3", "n_edge", (), "none"),
        make("C06.node.mixed.1d", "mixed", "n_node", (), "none"),
        make("C06.edge.mixed.2d", "mixed", "n_edge", (2,), "compute"),
        make("C06.face.tetra.4d.hist_compute", "tetra", "n_face", (2, 2, 2), "compute", tiers=("thorough",), cost=3),
        make("C06.face.tri3.2d.int.hist", "tri3", "n_face", (3,), "compute", dtype="int", tiers=("thorough",)),
    ]
    return [o for o in obs if tier in o.tiers]
