"""C03 Incidence tables are exact transposes of one another.

Real code executed through the cloned Grid's public properties: node_face_connectivity, edge_face_connectivity,
face_face_connectivity, hole_edge_indices, n_max_node_faces, n_max_face_faces (-> _build_node_faces_connectivity,
_build_edge_face_connectivity (njit loop, via py_func), _build_face_face_connectivity, _construct_hole_edge_indices,
and the C02 edge construction underneath, all in one symbolic run)."""
import z3
import numpy as np
from symex import core as sc, symnp, symxr
from symex.core import mk
from symex.runner import Obligation, world
from . import common as C
from .common import F

FUNCS = ["Grid.node_face_connectivity", "Grid.edge_face_connectivity", "Grid.face_face_connectivity", "Grid.hole_edge_indices",
         "Grid.n_max_node_faces", "Grid.n_max_face_faces", "connectivity._build_node_faces_connectivity",
         "connectivity._build_edge_face_connectivity", "connectivity._build_face_face_connectivity",
         "geometry._construct_hole_edge_indices", "connectivity._build_edge_node_connectivity", "connectivity.close_face_nodes"]


def _nxt(fn, nf, f, j, n_max):
    return z3.If(j + 1 < nf[f], fn[f][(j + 1) % n_max], fn[f][0])


def _is_int_dtype(a):
    return a.dtype.kind == "i" and a.dtype.bits == 64


# ------------------------------------------------------------------ concrete oracle
def check_incidence(rows, g, which):
    """pure-Python oracle on a real grid g built from table rows; returns None or a description"""
    n_face = len(rows)
    corners = [C.face_corners(r) for r in rows]
    per_face, allp = C.ref_edges(rows)
    if "node_face" in which:
        nfc = g.node_face_connectivity.values
        n_node = g.n_node
        width = max(sum(1 for c in corners if n in c) for n in range(n_node))
        if nfc.dtype != np.intp:
            return f"node_face_connectivity dtype {nfc.dtype}"
        if nfc.shape != (n_node, width) or g.n_max_node_faces != width:
            return f"node_face_connectivity shape {nfc.shape}, expected {(n_node, width)}"
        for n in range(n_node):
            exp = sorted(f for f in range(n_face) if n in corners[f])
            row = [int(v) for v in nfc[n]]
            real = [v for v in row if v != F]
            if sorted(real) != exp or len(set(real)) != len(real):
                return f"node_face_connectivity[{n}]={row}, faces with corner {n} are {exp}"
            if row[:len(real)] != real:
                return f"node_face_connectivity[{n}]={row}: padding not at the row end"
    en = [frozenset(int(v) for v in r) for r in g.edge_node_connectivity.values]
    efc = None
    if "edge_face" in which or "face_face" in which or "hole" in which:
        efc = g.edge_face_connectivity.values
        if efc.dtype != np.intp:
            return f"edge_face_connectivity dtype {efc.dtype}"
        if efc.shape != (len(en), 2):
            return f"edge_face_connectivity shape {efc.shape} for {len(en)} edges"
        for e, pair in enumerate(en):
            exp = sorted(f for f in range(n_face) if pair in per_face[f])
            row = [int(v) for v in efc[e]]
            real = [v for v in row if v != F]
            if sorted(real) != exp:
                return f"edge_face_connectivity[{e}]={row} but edge {sorted(pair)} bounds faces {exp}"
            if row[0] == F:
                return f"edge_face_connectivity[{e}]={row}: padding before a face"
    if "face_face" in which:
        ffc = g.face_face_connectivity.values
        if ffc.dtype != np.intp:
            return f"face_face_connectivity has dtype {ffc.dtype} (values {ffc.tolist()}), expected the standard integer type"
        if ffc.shape[0] != n_face or g.n_max_face_faces != ffc.shape[1]:
            return f"face_face_connectivity shape {ffc.shape}"
        for f in range(n_face):
            exp = sorted(g2 for g2 in range(n_face) if g2 != f for p in per_face[f] if p in per_face[g2])
            row = [int(v) for v in ffc[f]]
            real = [v for v in row if v != F]
            if sorted(real) != exp:
                return f"face_face_connectivity[{f}]={row}, neighbours across interior edges (once per shared edge) are {exp}"
            if row[:len(real)] != real:
                return f"face_face_connectivity[{f}]={row}: padding not at the row end"
    if "hole" in which:
        h = np.asarray(g.hole_edge_indices.values)
        exp = [e for e, pair in enumerate(en) if sum(1 for f in range(n_face) if pair in per_face[f]) == 1]
        if [int(v) for v in h] != exp:
            return f"hole_edge_indices={h.tolist()}, edges with a single face are {exp}"
    return None


# ------------------------------------------------------------------ edge_face / face_face / hole (node ids stay symbolic)
def make_edge(oid, n_face, n_max, n_node, which, tiers=("quick", "thorough"), cost=5, sizes=None):
    lon, lat = C.default_lonlat(n_node)

    def setup(ctx):
        fn, nf = C.sym_face_table(ctx, n_face, n_max, n_node, sizes=sizes)
        C.manifold_pre(ctx, fn, nf, n_max)
        return fn, nf

    def run(ctx, inp):
        fn, nf = inp
        symnp.UNIQUE_MODE[0] = "relational"
        symnp.CAP[0] = n_face * n_max
        g = C.clone_grid(C.sarr_int(fn), lon, lat)
        efc = g.edge_face_connectivity.values
        en = g.edge_node_connectivity.values.raw()
        ne = sc.lift(g.n_edge)
        cap = en.shape_cap[0]
        E = [[sc.lift(en[i, 0]), sc.lift(en[i, 1])] for i in range(cap)]
        efr = efc.raw()

        def on(f, e):   # edge e is one of face f's boundary segments
            return z3.Or(*[z3.And(j < nf[f], z3.Or(z3.And(E[e][0] == fn[f][j], E[e][1] == _nxt(fn, nf, f, j, n_max)),
                                                   z3.And(E[e][1] == fn[f][j], E[e][0] == _nxt(fn, nf, f, j, n_max)))) for j in range(n_max)])
        if "edge_face" in which:
            ctx.prove("edge_face dtype/shape", sc.and_(_is_int_dtype(efc), efr.shape_cap[1:] == (2,), efc.shape[0] == g.n_edge))
            cl = []
            for e in range(cap):
                a, b = sc.lift(efr[e, 0]), sc.lift(efr[e, 1])
                cnt = z3.Sum([z3.If(on(f, e), 1, 0) for f in range(n_face)])
                listed = lambda f: z3.Or(a == f, b == f)   # noqa: E731
                cl.append(z3.Implies(e < ne, z3.And(
                    a != F, a >= 0, a < n_face, z3.Or(b == F, z3.And(b >= 0, b < n_face, b != a)),
                    *[listed(f) == on(f, e) for f in range(n_face)],
                    (b == F) == (cnt == 1))))
            ctx.prove("edge_face[e] = faces bounded by e, padding iff boundary edge", z3.And(*cl))
        if "hole" in which:
            h = g.hole_edge_indices
            hv = (h.values if hasattr(h, "values") else h)
            hr = hv.raw()
            nh = sc.lift(hv.shape[0])
            cl = []
            for e in range(cap):
                boundary = z3.And(e < ne, z3.Sum([z3.If(on(f, e), 1, 0) for f in range(n_face)]) == 1)
                cl.append(boundary == z3.Or(*[z3.And(k < nh, sc.lift(hr[k]) == e) for k in range(hr.shape_cap[0])]))
            for k in range(hr.shape_cap[0] - 1):
                cl.append(z3.Implies(k + 1 < nh, sc.lift(hr[k]) < sc.lift(hr[k + 1])))
            ctx.prove("hole_edge_indices = edges with exactly one face, ascending", z3.And(*cl))
        if "face_face" in which:
            ffc = g.face_face_connectivity.values
            ctx.prove("face_face dtype is the standard integer type", _is_int_dtype(ffc), note=f"dtype {ffc.dtype}")
            W = ffc.shape_cap[1] if ffc.ndim == 2 else 0
            ctx.prove("face_face width", sc.and_(ffc.ndim == 2, ffc.shape_cap[0] == n_face, g.n_max_face_faces == W))
            if ffc.ndim == 2:
                cl = []
                for f in range(n_face):
                    row = [_int(ffc[f, k]) for k in range(W)]
                    for g2 in range(n_face):
                        shared = z3.Sum([z3.If(z3.And(e < ne, on(f, e), on(g2, e)), 1, 0) for e in range(cap)]) if g2 != f else z3.IntVal(0)
                        cl.append(z3.Sum([z3.If(r == g2, 1, 0) for r in row] or [z3.IntVal(0)]) == shared)
                    for k in range(W):
                        cl.append(z3.Or(row[k] == F, z3.And(row[k] >= 0, row[k] < n_face)))
                        if k + 1 < W:
                            cl.append(z3.Implies(row[k] == F, row[k + 1] == F))
                ctx.prove("face_face[f] = other-side faces of f's interior edges, once per shared edge, padding at the end", z3.And(*cl))
        ctx.reachable("an interior edge exists", z3.Or(*[z3.And(e < ne, on(0, e), on(1, e)) for e in range(cap)]) if n_face > 1 else True)
        if n_node >= 5:
            ctx.reachable("isolated faces", z3.And(*[z3.Not(z3.And(e < ne, on(0, e), on(1, e))) for e in range(cap)]) if n_face > 1 else True)

    def replay(vals):
        rows = C.model_table(vals)
        g = C.real_grid(rows, lon, lat)
        return check_incidence(rows, g, which)

    return Obligation(oid, f"{'/'.join(which)} on {n_face} faces x <= {n_max} corners, nodes < {n_node} (manifold)", setup, run, replay,
                      exact=True, functions=FUNCS, bounds=f"n_face={n_face}, 3<=corners<={n_max}, node ids<{n_node}, each segment in <=2 faces",
                      assumptions=["manifold precondition: each unordered corner pair bounds at most two faces", "standard-form face table"],
                      tiers=tiers, cost=cost, timeout_s=3000, query_timeout_s=1500, validate=_validate)


def _int(v):
    if isinstance(v, sc.SymReal):
        return z3.ToInt(v.e)
    if isinstance(v, float):
        return z3.IntVal(int(v))
    return sc.lift(v)


# ------------------------------------------------------------------ node_face (dict-keyed builder: forks over node ids, DESIGN 1.2)
def make_node(oid, n_face, n_max, n_node, tiers=("quick", "thorough"), cost=4, sizes=None):
    lon, lat = C.default_lonlat(n_node)

    def setup(ctx):
        fn, nf = C.sym_face_table(ctx, n_face, n_max, n_node, sizes=sizes)
        return fn, nf

    def run(ctx, inp):
        fn, nf = inp
        g = C.clone_grid(C.sarr_int(fn), lon, lat)
        nfc = g.node_face_connectivity.values
        W = nfc.shape_cap[1]
        ctx.prove("node_face dtype/shape", sc.and_(_is_int_dtype(nfc), nfc.shape_cap[0] == n_node, g.n_max_node_faces == W))
        cl = []
        width_needed = []
        for n in range(n_node):
            row = [sc.lift(nfc[n, k]) for k in range(W)]
            cnt_n = z3.Sum([z3.If(z3.Or(*[z3.And(j < nf[f], fn[f][j] == n) for j in range(n_max)]), 1, 0) for f in range(n_face)])
            width_needed.append(cnt_n)
            for f in range(n_face):
                has = z3.Or(*[z3.And(j < nf[f], fn[f][j] == n) for j in range(n_max)])
                cl.append(z3.Sum([z3.If(r == f, 1, 0) for r in row] or [z3.IntVal(0)]) == z3.If(has, 1, 0))
            for k in range(W):
                cl.append(z3.Or(row[k] == F, z3.And(row[k] >= 0, row[k] < n_face)))
                if k + 1 < W:
                    cl.append(z3.Implies(row[k] == F, row[k + 1] == F))
        cl.append(z3.Or(*[c == W for c in width_needed]))
        ctx.prove("f in node_face[n] iff n is a corner of f; no duplicates; padding at the end; width = max valence", z3.And(*cl))

    def replay(vals):
        rows = C.model_table(vals)
        return check_incidence(rows, C.real_grid(rows, lon, lat), ["node_face"])

    return Obligation(oid, f"node_face_connectivity on {n_face} faces x <= {n_max} corners, nodes < {n_node}", setup, run, replay,
                      exact=True, functions=FUNCS, bounds=f"n_face={n_face}, 3<=corners<={n_max}, node ids<{n_node}; the builder indexes a dict by node id, so node ids are forked over (value enumeration inside the solver loop)",
                      tiers=tiers, cost=cost, timeout_s=3000, max_paths=200000, validate=_validate)


# ------------------------------------------------------------------ source-supplied tables
def make_supplied(oid, tiers=("quick", "thorough")):
    """a source that ships edge_node/edge_face/face_edge itself (MPAS, ICON): the property-level tables are the shipped ones, and
    face_face / hole_edge_indices are derived from the shipped edge_face"""
    rows = [[0, 1, 2, 3], [1, 4, 2, F], [2, 4, 5, F]]
    n_node, n_edge = 6, 8
    lon, lat = C.default_lonlat(n_node)

    def setup(ctx):
        # arbitrary edge_face table of a manifold 3-face grid: symbolic, constrained only to be well-formed
        ef = [[z3.Int(f"ef_{e}_{k}") for k in range(2)] for e in range(n_edge)]
        for e in range(n_edge):
            ctx.solver.add(ef[e][0] >= 0, ef[e][0] < 3, z3.Or(ef[e][1] == F, z3.And(ef[e][1] >= 0, ef[e][1] < 3, ef[e][1] != ef[e][0])))
        ctx.eng.declare("ef", ef)
        return ef

    def run(ctx, ef):
        extra = {"edge_face_connectivity": symxr.DataArray(C.sarr_int(ef), dims=["n_edge", "two"])}
        g = C.clone_grid(symnp.array(rows), lon, lat, extra=extra)
        got = g.edge_face_connectivity.values
        ctx.prove("shipped edge_face is reported unchanged", z3.And(*[sc.lift(got[e, k]) == ef[e][k] for e in range(n_edge) for k in range(2)]))
        h = g.hole_edge_indices
        hv = h.values if hasattr(h, "values") else h
        hr = hv.raw()
        nh = sc.lift(hv.shape[0])
        cl = []
        for e in range(n_edge):
            cl.append((ef[e][1] == F) == z3.Or(*[z3.And(k < nh, sc.lift(hr[k]) == e) for k in range(hr.shape_cap[0])]))
        ctx.prove("hole_edge_indices follow the shipped edge_face", z3.And(*cl))

    def replay(vals):
        import xarray as xr
        ef = np.array(vals["ef"], dtype=np.intp)
        g = C.real_grid(rows, lon, lat, extra={"edge_face_connectivity": xr.DataArray(ef.copy(), dims=["n_edge", "two"])})
        if not np.array_equal(g.edge_face_connectivity.values, ef):
            return f"shipped edge_face_connectivity {ef.tolist()} reported as {g.edge_face_connectivity.values.tolist()}"
        exp = [e for e in range(n_edge) if ef[e, 1] == F]
        if [int(v) for v in np.asarray(g.hole_edge_indices.values)] != exp:
            return f"hole_edge_indices {np.asarray(g.hole_edge_indices.values).tolist()} expected {exp}"
        return None

    return Obligation(oid, "source-supplied edge_face_connectivity is carried, hole_edge_indices derived from it", setup, run, replay,
                      exact=True, functions=["Grid.edge_face_connectivity", "Grid.hole_edge_indices", "geometry._construct_hole_edge_indices"],
                      bounds="3 faces, 8 edges, arbitrary well-formed shipped table", tiers=tiers)


_TABLES = [
    [[0, 1, 2, F], [1, 3, 2, F]],
    [[0, 1, 2, 3], [4, 5, 6, F]],
    [[3, 4, 5, F], [3, 0, 2, 5], [3, 4, 1, 0], [0, 1, 2, F]],
    [[0, 1, 2, 3], [0, 1, 2, 4]],
]


def _validate():
    n = 0
    for rows in _TABLES:
        n_node = max(v for r in rows for v in r) + 1
        lon, lat = C.default_lonlat(n_node)
        g = C.clone_grid(symnp.array(rows), lon, lat)
        r = C.real_grid(rows, lon, lat)
        for name in ("node_face_connectivity", "edge_face_connectivity", "face_face_connectivity", "hole_edge_indices"):
            a, b = getattr(g, name), getattr(r, name)
            a = symnp.to_numpy(a.values if hasattr(a, "values") else a)
            b = np.asarray(b.values)
            if not np.array_equal(np.asarray(a, dtype=float), np.asarray(b, dtype=float)) or (np.asarray(a).dtype.kind != b.dtype.kind):
                raise AssertionError(f"shim/real disagreement on {name} for {rows}: {a} ({np.asarray(a).dtype}) vs {b} ({b.dtype})")
            n += 1
    return n


def _mpas(oid, dual):
    from . import c01
    return c01.make_mpas(oid, dual)


def obligations(tier):
    T = ("thorough",)
    obs = [
        make_edge("C03.edge_face.2f3", 2, 3, 4, ["edge_face", "hole"], cost=2),
        make_edge("C03.face_face.2f3", 2, 3, 5, ["face_face"], cost=3),
        make_edge("C03.edge_face.2f34", 2, 4, 5, ["edge_face"], sizes=[3, 4], cost=9),
        make_edge("C03.hole.2f43", 2, 4, 5, ["hole"], sizes=[4, 3], cost=9),
        make_edge("C03.face_face.2f34", 2, 4, 5, ["face_face"], sizes=[3, 4], cost=9),
        make_node("C03.node_face.2f3", 2, 3, 4),
        make_node("C03.node_face.2f34.n4", 2, 4, 4, sizes=[3, 4], cost=3),
        make_supplied("C03.supplied"),
        _mpas("C03.mpas.primal", False), _mpas("C03.mpas.dual", True),       # incidence tables shipped by the source (MPAS) are decoded, not rebuilt
        # thorough: every padding layout of 2 faces <= 4 corners, 3 triangles, larger node_face scopes
        make_edge("C03.edge_face.2f4", 2, 4, 6, ["edge_face"], tiers=T, cost=20),
        make_edge("C03.hole.2f4", 2, 4, 6, ["hole"], tiers=T, cost=20),
        make_edge("C03.face_face.2f4.s33", 2, 4, 5, ["face_face"], sizes=[3, 3], tiers=T, cost=20),
        make_edge("C03.face_face.2f4.s34", 2, 4, 5, ["face_face"], sizes=[3, 4], tiers=T, cost=20),
        make_edge("C03.face_face.2f4.s43", 2, 4, 5, ["face_face"], sizes=[4, 3], tiers=T, cost=20),
        make_edge("C03.face_face.2f4.s44", 2, 4, 5, ["face_face"], sizes=[4, 4], tiers=(), cost=30),      # withdrawn: harness error after 67 paths / 2070 s in the thorough run (DESIGN section 8)
        make_edge("C03.face_face.3f3", 3, 3, 5, ["face_face"], tiers=T, cost=30),
        make_edge("C03.edge_face.3f3", 3, 3, 5, ["edge_face", "hole"], tiers=T, cost=20),
        make_node("C03.node_face.3f3.n4", 3, 3, 4, cost=8, tiers=T),
        make_node("C03.node_face.2f4.n5", 2, 4, 5, cost=8, tiers=T),
    ]
    for o in obs:
        if o.tiers == T:
            o.timeout_s, o.explore_budget_s, o.query_timeout_s = 14000, 12000, 3000
    return [o for o in obs if tier in o.tiers]
