"""C01 Readers decode every supported format to the faces the source describes  (DESIGN.md section 2, C01).

Each obligation builds an in-memory source (symxr dataset / arrays) whose *contents and dialect* are symbolic, runs the real
reader through the public constructors of the cloned Grid (Grid.from_dataset incl. format sniffing, Grid.from_topology,
Grid.from_face_vertices) and compares with a reference decoding written from the format specifications.
Outside: file bytes -> dataset (xr.open_dataset, geopandas) - C libraries; shapefile/GeoJSON reader."""
import z3
import numpy as np
from symex import core as sc, symnp, symxr
from symex.core import mk
from symex.runner import Obligation, world
from . import common as C
from .common import F


def _tbl(ctx, name, n_rows, n_cols, lo, hi):
    t = [[z3.Int(f"{name}_{r}_{c}") for c in range(n_cols)] for r in range(n_rows)]
    for row in t:
        for v in row:
            ctx.solver.add(v >= lo, v <= hi)
    ctx.eng.declare(name, t)
    return t


def _reals(ctx, name, n, lo, hi):
    v = [z3.Real(f"{name}_{i}") for i in range(n)]
    for x in v:
        ctx.solver.add(x >= lo, x <= hi)
    ctx.eng.declare(name, v)
    return v


def _int_dtype(a):
    return a.dtype.kind == "i" and a.dtype.bits == 64


def _prove_table(ctx, label, got, src, valid, base, regions=None):
    """got[r][c] == src[r][c] - base where valid(r,c) else FILL; platform integer dtype"""
    g = got.raw()
    R, Cn = len(src), len(src[0])
    if g.shape_cap != (R, Cn):
        ctx.prove(label + " (shape)", False, note=f"shape {g.shape_cap} expected {(R, Cn)}")
        return
    cl = [z3.BoolVal(_int_dtype(got))]
    for r in range(R):
        for c in range(Cn):
            cl.append(sc.z(g[r, c]) == z3.If(valid(r, c), src[r][c] - base, F))
    ctx.prove(label, z3.And(*cl), regions=regions)


def _lon_ok(got, src):
    """reported longitude: in [-180,180] and congruent to the source modulo 360"""
    return z3.And(got >= -180, got <= 180, z3.Or(got == src, got == src - 360, got == src + 360))


def _zr(v):
    v = sc.z(v)
    return z3.ToReal(v) if z3.is_int(v) else v


def _check_faces(g, rows_expected, n_node):
    """concrete oracle on a real grid: standard form + expected rows"""
    fn = g.face_node_connectivity.values
    if fn.dtype != np.intp:
        return f"face_node_connectivity dtype {fn.dtype}"
    exp = np.array(rows_expected, dtype=np.intp)
    if fn.shape != exp.shape or not np.array_equal(fn, exp):
        return f"face_node_connectivity decoded as {fn.tolist()}, the source describes {exp.tolist()}"
    real = fn[fn != F]
    if real.size and (real.min() < 0 or real.max() >= n_node):
        return f"decoded node index out of range: {fn.tolist()} with {n_node} nodes"
    return _check_lon_range(g)


def _check_lon_range(g):
    """every longitude variable the grid holds (node, face and edge centres, supplied or derived) is reported in [-180, 180]"""
    for name in ("node_lon", "face_lon", "edge_lon"):
        if name in g._ds:
            lo = np.asarray(g._ds[name].values, dtype=float)
            if np.any(lo > 180 + 1e-9) or np.any(lo < -180 - 1e-9):
                return f"{name} out of [-180,180]: {lo.tolist()}"
    return None


class _SourceChanged(Exception):
    pass


def _open(ctx, Grid, ds, **kw):
    """open a symbolic source and show that the reader left it as it was (values and attributes of every variable)"""
    snap = {k: (ds[k].data.flat_list(), dict(ds[k].attrs)) for k in list(ds._vars)}
    g = Grid.from_dataset(ds, **kw)
    cl, names = [], sorted(ds._vars)
    ok_struct = names == sorted(snap)
    for k, (vals, attrs) in snap.items():
        if k not in ds._vars:
            continue
        now = ds[k].data.flat_list()
        ok_struct = ok_struct and len(now) == len(vals) and dict(ds[k].attrs) == attrs
        for a, b in zip(now, vals):
            sa, sb = isinstance(a, sc.Sym), isinstance(b, sc.Sym)
            if not sa and not sb:
                same = (a == b) or (isinstance(a, float) and isinstance(b, float) and a != a and b != b)
                ok_struct = ok_struct and bool(same)
            elif (not sa and isinstance(a, float) and a != a) or (not sb and isinstance(b, float) and b != b):
                ok_struct = False          # a NaN slot became a number or vice versa
            else:
                cl.append(sc.z(a) == sc.z(b))
    ctx.prove("the reader leaves the source dataset as it was (opening it again gives the same grid)", z3.And(z3.BoolVal(bool(ok_struct)), *cl) if cl else bool(ok_struct))
    return g


def _open_real(ux, ds, **kw):
    before = ds.copy(deep=True)
    g = ux.Grid.from_dataset(ds, **kw)
    for k in before.variables:
        if k not in ds.variables or not np.array_equal(np.asarray(before[k].values), np.asarray(ds[k].values), equal_nan=True) or dict(before[k].attrs) != dict(ds[k].attrs):
            raise _SourceChanged(f"the reader modified the source dataset: variable '{k}' was {np.asarray(before[k].values).tolist()} {dict(before[k].attrs)}, "
                                 f"is {np.asarray(ds[k].values).tolist() if k in ds.variables else 'gone'} {dict(ds[k].attrs) if k in ds.variables else ''}")
    return g


# ------------------------------------------------------------------ explicit topology arrays
def make_topo(oid, fill_case, tiers=("quick", "thorough")):
    """Grid.from_topology(node_lon, node_lat, fn, fill_value, start_index): fill_case in
    {'none' (no padding, fill_value=None), 'minus1', 'std' (INT_FILL_VALUE), 'big' (999999)}"""
    n_face, n_max, n_node = 2, 4, 6
    fillv = {"none": None, "minus1": -1, "std": F, "big": 999999, "zero": 0}[fill_case]      # 'zero': one-based tables padded with 0 (the fill value is a valid zero-based index)
    sizes = [4, 4] if fill_case == "none" else None

    def setup(ctx):
        ctx.const("fill_case", fill_case)
        fn, nf = C.sym_face_table(ctx, n_face, n_max, n_node, sizes=sizes)
        b = ctx.int("start_index", 0, 1)
        if fill_case == "zero":
            ctx.assume(sc.z(b) == 1)
        lon = _reals(ctx, "lon", n_node, 0, 360)
        lat = _reals(ctx, "lat", n_node, -90, 90)
        return fn, nf, b, lon, lat

    def src_rows(fn, nf, b):
        return [[z3.If(j < nf[f], fn[f][j] + sc.z(b), fillv if fillv is not None else 0) for j in range(n_max)] for f in range(n_face)]

    def run(ctx, inp):
        fn, nf, b, lon, lat = inp
        src = src_rows(fn, nf, b)
        Grid = world().get("uxarray.grid.grid", "Grid")
        arr = C.sarr_int(src)
        keep = arr.copy()
        lon_a, lat_a = C.sarr_1d(lon, symnp.float64), C.sarr_1d(lat, symnp.float64)
        g = Grid.from_topology(lon_a, lat_a, arr, fill_value=fillv, start_index=b)
        got = g.face_node_connectivity.values
        _prove_table(ctx, "faces = source - start_index, padding -> standard fill, platform int", got,
                     [[fn[f][j] for j in range(n_max)] for f in range(n_face)], lambda f, j: j < nf[f], 0)
        ctx.prove("node lon in [-180,180] and congruent mod 360, lat unchanged",
                  z3.And(*[z3.And(_lon_ok(_zr(g.node_lon.values[i]), lon[i]), _zr(g.node_lat.values[i]) == lat[i]) for i in range(n_node)]))
        ctx.prove("source_grid_spec, n_face, n_node", sc.and_(g.n_face == n_face, g.n_node == n_node, g.n_max_face_nodes == n_max))
        # C19 clause on the same run: the caller's arrays are not modified
        ctx.prove("caller's connectivity array unchanged", z3.And(*[sc.z(a) == sc.z(k) for a, k in zip(arr.flat_list(), keep.flat_list())]),
                  regions={"from_topology_edits_caller_array": True})

    def replay(v):
        import uxarray as ux
        b = v["start_index"]
        rows = [[(x + b) if x != F else (fillv if fillv is not None else 0) for x in r] for r in v["fn"]]
        arr = np.array(rows, dtype=np.intp)
        keep = arr.copy()
        lon, lat = np.array(v["lon"], dtype=float), np.array(v["lat"], dtype=float)
        g = ux.Grid.from_topology(lon, lat, arr, fill_value=fillv, start_index=b)
        r = _check_faces(g, v["fn"], n_node)
        if r:
            return r + f" [from_topology fill_value={fillv} start_index={b} source {keep.tolist()}]"
        if not np.array_equal(arr, keep):
            return f"from_topology modified the caller's connectivity array: {keep.tolist()} -> {arr.tolist()} (fill_value={fillv}, start_index={b})"
        return None

    return Obligation(oid, f"Grid.from_topology, fill dialect '{fill_case}', start_index symbolic", setup, run, replay, exact=True,
                      functions=["Grid.from_topology", "_topology._read_topology", "_topology._process_connectivity", "connectivity._replace_fill_values",
                                 "coordinates._set_desired_longitude_range"],
                      bounds="2 faces <= 4 corners (all padding layouts), nodes < 6, start_index in {0,1}, lon in [0,360]", tiers=tiers)


# ------------------------------------------------------------------ UGRID
def make_ugrid(oid, si_case, fill_case, dtype, tiers=("quick", "thorough"), shape=(2, 4, 6), topo_dims=False):
    """UGRID dataset with arbitrary names; si_case in {'absent','0','1'}; fill_case in {'absent','minus1','big','std'}; dtype in {int64,int32,float64}"""
    n_face, n_max, n_node = shape          # shape (k, k, .): as many faces as columns (a reader that tells rows from columns by size cannot)
    fillv = {"absent": None, "minus1": -1, "big": 999999, "std": F, "nan": float("nan")}[fill_case]
    sizes = [n_max] * n_face if fill_case == "absent" else None
    TOPO = {"cf_role": "mesh_topology", "topology_dimension": 2, "node_coordinates": "nlon nlat", "face_node_connectivity": "fnc"}
    if topo_dims:
        TOPO.update({"face_dimension": "nFaces", "node_dimension": "nNodes"})
    base = 1 if si_case == "1" else 0           # UGRID: start_index defaults to 0

    def setup(ctx):
        ctx.const("si_case", si_case); ctx.const("fill_case", fill_case); ctx.const("dtype", dtype)
        fn, nf = C.sym_face_table(ctx, n_face, n_max, n_node, sizes=sizes)
        lon = _reals(ctx, "lon", n_node, 0, 360)
        lat = _reals(ctx, "lat", n_node, -90, 90)
        return fn, nf, lon, lat

    def attrs():
        a = {"cf_role": "face_node_connectivity"}
        if fillv is not None:
            a["_FillValue"] = fillv
        if si_case != "absent":
            a["start_index"] = int(si_case)
        return a

    def run(ctx, inp):
        fn, nf, lon, lat = inp
        dt = {"int64": symnp.int64, "int32": symnp.int32, "float64": symnp.float64}[dtype]
        if fill_case == "nan":
            src = [[mk(z3.ToReal(fn[f][j]) + base) if False else None for j in range(n_max)] for f in range(n_face)]
        vals = []
        for f in range(n_face):
            for j in range(n_max):
                real_entry = fn[f][j] + base
                if dtype == "float64":
                    real_entry = z3.ToReal(real_entry)
                pad = fillv if fillv is not None else 0
                if dtype == "float64" and not (isinstance(pad, float) and pad != pad):
                    pad = float(pad)
                if sizes is not None:
                    vals.append(mk(real_entry))
                elif isinstance(pad, float) and pad != pad:
                    # NaN padding: padding positions must be concrete NaN -> fork over the face size
                    vals.append(None)
                else:
                    vals.append(mk(z3.If(j < nf[f], real_entry, pad if not isinstance(pad, float) else sc.lift(pad))))
        if fill_case == "nan":
            ks = [sc.concretize(mk(nf[f])) for f in range(n_face)]
            vals = [mk(z3.ToReal(fn[f][j] + base)) if j < ks[f] else float("nan") for f in range(n_face) for j in range(n_max)]
        arr = symnp.SArr.new(vals, (n_face, n_max), None, dt)
        keep = arr.copy()
        ds = symxr.Dataset()
        ds["Mesh2"] = symxr.DataArray(symnp.array(0), dims=[], attrs=dict(TOPO))
        ds["nlon"] = symxr.DataArray(C.sarr_1d(lon, symnp.float64), dims=["nNodes"])
        ds["nlat"] = symxr.DataArray(C.sarr_1d(lat, symnp.float64), dims=["nNodes"])
        ds["fnc"] = symxr.DataArray(arr, dims=["nFaces", "nMaxNodes"], attrs=attrs())
        Grid = world().get("uxarray.grid.grid", "Grid")
        g = _open(ctx, Grid, ds)
        ctx.prove("sniffed as UGRID", g.source_grid_spec == "UGRID")
        got = g.face_node_connectivity.values
        _prove_table(ctx, "faces = source - start_index (0 when absent, the UGRID default), padding -> standard fill, platform int", got,
                     [[fn[f][j] for j in range(n_max)] for f in range(n_face)], lambda f, j: j < nf[f], 0,
                     regions={"ugrid_start_index_absent_subtracts_min": si_case == "absent",
                              "ugrid_std_dialect_skips_start_index": (dtype == "int64" and fill_case == "std" and si_case == "1")})
        ctx.prove("node lon in [-180,180] congruent mod 360, lat unchanged, dims renamed",
                  sc.and_(z3.And(*[z3.And(_lon_ok(_zr(g.node_lon.values[i]), lon[i]), _zr(g.node_lat.values[i]) == lat[i]) for i in range(n_node)]),
                          g.n_face == n_face, g.n_node == n_node, tuple(g.face_node_connectivity.dims) == ("n_face", "n_max_face_nodes")))

    def replay(v):
        import xarray as xr
        import uxarray as ux
        npdt = {"int64": np.int64, "int32": np.int32, "float64": np.float64}[dtype]
        pad = fillv if fillv is not None else 0
        rows = [[(x + base) if x != F else pad for x in r] for r in v["fn"]]
        arr = np.array(rows, dtype=npdt)
        ds = xr.Dataset()
        ds["Mesh2"] = xr.DataArray(0, attrs=dict(TOPO))
        ds["nlon"] = xr.DataArray(np.array(v["lon"], dtype=float), dims=["nNodes"])
        ds["nlat"] = xr.DataArray(np.array(v["lat"], dtype=float), dims=["nNodes"])
        ds["fnc"] = xr.DataArray(arr, dims=["nFaces", "nMaxNodes"], attrs=attrs())
        g = _open_real(ux, ds)
        r = _check_faces(g, v["fn"], n_node)
        return (r + f" [UGRID start_index={si_case} _FillValue={fill_case} dtype={dtype} source {np.array(rows).tolist()}]") if r else None

    return Obligation(oid, f"UGRID dataset -> Grid: start_index {si_case}, _FillValue {fill_case}, {dtype}, arbitrary names", setup, run, replay, exact=True,
                      functions=["Grid.from_dataset", "io.utils._parse_grid_type", "_ugrid._is_ugrid", "_ugrid._read_ugrid", "_ugrid._standardize_connectivity",
                                 "connectivity._replace_fill_values", "coordinates._set_desired_longitude_range"],
                      bounds=f"{n_face} faces <= {n_max} corners (all padding layouts), nodes < {n_node}, lon in [0,360]" + (", face_dimension / node_dimension declared" if topo_dims else ""),
                      tiers=tiers, max_paths=400)


# ------------------------------------------------------------------ ESMF
def make_scrip(oid, lon_range, tiers=("quick", "thorough"), sizes=None, cost=5):
    """SCRIP source: per-cell corner coordinates (no node numbering), cells with fewer corners repeat their last corner.
    lon_range: '180' (longitudes in [-180,180]) or '360' (0..360)."""
    n_face, n_max, n_node = 2, 4, 6
    ORDER = [3, 0, 5, 1, 4, 2]        # the reader sorts corners lexicographically: longitude bands in an order unlike the node numbering
    lo = 0 if lon_range == "360" else -180

    def setup(ctx):
        ctx.const("lon_range", lon_range)
        fn, nf = C.sym_face_table(ctx, n_face, n_max, n_node, sizes=sizes)
        lon = _reals(ctx, "lon", n_node, lo, lo + 360)
        lat = _reals(ctx, "lat", n_node, -90, 90)
        for r, i in enumerate(ORDER):
            if i != 4:
                ctx.solver.add(lon[i] >= lo + 10 + 50 * r, lon[i] <= lo + 50 + 50 * r)
        ctx.solver.add(lon[4] == lon[1], lat[4] != lat[1])        # two nodes on one meridian: ordered by latitude
        clon = _reals(ctx, "clon", n_face, lo, lo + 360)
        clat = _reals(ctx, "clat", n_face, -90, 90)
        area = _reals(ctx, "area", n_face, sc.lift(1e-9), 13)
        return fn, nf, lon, lat, clon, clat, area

    def _sel(arr, idx):
        out = arr[-1]
        for i in range(len(arr) - 2, -1, -1):
            out = z3.If(idx == i, arr[i], out)
        return out

    def run(ctx, inp):
        fn, nf, lon, lat, clon, clat, area = inp
        old, symnp.UNIQUE_MODE[0] = symnp.UNIQUE_MODE[0], "rank"
        try:
            def corner(f, j, arr):
                last = _sel([fn[f][k] for k in range(n_max)], nf[f] - 1)
                return _sel(arr, z3.If(j < nf[f], fn[f][j], last))
            A = lambda vals, shape: symnp.SArr.new([mk(x) for x in vals], shape, None, symnp.float64)
            ds = symxr.Dataset()
            ds["grid_corner_lon"] = symxr.DataArray(A([corner(f, j, lon) for f in range(n_face) for j in range(n_max)], (n_face, n_max)), dims=["grid_size", "grid_corners"], attrs={"units": "degrees"})
            ds["grid_corner_lat"] = symxr.DataArray(A([corner(f, j, lat) for f in range(n_face) for j in range(n_max)], (n_face, n_max)), dims=["grid_size", "grid_corners"], attrs={"units": "degrees"})
            ds["grid_center_lon"] = symxr.DataArray(A(clon, (n_face,)), dims=["grid_size"])
            ds["grid_center_lat"] = symxr.DataArray(A(clat, (n_face,)), dims=["grid_size"])
            ds["grid_area"] = symxr.DataArray(A(area, (n_face,)), dims=["grid_size"])
            ds["grid_imask"] = symxr.DataArray(symnp.array([1] * n_face), dims=["grid_size"])
            ds["grid_dims"] = symxr.DataArray(symnp.array([n_face]), dims=["grid_rank"])
            Grid = world().get("uxarray.grid.grid", "Grid")
            g = _open(ctx, Grid, ds)
            ctx.prove("sniffed as SCRIP", g.source_grid_spec == "Scrip")
            got = g.face_node_connectivity.values.raw()
            ctx.prove("table shape", got.shape_cap == (n_face, n_max) and _int_dtype(g.face_node_connectivity.values))
            if got.shape_cap != (n_face, n_max):
                return
            glon, glat = [_zr(v) for v in g.node_lon.values.raw().flat_list()], [_zr(v) for v in g.node_lat.values.raw().flat_list()]
            nn = sc.z(g.n_node)
            for f in range(n_face):
                cl = []
                for j in range(n_max):
                    idx = sc.z(got[f, j])
                    ok = z3.And(idx >= 0, idx < nn, _lon_ok(_sel(glon, idx), _sel(lon, fn[f][j])), _sel(glat, idx) == _sel(lat, fn[f][j]))
                    cl.append(z3.If(j < nf[f], ok, idx == F))
                ctx.prove(f"cell {f}: its corners in order (positions), repeated padding corners -> fill at the end", z3.And(*cl))
            ctx.prove("cell centres carried (lon wrapped)", z3.And(*[z3.And(_lon_ok(_zr(g.face_lon.values[i]), clon[i]), _zr(g.face_lat.values[i]) == clat[i]) for i in range(n_face)]))
        finally:
            symnp.UNIQUE_MODE[0] = old

    def replay(v):
        import xarray as xr
        import uxarray as ux
        rows, lon, lat = v["fn"], v["lon"], v["lat"]
        cl, ct = [], []
        for r in rows:
            ids = [x for x in r if x != F]
            ids = ids + [ids[-1]] * (n_max - len(ids))
            cl.append([lon[i] for i in ids]); ct.append([lat[i] for i in ids])
        ds = xr.Dataset()
        ds["grid_corner_lon"] = xr.DataArray(np.array(cl, dtype=float), dims=["grid_size", "grid_corners"], attrs={"units": "degrees"})
        ds["grid_corner_lat"] = xr.DataArray(np.array(ct, dtype=float), dims=["grid_size", "grid_corners"], attrs={"units": "degrees"})
        ds["grid_center_lon"] = xr.DataArray(np.array(v["clon"], dtype=float), dims=["grid_size"])
        ds["grid_center_lat"] = xr.DataArray(np.array(v["clat"], dtype=float), dims=["grid_size"])
        ds["grid_area"] = xr.DataArray(np.array(v["area"], dtype=float), dims=["grid_size"])
        ds["grid_imask"] = xr.DataArray(np.ones(n_face, dtype=np.int32), dims=["grid_size"])
        ds["grid_dims"] = xr.DataArray(np.array([n_face], dtype=np.int32), dims=["grid_rank"])
        try:
            g = _open_real(ux, ds)
            fnr = g.face_node_connectivity.values
            if fnr.dtype != np.intp:
                return f"face_node_connectivity dtype {fnr.dtype}"
            for f, r in enumerate(rows):
                ids = [x for x in r if x != F]
                got = [int(x) for x in fnr[f]]
                if any(x != F for x in got[len(ids):]) or any(x == F for x in got[:len(ids)]):
                    return f"SCRIP cell {f} with corners {list(zip(cl[f], ct[f]))} decoded as row {got}: padding is not 'fill values at the end only'"
                for j, i in enumerate(ids):
                    gl, gt = float(g.node_lon.values[got[j]]), float(g.node_lat.values[got[j]])
                    if abs(((gl - lon[i] + 180) % 360) - 180) > 1e-9 or abs(gt - lat[i]) > 1e-9 or not (-180 - 1e-9 <= gl <= 180 + 1e-9):
                        return f"SCRIP cell {f} corner {j}: decoded position ({gl},{gt}), the source has ({lon[i]},{lat[i]})"
        except Exception as e:
            return f"SCRIP source raised {type(e).__name__}: {str(e)[:150]}"
        return _check_lon_range(g)

    return Obligation(oid, f"SCRIP dataset (longitudes in {'0..360' if lon_range == '360' else '-180..180'}) -> Grid", setup, run, replay, exact=True,
                      functions=["Grid.from_dataset", "io.utils._parse_grid_type", "_scrip._read_scrip", "_scrip._to_ugrid", "connectivity._replace_fill_values",
                                 "coordinates._set_desired_longitude_range"],
                      bounds="2 cells <= 4 corners (all padding layouts: shorter cells repeat their last corner), 6 node positions in longitude bands ordered unlike the node numbering, two nodes on one meridian; cell areas arbitrary positive",
                      tiers=tiers, timeout_s=3000, query_timeout_s=1500, cost=cost)


def make_face_vertices(oid, tiers=("quick", "thorough"), sizes=None, cost=5):
    """Grid.from_face_vertices: per-face vertex coordinates, shorter faces padded with (FILL, FILL) rows"""
    n_face, n_max, n_node = 2, 4, 6
    ORDER = [3, 0, 5, 1, 4, 2]

    def setup(ctx):
        fn, nf = C.sym_face_table(ctx, n_face, n_max, n_node, sizes=sizes)
        lon = _reals(ctx, "lon", n_node, -180, 180)
        lat = _reals(ctx, "lat", n_node, -90, 90)
        for r, i in enumerate(ORDER):
            if i != 4:
                ctx.solver.add(lon[i] >= -170 + 50 * r, lon[i] <= -130 + 50 * r)
        ctx.solver.add(lon[4] == lon[1], lat[4] != lat[1])
        return fn, nf, lon, lat

    def _sel(arr, idx):
        out = arr[-1]
        for i in range(len(arr) - 2, -1, -1):
            out = z3.If(idx == i, arr[i], out)
        return out

    def run(ctx, inp):
        fn, nf, lon, lat = inp
        old, symnp.UNIQUE_MODE[0] = symnp.UNIQUE_MODE[0], "rank"
        try:
            vals = []
            for f in range(n_face):
                for j in range(n_max):
                    vals.append(mk(z3.If(j < nf[f], _sel(lon, fn[f][j]), z3.RealVal(F))))
                    vals.append(mk(z3.If(j < nf[f], _sel(lat, fn[f][j]), z3.RealVal(F))))
            fv = symnp.SArr.new(vals, (n_face, n_max, 2), None, symnp.float64)
            Grid = world().get("uxarray.grid.grid", "Grid")
            g = Grid.from_face_vertices(fv, latlon=True)
            got = g.face_node_connectivity.values.raw()
            ctx.prove("table shape", got.shape_cap == (n_face, n_max) and _int_dtype(g.face_node_connectivity.values))
            if got.shape_cap != (n_face, n_max):
                return
            glon, glat = [_zr(v) for v in g.node_lon.values.raw().flat_list()], [_zr(v) for v in g.node_lat.values.raw().flat_list()]
            nn = sc.z(g.n_node)
            for f in range(n_face):
                cl = []
                for j in range(n_max):
                    idx = sc.z(got[f, j])
                    ok = z3.And(idx >= 0, idx < nn, _lon_ok(_sel(glon, idx), _sel(lon, fn[f][j])), _sel(glat, idx) == _sel(lat, fn[f][j]))
                    cl.append(z3.If(j < nf[f], ok, idx == F))
                ctx.prove(f"face {f}: its vertices in order (positions), padding rows -> fill at the end", z3.And(*cl))
        finally:
            symnp.UNIQUE_MODE[0] = old

    def replay(v):
        import uxarray as ux
        rows, lon, lat = v["fn"], v["lon"], v["lat"]
        fv = np.full((n_face, n_max, 2), float(F))
        for f, r in enumerate(rows):
            for j, i in enumerate(x for x in r if x != F):
                fv[f, j] = (lon[i], lat[i])
        try:
            g = ux.Grid.from_face_vertices(fv, latlon=True)
            fnr = g.face_node_connectivity.values
            if fnr.dtype != np.intp:
                return f"face_node_connectivity dtype {fnr.dtype}"
            for f, r in enumerate(rows):
                ids = [x for x in r if x != F]
                got = [int(x) for x in fnr[f]]
                if any(x != F for x in got[len(ids):]) or any(x == F for x in got[:len(ids)]):
                    return f"from_face_vertices face {f} with vertices {fv[f].tolist()} decoded as row {got}: padding is not 'fill values at the end only'"
                for j, i in enumerate(ids):
                    gl, gt = float(g.node_lon.values[got[j]]), float(g.node_lat.values[got[j]])
                    if abs(((gl - lon[i] + 180) % 360) - 180) > 1e-9 or abs(gt - lat[i]) > 1e-9:
                        return f"from_face_vertices face {f} vertex {j}: decoded position ({gl},{gt}), the source has ({lon[i]},{lat[i]})"
        except Exception as e:
            return f"from_face_vertices raised {type(e).__name__}: {str(e)[:150]}"
        return _check_lon_range(g)

    return Obligation(oid, "face-vertex arrays -> Grid", setup, run, replay, exact=True,
                      functions=["Grid.from_face_vertices", "_vertices._read_face_vertices", "Grid.__init__"],
                      bounds="2 faces <= 4 vertices (padding rows of fill values), 6 vertex positions in longitude bands ordered unlike the numbering, two vertices on one meridian",
                      tiers=tiers, timeout_s=3000, query_timeout_s=1500, cost=cost)


def make_icon(oid, tiers=("quick", "thorough")):
    """ICON primal mesh: one-based, entity-minor tables ([3, cell], [2, edge]); entries <= 0 mark a missing neighbour"""
    nC, nV, nE = 2, 4, 5

    def setup(ctx):
        voc = _tbl(ctx, "voc", nC, 3, 0, nV - 1)          # zero-based reference values; the source holds +1
        eoc = _tbl(ctx, "eoc", nC, 3, 0, nE - 1)
        nci = _tbl(ctx, "nci", nC, 3, -1, nC - 1)         # -1: no neighbour
        aoe = _tbl(ctx, "aoe", nE, 2, -1, nC - 1)
        ev = _tbl(ctx, "ev", nE, 2, 0, nV - 1)
        miss = ctx.int("missing_marker", -1, 0)           # what the source writes for 'no neighbour'
        R = {}
        for nm, n in (("v", nV), ("c", nC), ("e", nE)):
            R[nm + "lon"] = _reals(ctx, nm + "lon", n, sc.lift(-3.1), sc.lift(6.2))
            R[nm + "lat"] = _reals(ctx, nm + "lat", n, sc.lift(-1.5), sc.lift(1.5))
        return voc, eoc, nci, aoe, ev, miss, R

    def tables(voc, eoc, nci, aoe, ev, miss, If):
        src = lambda t: [[If(x, x + 1, miss) for x in r] for r in t]       # noqa: E731
        T = lambda t: [list(c) for c in zip(*t)]                            # noqa: E731
        return {"vertex_of_cell": (["nv", "cell"], T(src(voc))), "edge_of_cell": (["nv", "cell"], T(src(eoc))),
                "neighbor_cell_index": (["nv", "cell"], T(src(nci))), "adjacent_cell_of_edge": (["nc", "edge"], T(src(aoe))),
                "edge_vertices": (["nc", "edge"], T(src(ev)))}

    def run(ctx, inp):
        voc, eoc, nci, aoe, ev, miss, R = inp
        ds = symxr.Dataset()
        for nm, dim in (("v", "vertex"), ("c", "cell"), ("e", "edge")):
            for ll in ("lon", "lat"):
                ds[nm + ll] = symxr.DataArray(C.sarr_1d(R[nm + ll], symnp.float64), dims=[dim])
        zmiss = sc.z(miss)
        for name, (dims, rows) in tables(voc, eoc, nci, aoe, ev, zmiss, lambda x, a, b: z3.If(x >= 0, a, b)).items():
            ds[name] = symxr.DataArray(symnp.SArr.new([mk(x) for r in rows for x in r], (len(rows), len(rows[0])), None, symnp.int32), dims=dims)
        Grid = world().get("uxarray.grid.grid", "Grid")
        g = _open(ctx, Grid, ds)
        ctx.prove("sniffed as ICON", g.source_grid_spec == "ICON")
        for prop, ref in (("face_node_connectivity", voc), ("face_edge_connectivity", eoc), ("face_face_connectivity", nci),
                          ("edge_face_connectivity", aoe), ("edge_node_connectivity", ev)):
            _prove_table(ctx, f"{prop} = source table transposed, one-based -> zero-based, missing neighbours -> fill, platform integers",
                         getattr(g, prop).values, ref, lambda r, c, ref=ref: ref[r][c] >= 0, 0)
        for kind, nm, n in (("node", "v", nV), ("face", "c", nC), ("edge", "e", nE)):
            glon, glat = getattr(g, kind + "_lon").values, getattr(g, kind + "_lat").values
            ctx.prove(f"{kind} coordinates = rad2deg of the source (lon wrapped into [-180,180])", z3.And(
                *[z3.And(_lon_ok(_zr(glon[i]), R[nm + "lon"][i] * 180 / sc.lift(symnp.PI_Q)), _zr(glat[i]) == R[nm + "lat"][i] * 180 / sc.lift(symnp.PI_Q)) for i in range(n)]))

    def replay(v):
        import xarray as xr
        import uxarray as ux
        ds = xr.Dataset()
        for nm, dim in (("v", "vertex"), ("c", "cell"), ("e", "edge")):
            for ll in ("lon", "lat"):
                ds[nm + ll] = xr.DataArray(np.array(v[nm + ll], dtype=float), dims=[dim])
        miss = int(v["missing_marker"])
        for name, (dims, rows) in tables(v["voc"], v["eoc"], v["nci"], v["aoe"], v["ev"], miss, lambda x, a, b: a if x >= 0 else b).items():
            ds[name] = xr.DataArray(np.array(rows, dtype=np.int32), dims=dims)
        try:
            g = _open_real(ux, ds)
        except Exception as e:
            return f"ICON source raised {type(e).__name__}: {str(e)[:150]}"
        for prop, key in (("face_node_connectivity", "voc"), ("face_edge_connectivity", "eoc"), ("face_face_connectivity", "nci"),
                          ("edge_face_connectivity", "aoe"), ("edge_node_connectivity", "ev")):
            got = getattr(g, prop).values
            exp = np.array([[x if x >= 0 else F for x in r] for r in v[key]], dtype=np.intp)
            if got.dtype != np.intp:
                return f"ICON source: {prop} has dtype {got.dtype}, not the platform integer"
            if got.shape != exp.shape or not np.array_equal(got, exp):
                return f"ICON source (missing-neighbour marker {miss}): {prop} decoded as {got.tolist()}, the source describes {exp.tolist()}"
        if not np.allclose(((g.node_lon.values - np.degrees(v["vlon"])) + 180) % 360 - 180, 0, atol=1e-9) or np.any(np.abs(g.node_lon.values) > 180 + 1e-9):
            return f"ICON source: node_lon {g.node_lon.values.tolist()} for vlon (deg) {np.degrees(v['vlon']).tolist()}"
        return _check_lon_range(g)

    return Obligation(oid, "ICON dataset -> Grid", setup, run, replay, exact=True,
                      functions=["Grid.from_dataset", "io.utils._parse_grid_type", "_icon._read_icon", "_icon._primal_to_ugrid", "coordinates._set_desired_longitude_range"],
                      bounds="2 cells, 4 vertices, 5 edges; every table entry symbolic; missing-neighbour marker 0 or -1; coordinates in radians", tiers=tiers)


def make_geos(oid, tiers=("quick", "thorough")):
    """GEOS cube-sphere: corner_lons/lats [nf, Y+1, X+1] and centre lons/lats [nf, Y, X]; no connectivity in the source"""
    nf, ny, nx = 2, 2, 3          # cells per tile: ny x nx ; corners (ny+1) x (nx+1)

    def setup(ctx):
        clon = _reals(ctx, "corner_lon", nf * (ny + 1) * (nx + 1), -180, 360)
        clat = _reals(ctx, "corner_lat", nf * (ny + 1) * (nx + 1), -90, 90)
        lon = _reals(ctx, "lon", nf * ny * nx, -180, 360)
        lat = _reals(ctx, "lat", nf * ny * nx, -90, 90)
        return clon, clat, lon, lat

    def run(ctx, inp):
        clon, clat, lon, lat = inp
        A = lambda vals, shape: symnp.SArr.new([mk(x) for x in vals], shape, None, symnp.float64)      # noqa: E731
        ds = symxr.Dataset()
        ds["corner_lons"] = symxr.DataArray(A(clon, (nf, ny + 1, nx + 1)), dims=["nf", "YCdim", "XCdim"])
        ds["corner_lats"] = symxr.DataArray(A(clat, (nf, ny + 1, nx + 1)), dims=["nf", "YCdim", "XCdim"])
        ds["lons"] = symxr.DataArray(A(lon, (nf, ny, nx)), dims=["nf", "Ydim", "Xdim"])
        ds["lats"] = symxr.DataArray(A(lat, (nf, ny, nx)), dims=["nf", "Ydim", "Xdim"])
        Grid = world().get("uxarray.grid.grid", "Grid")
        g = _open(ctx, Grid, ds)
        ctx.prove("sniffed as GEOS-CS", g.source_grid_spec == "GEOS-CS")
        fn = g.face_node_connectivity.values
        ctx.prove("one quadrilateral per cell, platform integers", fn.shape_cap == (nf * ny * nx, 4) and _int_dtype(fn))
        if fn.shape_cap != (nf * ny * nx, 4):
            return
        glon, glat = [_zr(x) for x in g.node_lon.values.flat_list()], [_zr(x) for x in g.node_lat.values.flat_list()]
        nn = len(glon)

        def sel(arr, idx):
            out = arr[-1]
            for i in range(len(arr) - 2, -1, -1):
                out = z3.If(idx == i, arr[i], out)
            return out
        cidx = lambda t, i, j: (t * (ny + 1) + i) * (nx + 1) + j          # noqa: E731
        for t in range(nf):
            for i in range(ny):
                for j in range(nx):
                    k = (t * ny + i) * nx + j
                    ring = [(i, j), (i, j + 1), (i + 1, j + 1), (i + 1, j)]       # the cell's corners in lattice order
                    rots = []
                    for rev in (False, True):
                        seq = list(reversed(ring)) if rev else ring
                        for r0 in range(4):
                            sq = seq[r0:] + seq[:r0]
                            rots.append(z3.And(*[z3.And(sc.z(fn[k, c]) >= 0, sc.z(fn[k, c]) < nn,
                                                        _lon_ok(sel(glon, sc.z(fn[k, c])), clon[cidx(t, *sq[c])]), sel(glat, sc.z(fn[k, c])) == clat[cidx(t, *sq[c])]) for c in range(4)]))
                    ctx.prove(f"cell ({t},{i},{j}) -> face {k}: its four corners in a cyclic order around the cell", z3.Or(*rots))
        fl, ft = g.face_lon.values.flat_list(), g.face_lat.values.flat_list()
        ctx.prove("cell centres carried in face order", z3.And(*[z3.And(_lon_ok(_zr(fl[k]), lon[k]), _zr(ft[k]) == lat[k]) for k in range(nf * ny * nx)]))

    def replay(v):
        import xarray as xr
        import uxarray as ux
        cl, ct = np.array(v["corner_lon"], dtype=float).reshape(nf, ny + 1, nx + 1), np.array(v["corner_lat"], dtype=float).reshape(nf, ny + 1, nx + 1)
        ds = xr.Dataset()
        ds["corner_lons"] = xr.DataArray(cl, dims=["nf", "YCdim", "XCdim"]); ds["corner_lats"] = xr.DataArray(ct, dims=["nf", "YCdim", "XCdim"])
        ds["lons"] = xr.DataArray(np.array(v["lon"], dtype=float).reshape(nf, ny, nx), dims=["nf", "Ydim", "Xdim"])
        ds["lats"] = xr.DataArray(np.array(v["lat"], dtype=float).reshape(nf, ny, nx), dims=["nf", "Ydim", "Xdim"])
        g = _open_real(ux, ds)
        fn = g.face_node_connectivity.values
        if fn.dtype != np.intp or fn.shape != (nf * ny * nx, 4):
            return f"GEOS-CS: face_node_connectivity dtype {fn.dtype} shape {fn.shape}"
        for t in range(nf):
            for i in range(ny):
                for j in range(nx):
                    k = (t * ny + i) * nx + j
                    ring = [(cl[t, a, b], ct[t, a, b]) for a, b in ((i, j), (i, j + 1), (i + 1, j + 1), (i + 1, j))]
                    got = [(float(g.node_lon.values[n]), float(g.node_lat.values[n])) for n in fn[k]]
                    same = lambda p, q: abs(((p[0] - q[0]) + 180) % 360 - 180) < 1e-9 and abs(p[1] - q[1]) < 1e-9      # noqa: E731
                    ok = any(all(same(got[c], sq[c]) for c in range(4)) for seq in (ring, ring[::-1]) for r0 in range(4) for sq in [seq[r0:] + seq[:r0]])
                    if not ok:
                        return f"GEOS-CS cell ({t},{i},{j}): face {k} has corners {got}, the cell's corners are {ring}"
        return _check_lon_range(g)

    return Obligation(oid, "GEOS cube-sphere dataset -> Grid", setup, run, replay, exact=True,
                      functions=["Grid.from_dataset", "io.utils._parse_grid_type", "_geos._read_geos_cs", "coordinates._set_desired_longitude_range"],
                      bounds="2 tiles of 2 x 3 cells (3 x 4 corners), every corner / centre position symbolic", tiers=tiers)


def make_esmf(oid, si_case, tiers=("quick", "thorough"), dtype="int32"):
    n_face, n_max, n_node = 2, 4, 6
    base = {"absent": 1, "0": 0, "1": 1}[si_case]

    def setup(ctx):
        ctx.const("si_case", si_case)
        fn, nf = C.sym_face_table(ctx, n_face, n_max, n_node)
        pad = _tbl(ctx, "pad", n_face, n_max, -1, 7)                # arbitrary garbage in the padded slots
        lon = _reals(ctx, "lon", n_node, 0, 360)
        lat = _reals(ctx, "lat", n_node, -90, 90)
        clon = _reals(ctx, "clon", n_face, 0, 360)
        clat = _reals(ctx, "clat", n_face, -90, 90)
        return fn, nf, pad, lon, lat, clon, clat

    def run(ctx, inp):
        fn, nf, pad, lon, lat, clon, clat = inp
        src = [[z3.If(j < nf[f], fn[f][j] + base, pad[f][j]) for j in range(n_max)] for f in range(n_face)]
        ds = symxr.Dataset()
        ds["nodeCoords"] = symxr.DataArray(symnp.SArr.new([mk(x) for pair in zip(lon, lat) for x in pair], (n_node, 2), None, symnp.float64),
                                           dims=["nodeCount", "coordDim"], attrs={"units": "degrees"})
        ds["centerCoords"] = symxr.DataArray(symnp.SArr.new([mk(x) for pair in zip(clon, clat) for x in pair], (n_face, 2), None, symnp.float64),
                                             dims=["elementCount", "coordDim"], attrs={"units": "degrees"})
        at = {"long_name": "Node indices that define the element connectivity"}
        if si_case != "absent":
            at["start_index"] = int(si_case)
        ds["elementConn"] = symxr.DataArray(symnp.SArr.new([mk(x) for r in src for x in r], (n_face, n_max), None, symnp.int32 if dtype == "int32" else symnp.int64),
                                            dims=["elementCount", "maxNodePElement"], attrs=at)
        conn_before = ds["elementConn"].data.flat_list()
        ds["numElementConn"] = symxr.DataArray(symnp.SArr.new([mk(x) for x in nf], (n_face,), None, symnp.int32), dims=["elementCount"])
        Grid = world().get("uxarray.grid.grid", "Grid")
        g = _open(ctx, Grid, ds)
        ctx.prove("sniffed as ESMF", g.source_grid_spec == "ESMF")
        _prove_table(ctx, "faces = elementConn - start_index (1 when absent) on the first numElementConn entries, padding -> fill", g.face_node_connectivity.values,
                     [[fn[f][j] for j in range(n_max)] for f in range(n_face)], lambda f, j: j < nf[f], 0,
                     regions={"esmf_start_index_attr_ignored": si_case == "0"})
        ctx.prove("node and centre coordinates carried (lon wrapped)", z3.And(
            *[z3.And(_lon_ok(_zr(g.node_lon.values[i]), lon[i]), _zr(g.node_lat.values[i]) == lat[i]) for i in range(n_node)],
            *[z3.And(_lon_ok(_zr(g.face_lon.values[i]), clon[i]), _zr(g.face_lat.values[i]) == clat[i]) for i in range(n_face)]))
        ctx.prove("n_nodes_per_face carried", z3.And(*[sc.z(g.n_nodes_per_face.values[f]) == nf[f] for f in range(n_face)]))
        ctx.prove("the source dataset's elementConn is left as it was (opening the same dataset again gives the same grid)",
                  z3.And(*[sc.z(a) == sc.z(b) for a, b in zip(ds["elementConn"].data.flat_list(), conn_before)]))

    def replay(v):
        import xarray as xr
        import uxarray as ux
        rows = [[(x + base) if x != F else v["pad"][f][j] for j, x in enumerate(r)] for f, r in enumerate(v["fn"])]
        ds = xr.Dataset()
        ds["nodeCoords"] = xr.DataArray(np.stack([v["lon"], v["lat"]], axis=1).astype(float), dims=["nodeCount", "coordDim"], attrs={"units": "degrees"})
        ds["centerCoords"] = xr.DataArray(np.stack([v["clon"], v["clat"]], axis=1).astype(float), dims=["elementCount", "coordDim"], attrs={"units": "degrees"})
        at = {"long_name": "x"}
        if si_case != "absent":
            at["start_index"] = int(si_case)
        ds["elementConn"] = xr.DataArray(np.array(rows, dtype=np.int32 if dtype == "int32" else np.int64), dims=["elementCount", "maxNodePElement"], attrs=at)
        ds["numElementConn"] = xr.DataArray(np.array(v["fn_n"], dtype=np.int32), dims=["elementCount"])
        g = _open_real(ux, ds)
        r = _check_faces(g, v["fn"], n_node)
        if r:
            return r + f" [ESMF start_index={si_case} elementConn {rows}]"
        if not np.array_equal(ds["elementConn"].values, np.array(rows)):
            return f"ESMF reader modified the source dataset's elementConn ({dtype}): {rows} -> {ds['elementConn'].values.tolist()}"
        r = _check_faces(ux.Grid.from_dataset(ds), v["fn"], n_node)
        if r:
            return "second opening of the same ESMF dataset: " + r
        if not np.allclose((g.face_lon.values - np.array(v["clon"])) % 360, 0, atol=1e-9) and not np.allclose((g.face_lon.values - np.array(v["clon"]) + 180) % 360 - 180, 0, atol=1e-9):
            return "centerCoords not carried"
        return None

    return Obligation(oid, f"ESMF dataset -> Grid, start_index attribute {si_case}, {dtype} connectivity", setup, run, replay, exact=True,
                      functions=["Grid.from_dataset", "io.utils._parse_grid_type", "_esmf._read_esmf"],
                      bounds="2 faces <= 4 corners, arbitrary garbage in padded slots, nodes < 6", tiers=tiers)


# ------------------------------------------------------------------ MPAS (primal and dual)
def make_mpas(oid, dual, tiers=("quick", "thorough"), int_dtype="int32"):
    nC, nV, nE, mE = 2, 4, 3, 4          # cells, vertices, edges, maxEdges

    def setup(ctx):
        ctx.const("dual", dual)
        voc, ne = C.sym_face_table(ctx, nC, mE, nV, prefix="voc")      # zero-based reference; source is +1
        pad = _tbl(ctx, "pad", nC, mE, 0, nV)                           # padding: zeros or repeated (1-based) indices
        eoc = _tbl(ctx, "eoc", nC, mE, 0, nE - 1)
        coc = _tbl(ctx, "coc", nC, mE, -1, nC - 1)                      # -1 -> source 0 (no neighbour)
        cov = _tbl(ctx, "cov", nV, 3, -1, nC - 1)
        voe = _tbl(ctx, "voe", nE, 2, 0, nV - 1)
        coe = _tbl(ctx, "coe", nE, 2, -1, nC - 1)
        R = {}
        for nm, n in (("Vertex", nV), ("Cell", nC), ("Edge", nE)):
            R["lon" + nm] = _reals(ctx, "lon" + nm, n, 0, 6)
            R["lat" + nm] = _reals(ctx, "lat" + nm, n, sc.lift(-1.5), sc.lift(1.5))
        dv = _reals(ctx, "dvEdge", nE, 0, 1)
        dc = _reals(ctx, "dcEdge", nE, 0, 1)
        area = _reals(ctx, "areaCell", nC, 0, 1)
        return voc, ne, pad, eoc, coc, cov, voe, coe, R, dv, dc, area

    def build(voc, ne, pad, eoc, coc, cov, voe, coe, R, dv, dc, area, mkarr, DA, DS, f32=None):
        ds = DS()
        per = lambda t: [[z3.If(j < ne[c], t[c][j] + 1, pad[c][j]) for j in range(mE)] for c in range(nC)]   # noqa: E731
        ds["verticesOnCell"] = DA(mkarr(per(voc), "i"), dims=["nCells", "maxEdges"])
        ds["nEdgesOnCell"] = DA(mkarr([ne], "i", flat=True), dims=["nCells"])
        ds["edgesOnCell"] = DA(mkarr(per(eoc), "i"), dims=["nCells", "maxEdges"])
        ds["cellsOnCell"] = DA(mkarr(per(coc), "i"), dims=["nCells", "maxEdges"])
        ds["cellsOnVertex"] = DA(mkarr([[x + 1 for x in r] for r in cov], "i"), dims=["nVertices", "vertexDegree"])
        ds["verticesOnEdge"] = DA(mkarr([[x + 1 for x in r] for r in voe], "i"), dims=["nEdges", "TWO"])
        ds["cellsOnEdge"] = DA(mkarr([[x + 1 for x in r] for r in coe], "i"), dims=["nEdges", "TWO"])
        for nm, dim in (("Vertex", "nVertices"), ("Cell", "nCells"), ("Edge", "nEdges")):
            ds["lon" + nm] = DA(mkarr([R["lon" + nm]], "f", flat=True), dims=[dim])
            ds["lat" + nm] = DA(mkarr([R["lat" + nm]], "f", flat=True), dims=[dim])
        ds["dvEdge"] = DA(mkarr([dv], "f", flat=True), dims=["nEdges"])
        ds["dcEdge"] = DA(mkarr([dc], "f", flat=True), dims=["nEdges"])
        ds["areaCell"] = DA(mkarr([area], "f", flat=True), dims=["nCells"])
        return ds

    def run(ctx, inp):
        voc, ne, pad, eoc, coc, cov, voe, coe, R, dv, dc, area = inp

        def mkarr(rows, kind, flat=False):
            vals = [mk(x) if z3.is_expr(x) else x for r in rows for x in r]
            shp = (len(vals),) if flat else (len(rows), len(rows[0]))
            return symnp.SArr.new(vals, shp, None, (symnp.int32 if int_dtype == "int32" else symnp.int64) if kind == "i" else symnp.float64)
        ds = build(voc, ne, pad, eoc, coc, cov, voe, coe, R, dv, dc, area, mkarr, symxr.DataArray, symxr.Dataset)
        Grid = world().get("uxarray.grid.grid", "Grid")
        g = _open(ctx, Grid, ds, use_dual=dual)
        ctx.prove("sniffed as MPAS", g.source_grid_spec == "MPAS")
        k = 180 / sc.lift(symnp.PI_Q)
        cellv = lambda c, j: j < ne[c]      # noqa: E731

        def coord_ok(got_lon, got_lat, slon, slat):
            return z3.And(*[z3.And(_lon_ok(_zr(got_lon.values[i]), slon[i] * k), _zr(got_lat.values[i]) == slat[i] * k) for i in range(len(slon))])
        if not dual:
            _prove_table(ctx, "face_node = verticesOnCell-1 on the first nEdgesOnCell entries, padding (zeros or repeats) -> fill", g.face_node_connectivity.values, voc, cellv, 0)
            _prove_table(ctx, "face_edge = edgesOnCell-1", g.face_edge_connectivity.values, eoc, cellv, 0)
            _prove_table(ctx, "face_face = cellsOnCell-1 (0 = no neighbour -> fill)", g.face_face_connectivity.values, coc, lambda c, j: z3.And(j < ne[c], coc[c][j] != -1), 0)
            _prove_table(ctx, "node_face = cellsOnVertex-1 (0 -> fill)", g.node_face_connectivity.values, cov, lambda r, c: cov[r][c] != -1, 0)
            _prove_table(ctx, "edge_node = verticesOnEdge-1", g.edge_node_connectivity.values, voe, lambda r, c: z3.BoolVal(True), 0)
            _prove_table(ctx, "edge_face = cellsOnEdge-1 (0 -> fill)", g.edge_face_connectivity.values, coe, lambda r, c: coe[r][c] != -1, 0)
            ctx.prove("node/face/edge coordinates = rad2deg of Vertex/Cell/Edge coordinates, lon wrapped",
                      z3.And(coord_ok(g.node_lon, g.node_lat, R["lonVertex"], R["latVertex"]), coord_ok(g.face_lon, g.face_lat, R["lonCell"], R["latCell"]),
                             coord_ok(g.edge_lon, g.edge_lat, R["lonEdge"], R["latEdge"])))
            ctx.prove("dvEdge -> edge_node_distances, dcEdge -> edge_face_distances, areaCell -> face_areas",
                      z3.And(*[z3.And(_zr(g.edge_node_distances.values[e]) == dv[e], _zr(g.edge_face_distances.values[e]) == dc[e]) for e in range(nE)],
                             *[_zr(g.face_areas.values[c]) == area[c] for c in range(nC)]))
        else:
            _prove_table(ctx, "dual: face_node = cellsOnVertex-1 (0 -> fill)", g.face_node_connectivity.values, cov, lambda r, c: cov[r][c] != -1, 0)
            _prove_table(ctx, "dual: node_face = verticesOnCell-1", g.node_face_connectivity.values, voc, cellv, 0)
            _prove_table(ctx, "dual: edge_node = cellsOnEdge-1", g.edge_node_connectivity.values, coe, lambda r, c: coe[r][c] != -1, 0)
            _prove_table(ctx, "dual: edge_face = verticesOnEdge-1", g.edge_face_connectivity.values, voe, lambda r, c: z3.BoolVal(True), 0)
            ctx.prove("dual: nodes at cell centres, face centres at vertices, edge centres kept",
                      z3.And(coord_ok(g.node_lon, g.node_lat, R["lonCell"], R["latCell"]), coord_ok(g.face_lon, g.face_lat, R["lonVertex"], R["latVertex"]),
                             coord_ok(g.edge_lon, g.edge_lat, R["lonEdge"], R["latEdge"])))
            ctx.prove("dual: dcEdge (cell-to-cell) -> edge_node_distances, dvEdge (vertex-to-vertex) -> edge_face_distances",
                      z3.And(*[z3.And(_zr(g.edge_node_distances.values[e]) == dc[e], _zr(g.edge_face_distances.values[e]) == dv[e]) for e in range(nE)]),
                      regions={"mpas_dual_distances_unswapped": True})

    def replay(v):
        import xarray as xr
        import uxarray as ux

        def mkarr(rows, kind, flat=False):
            a = np.array(rows, dtype=(np.int32 if int_dtype == "int32" else np.int64) if kind == "i" else float)
            return a.ravel() if flat else a
        ne = v["voc_n"]
        lit = lambda t: [[int(x) for x in r] for r in t]      # noqa: E731
        per = lambda t: [[(t[c][j] + 1) if j < ne[c] else v["pad"][c][j] for j in range(mE)] for c in range(nC)]    # noqa: E731
        ds = xr.Dataset()
        ds["verticesOnCell"] = xr.DataArray(mkarr(per(v["voc"]) if False else [[(v["voc"][c][j] + 1) if j < ne[c] else v["pad"][c][j] for j in range(mE)] for c in range(nC)], "i"), dims=["nCells", "maxEdges"])
        ds["nEdgesOnCell"] = xr.DataArray(mkarr(ne, "i"), dims=["nCells"])
        ds["edgesOnCell"] = xr.DataArray(mkarr(per(v["eoc"]), "i"), dims=["nCells", "maxEdges"])
        ds["cellsOnCell"] = xr.DataArray(mkarr(per(v["coc"]), "i"), dims=["nCells", "maxEdges"])
        ds["cellsOnVertex"] = xr.DataArray(mkarr(v["cov"], "i") + 1, dims=["nVertices", "vertexDegree"])
        ds["verticesOnEdge"] = xr.DataArray(mkarr(v["voe"], "i") + 1, dims=["nEdges", "TWO"])
        ds["cellsOnEdge"] = xr.DataArray(mkarr(v["coe"], "i") + 1, dims=["nEdges", "TWO"])
        for nm, dim in (("Vertex", "nVertices"), ("Cell", "nCells"), ("Edge", "nEdges")):
            ds["lon" + nm] = xr.DataArray(mkarr(v["lon" + nm], "f"), dims=[dim])
            ds["lat" + nm] = xr.DataArray(mkarr(v["lat" + nm], "f"), dims=[dim])
        ds["dvEdge"] = xr.DataArray(mkarr(v["dvEdge"], "f"), dims=["nEdges"])
        ds["dcEdge"] = xr.DataArray(mkarr(v["dcEdge"], "f"), dims=["nEdges"])
        ds["areaCell"] = xr.DataArray(mkarr(v["areaCell"], "f"), dims=["nCells"])
        g = _open_real(ux, ds, use_dual=dual)

        def exp_tbl(t, valid):
            return np.array([[t[r][c] if valid(r, c) else F for c in range(len(t[0]))] for r in range(len(t))], dtype=np.intp)
        cellv = lambda c, j: j < ne[c]      # noqa: E731
        checks = []
        if not dual:
            checks = [("face_node_connectivity", exp_tbl(v["voc"], cellv)), ("face_edge_connectivity", exp_tbl(v["eoc"], cellv)),
                      ("face_face_connectivity", exp_tbl(v["coc"], lambda c, j: j < ne[c] and v["coc"][c][j] != -1)),
                      ("node_face_connectivity", exp_tbl(v["cov"], lambda r, c: v["cov"][r][c] != -1)),
                      ("edge_node_connectivity", exp_tbl(v["voe"], lambda r, c: True)),
                      ("edge_face_connectivity", exp_tbl(v["coe"], lambda r, c: v["coe"][r][c] != -1))]
            dist = [("edge_node_distances", v["dvEdge"]), ("edge_face_distances", v["dcEdge"])]
        else:
            checks = [("face_node_connectivity", exp_tbl(v["cov"], lambda r, c: v["cov"][r][c] != -1)), ("node_face_connectivity", exp_tbl(v["voc"], cellv)),
                      ("edge_node_connectivity", exp_tbl(v["coe"], lambda r, c: v["coe"][r][c] != -1)), ("edge_face_connectivity", exp_tbl(v["voe"], lambda r, c: True))]
            dist = [("edge_node_distances", v["dcEdge"]), ("edge_face_distances", v["dvEdge"])]
        for name, exp in checks:
            got = getattr(g, name).values
            if got.dtype != np.intp or not np.array_equal(got, exp):
                return f"MPAS {'dual' if dual else 'primal'} {name} decoded as {got.tolist()} ({got.dtype}), the source describes {exp.tolist()}"
        for name, exp in dist:
            if not np.allclose(getattr(g, name).values, exp):
                return f"MPAS {'dual' if dual else 'primal'} {name} = {getattr(g, name).values.tolist()}, expected {exp}"
        return None

    return Obligation(oid, f"MPAS {'dual' if dual else 'primal'} dataset -> Grid", setup, run, replay, exact=True,
                      functions=["Grid.from_dataset", "io.utils._parse_grid_type", "_mpas._read_mpas", "_mpas._primal_to_ugrid", "_mpas._dual_to_ugrid", "_mpas._parse_*",
                                 "_mpas._replace_padding", "_mpas._replace_zeros", "_mpas._to_zero_index"],
                      bounds="2 cells <= 4 vertices (all padding layouts; padding cells arbitrary: zeros or repeated indices), 4 vertices, 3 edges", tiers=tiers)


# ------------------------------------------------------------------ Exodus
def make_exodus(oid, layout, tiers=("quick", "thorough")):
    """single element block, coordinates as 'coord' (3 x n) or as coordx/coordy/coordz"""
    n_face, n_max, n_node = 2, 4, 5
    from fractions import Fraction as Fr
    UN = [(Fr(3, 5), Fr(4, 5), Fr(0)), (Fr(0), Fr(5, 13), Fr(12, 13)), (Fr(2, 3), Fr(1, 3), Fr(2, 3)), (Fr(-2, 7), Fr(3, 7), Fr(6, 7)), (Fr(1, 9), Fr(-4, 9), Fr(8, 9))]

    def setup(ctx):
        ctx.const("layout", layout)
        fn, nf = C.sym_face_table(ctx, n_face, n_max, n_node)
        return fn, nf

    def coords():
        return [[float(u[a]) for u in UN] for a in range(3)]

    def run(ctx, inp):
        fn, nf = inp
        src = [[z3.If(j < nf[f], fn[f][j] + 1, 0) for j in range(n_max)] for f in range(n_face)]      # 1-based, 0 = unused slot
        ds = symxr.Dataset()
        X = coords()
        if layout == "coord":
            ds["coord"] = symxr.DataArray(symnp.array(X), dims=["num_dim", "num_nodes"])
        else:
            ds["coordx"] = symxr.DataArray(symnp.array(X[0]), dims=["num_nodes"])
            ds["coordy"] = symxr.DataArray(symnp.array(X[1]), dims=["num_nodes"])
            ds["coordz"] = symxr.DataArray(symnp.array(X[2]), dims=["num_nodes"])
            ds["dummy3"] = symxr.DataArray(symnp.array([0, 0, 0]), dims=["num_dim"])
        ds["connect1"] = symxr.DataArray(C.sarr_int(src), dims=["num_el_in_blk1", "num_nod_per_el1"], attrs={"elem_type": "SHELL4"})
        Grid = world().get("uxarray.grid.grid", "Grid")
        g = _open(ctx, Grid, ds)
        ctx.prove("sniffed as Exodus", g.source_grid_spec == "Exodus")
        _prove_table(ctx, "faces = connect1 - 1, unused slots (0) -> fill", g.face_node_connectivity.values,
                     [[fn[f][j] for j in range(n_max)] for f in range(n_face)], lambda f, j: j < nf[f], 0)
        gx, gy, gz = g.node_x.values.flat_list(), g.node_y.values.flat_list(), g.node_z.values.flat_list()
        ctx.prove("node x,y,z taken from the matching source arrays",
                  all(abs(float(_c(gx[i])) - X[0][i]) < 1e-12 and abs(float(_c(gy[i])) - X[1][i]) < 1e-12 and abs(float(_c(gz[i])) - X[2][i]) < 1e-12 for i in range(n_node)),
                  note=f"x {gx} y {gy} z {gz}")

    def replay(v):
        import xarray as xr
        import uxarray as ux
        rows = [[(x + 1) if x != F else 0 for x in r] for r in v["fn"]]
        X = np.array(coords())
        ds = xr.Dataset()
        if layout == "coord":
            ds["coord"] = xr.DataArray(X, dims=["num_dim", "num_nodes"])
        else:
            ds["coordx"] = xr.DataArray(X[0], dims=["num_nodes"])
            ds["coordy"] = xr.DataArray(X[1], dims=["num_nodes"])
            ds["coordz"] = xr.DataArray(X[2], dims=["num_nodes"])
            ds["dummy3"] = xr.DataArray(np.zeros(3), dims=["num_dim"])
        ds["connect1"] = xr.DataArray(np.array(rows, dtype=np.int32), dims=["num_el_in_blk1", "num_nod_per_el1"], attrs={"elem_type": "SHELL4"})
        g = _open_real(ux, ds)
        r = _check_faces(g, v["fn"], n_node)
        if r:
            return r + f" [Exodus connect1 {rows}]"
        got = np.array([g.node_x.values, g.node_y.values, g.node_z.values])
        if not np.allclose(got, X, atol=1e-12):
            return f"Exodus ({layout} layout): node xyz read as {got.tolist()}, the source has {X.tolist()}"
        return None

    return Obligation(oid, f"Exodus dataset (one block, coordinates as {layout}) -> Grid", setup, run, replay, exact=True,
                      functions=["Grid.from_dataset", "io.utils._parse_grid_type", "_exodus._read_exodus", "connectivity._replace_fill_values", "coordinates._xyz_to_lonlat_deg"],
                      bounds="2 elements <= 4 nodes, 5 nodes at fixed rational unit vectors", tiers=tiers)


def make_exodus_blocks(oid, quad_first, tiers=("quick", "thorough")):
    """two element blocks (2 triangles, 1 quadrilateral) - 'one or several Exodus element blocks'"""
    n_node = 5
    from fractions import Fraction as Fr
    UN = [(Fr(3, 5), Fr(4, 5), Fr(0)), (Fr(0), Fr(5, 13), Fr(12, 13)), (Fr(2, 3), Fr(1, 3), Fr(2, 3)), (Fr(-2, 7), Fr(3, 7), Fr(6, 7)), (Fr(1, 9), Fr(-4, 9), Fr(8, 9))]
    X = [[float(u[a]) for u in UN] for a in range(3)]

    def setup(ctx):
        ctx.const("quad_first", quad_first)
        tri, _ = C.sym_face_table(ctx, 2, 3, n_node, prefix="tri", sizes=[3, 3])
        quad, _ = C.sym_face_table(ctx, 1, 4, n_node, prefix="quad", sizes=[4])
        return tri, quad

    def blocks(tri, quad):
        b = [("TRI3", tri), ("SHELL4", quad)]
        return list(reversed(b)) if quad_first else b

    def run(ctx, inp):
        tri, quad = inp
        ds = symxr.Dataset()
        ds["coord"] = symxr.DataArray(symnp.array(X), dims=["num_dim", "num_nodes"])
        for k, (et, rows) in enumerate(blocks(tri, quad), 1):
            ds[f"connect{k}"] = symxr.DataArray(C.sarr_int([[x + 1 for x in r] for r in rows]), dims=[f"num_el_in_blk{k}", f"num_nod_per_el{k}"], attrs={"elem_type": et})
        Grid = world().get("uxarray.grid.grid", "Grid")
        g = _open(ctx, Grid, ds)
        exp, sizes = [], []
        for et, rows in blocks(tri, quad):
            for r in rows:
                exp.append(list(r) + [z3.IntVal(F)] * (4 - len(r)))
                sizes.append(len(r))
        _prove_table(ctx, "faces = all blocks in block order, 1-based -> 0-based, shorter elements padded with fill", g.face_node_connectivity.values,
                     exp, lambda f, j: j < sizes[f], 0)

    def replay(v):
        import xarray as xr
        import uxarray as ux
        tri, quad = v["tri"], v["quad"]
        ds = xr.Dataset()
        ds["coord"] = xr.DataArray(np.array(X), dims=["num_dim", "num_nodes"])
        exp = []
        for k, (et, rows) in enumerate(blocks(tri, quad), 1):
            ds[f"connect{k}"] = xr.DataArray(np.array([[x + 1 for x in r] for r in rows], dtype=np.int32), dims=[f"num_el_in_blk{k}", f"num_nod_per_el{k}"], attrs={"elem_type": et})
            exp += [list(r) + [F] * (4 - len(r)) for r in rows]
        try:
            g = _open_real(ux, ds)
        except Exception as e:
            return f"Exodus source with blocks {[(et, rows) for et, rows in blocks(tri, quad)]}: reader raised {type(e).__name__}: {str(e)[:120]}"
        r = _check_faces(g, exp, n_node)
        return (r + f" [Exodus blocks {[(et, [[x + 1 for x in r_] for r_ in rows]) for et, rows in blocks(tri, quad)]}]") if r else None

    return Obligation(oid, f"Exodus dataset with two element blocks ({'quadrilaterals first' if quad_first else 'triangles first'}) -> Grid", setup, run, replay, exact=True,
                      functions=["Grid.from_dataset", "io.utils._parse_grid_type", "_exodus._read_exodus", "connectivity._replace_fill_values", "coordinates._xyz_to_lonlat_deg"],
                      bounds="blocks of 2 triangles and 1 quadrilateral, symbolic node ids < 5, 5 nodes at fixed rational unit vectors", tiers=tiers)


# ------------------------------------------------------------------ GeoJSON / shapefile polygons (geopandas reader)
class _GeoCoords:
    """shapely CoordinateSequence stand-in: closed ring (first point repeated at the end)"""
    def __init__(self, xs, ys):
        self._x, self._y = list(xs) + [xs[0]], list(ys) + [ys[0]]

    def __len__(self):
        return len(self._x)

    @property
    def xy(self):
        return list(self._x), list(self._y)


class _GeoRing:
    def __init__(self, xs, ys):
        self.coords = _GeoCoords(xs, ys)


class _GeoPoly:
    geom_type = "Polygon"

    def __init__(self, xs, ys):
        self.exterior = _GeoRing(xs, ys)


class _GeoMulti:
    geom_type = "MultiPolygon"

    def __init__(self, parts):
        self.geoms = list(parts)


class _GeoSeries:
    def __init__(self, vals):
        self.vals = list(vals)

    def apply(self, fn):
        return _GeoSeries([fn(v) for v in self.vals])

    def max(self):
        return max(self.vals)


class _GeoFrame:
    """what the reader uses of a GeoDataFrame: crs, ['geometry'].apply(..).max(), iterrows()"""
    def __init__(self, geoms, crs):
        self.geoms, self.crs = list(geoms), crs

    def __getitem__(self, k):
        assert k == "geometry"
        return _GeoSeries(self.geoms)

    def iterrows(self):
        for i, g in enumerate(self.geoms):
            yield i, {"geometry": g}

    def set_crs(self, crs):
        return _GeoFrame(self.geoms, crs)

    def to_crs(self, crs):
        raise AssertionError("harness: source is already WGS84")


GEO_LAYOUTS = {"polys": [[4], [3]], "multi2": [[3], [4, 3], [3]], "multi3": [[3, 3, 4]], "multi22": [[3, 4], [4, 3]]}


def make_geo(oid, layout, lon_range="180", crs_set=True, ext=".geojson", tiers=("quick", "thorough")):
    """Grid.from_file(<polygons>, backend='geopandas'): features are Polygons / MultiPolygons (layout = ring sizes per feature);
    every exterior ring becomes one face, in feature order, with its own corners in ring order"""
    feats = GEO_LAYOUTS[layout]
    rings = [n for ft in feats for n in ft]
    n_face, n_max, n_pts = len(rings), max(rings), sum(rings)

    def setup(ctx):
        lo, hi = (-180, 180) if lon_range == "180" else (0, 360)
        lon = _reals(ctx, "lon", n_pts, lo, hi)
        lat = _reals(ctx, "lat", n_pts, -90, 90)
        return lon, lat

    def run(ctx, inp):
        lon, lat = inp
        w = world()
        WGS = w.get("uxarray.io._geopandas", "WGS84_CRS")
        geoms, k = [], 0
        for ft in feats:
            parts = []
            for n in ft:
                parts.append(_GeoPoly([mk(v) for v in lon[k:k + n]], [mk(v) for v in lat[k:k + n]]))
                k += n
            geoms.append(parts[0] if len(ft) == 1 else _GeoMulti(parts))
        frame = _GeoFrame(geoms, WGS if crs_set else None)
        seen = []

        class _GPD:
            @staticmethod
            def read_file(filepath, driver=None, **kw):
                seen.append(filepath)
                return frame
        old = w.get("uxarray.io._geopandas", "gpd")
        w.set("uxarray.io._geopandas", "gpd", _GPD)
        try:
            Grid = w.get("uxarray.grid.grid", "Grid")
            g = Grid.from_file("source" + ext, backend="geopandas")
        finally:
            w.set("uxarray.io._geopandas", "gpd", old)
        ctx.prove("the file name is handed to geopandas.read_file", seen == ["source" + ext])
        fnv = g.face_node_connectivity.values
        got = fnv.raw()
        ctx.prove("one face per exterior ring, platform integer dtype", got.shape_cap == (n_face, n_max) and _int_dtype(fnv))
        if got.shape_cap != (n_face, n_max):
            return
        glon, glat = [_zr(v) for v in g.node_lon.values.raw().flat_list()], [_zr(v) for v in g.node_lat.values.raw().flat_list()]
        ctx.prove("one node per ring corner (closing point dropped)", len(glon) == n_pts and len(glat) == n_pts)
        if len(glon) != n_pts or len(glat) != n_pts:
            return
        k = 0
        for f, n in enumerate(rings):
            cl = []
            for j in range(n_max):
                idx = got[f, j]
                if j < n:
                    if isinstance(idx, sc.Sym):
                        ctx.prove(f"face {f} corner {j}: concrete node index", False)
                        return
                    idx = int(idx)
                    cl.append(z3.BoolVal(0 <= idx < n_pts))
                    if 0 <= idx < n_pts:
                        cl += [_lon_ok(glon[idx], lon[k + j]), glat[idx] == lat[k + j]]
                else:
                    cl.append(sc.z(idx) == F if isinstance(idx, sc.Sym) else z3.BoolVal(int(idx) == F))
            ctx.prove(f"face {f}: the ring's corner positions in ring order (lon mod 360 in [-180,180], lat), padding at the end", z3.And(*cl))
            k += n

    def replay(v):
        import json, os, tempfile
        import uxarray as ux
        lon, lat = [float(x) for x in v["lon"]], [float(x) for x in v["lat"]]
        feats_js, k, ring_pts = [], 0, []
        for ft in feats:
            polys = []
            for n in ft:
                pts = [[lon[k + j], lat[k + j]] for j in range(n)]
                ring_pts.append(pts)
                polys.append([pts + [pts[0]]])
                k += n
            geom = {"type": "Polygon", "coordinates": polys[0]} if len(ft) == 1 else {"type": "MultiPolygon", "coordinates": polys}
            feats_js.append({"type": "Feature", "properties": {}, "geometry": geom})
        d = tempfile.mkdtemp(prefix="c01geo_")
        path = os.path.join(d, "source.geojson")
        try:
            with open(path, "w") as fh:
                json.dump({"type": "FeatureCollection", "features": feats_js}, fh)
            try:
                g = ux.Grid.from_file(path, backend="geopandas")
                fnr = g.face_node_connectivity.values
                glon, glat = np.asarray(g.node_lon.values, dtype=float), np.asarray(g.node_lat.values, dtype=float)
            except Exception as e:
                return f"Grid.from_file on a GeoJSON source raised {type(e).__name__}: {str(e)[:150]}"
        finally:
            import shutil
            shutil.rmtree(d, ignore_errors=True)
        if fnr.dtype != np.intp:
            return f"face_node_connectivity dtype {fnr.dtype}"
        if fnr.shape[0] != n_face:
            return f"the source has {n_face} exterior rings, the grid {fnr.shape[0]} faces"
        for f, pts in enumerate(ring_pts):
            row = [int(x) for x in fnr[f]]
            if any(x == F for x in row[:len(pts)]) or any(x != F for x in row[len(pts):]):
                return f"face {f} (ring of {len(pts)} corners) decoded as row {row}: padding is not 'fill values at the end only'"
            for j, (lo, la) in enumerate(pts):
                i = row[j]
                if not 0 <= i < len(glon):
                    return f"face {f} corner {j}: node index {i} out of range"
                if abs(((glon[i] - lo + 180) % 360) - 180) > 1e-9 or abs(glat[i] - la) > 1e-9:
                    return (f"GeoJSON source, feature layout {feats}: face {f} corner {j} decoded at (lon {glon[i]}, lat {glat[i]}), "
                            f"the source ring has (lon {lo}, lat {la})")
        return _check_lon_range(g)

    return Obligation(oid, f"polygon features (layout {feats}, lon {lon_range}, crs {'WGS84' if crs_set else 'unset'}, {ext}) -> Grid via the geopandas reader",
                      setup, run, replay, exact=True,
                      functions=["Grid.from_file", "_geopandas._read_geodataframe", "_gpd_read", "_set_crs", "_extract_geometry_info", "_get_num_nodes",
                                 "_read_polygon", "_read_multipolygon", "Grid.__init__", "_set_desired_longitude_range"],
                      stubs=["geopandas.read_file -> frame of Polygon/MultiPolygon stand-ins with symbolic exterior rings (file bytes -> geometries is geopandas/GDAL, outside); "
                             "replay writes a real GeoJSON file and reads it with the real geopandas"],
                      bounds=f"{len(feats)} features with ring sizes {feats}; every corner position symbolic (lon in {lon_range} convention, lat in [-90,90]); interior rings (holes) and CRS re-projection outside",
                      tiers=tiers, timeout_s=600, query_timeout_s=300)


def _c(v):
    if isinstance(v, sc.SymReal):
        return v.e.as_fraction()
    return v


# ------------------------------------------------------------------ _replace_fill_values kernel
def make_fill(oid, src_dtype, fill_kind, tiers=("quick", "thorough")):
    R, Cn = 2, 3

    def setup(ctx):
        ctx.const("src_dtype", src_dtype); ctx.const("fill_kind", fill_kind)
        t = _tbl(ctx, "t", R, Cn, -3, 9)
        ofv = ctx.int("orig_fill", -3, 9)
        return t, ofv

    def run(ctx, inp):
        t, ofv = inp
        f = world().get("uxarray.grid.connectivity", "_replace_fill_values")
        dt = {"int64": symnp.int64, "int32": symnp.int32, "float64": symnp.float64}[src_dtype]
        vals = [mk(z3.ToReal(x)) if src_dtype == "float64" else mk(x) for r in t for x in r]
        arr = symnp.SArr.new(vals, (R, Cn), None, dt)
        keep = arr.copy()
        of = None if fill_kind == "none" else (mk(z3.ToReal(sc.z(ofv))) if src_dtype == "float64" else ofv)
        out = f(grid_var=arr, original_fill=of, new_fill=F, new_dtype=symnp.int64)
        cl = [z3.BoolVal(_int_dtype(out))]
        o = out.flat_list()
        for i, x in enumerate([x for r in t for x in r]):
            exp = x if fill_kind == "none" else z3.If(x == sc.z(ofv), F, x)
            cl.append(sc.z(o[i]) == exp)
        ctx.prove("out = FILL where the source holds its fill value, the source value elsewhere; platform int", z3.And(*cl))
        ctx.prove("input buffer unchanged", z3.And(*[_zr(a) == _zr(k) for a, k in zip(arr.flat_list(), keep.flat_list())]),
                  regions={"replace_fill_values_in_place_when_dtype_matches": src_dtype == "int64"})

    def replay(v):
        from uxarray.grid.connectivity import _replace_fill_values
        npdt = {"int64": np.int64, "int32": np.int32, "float64": np.float64}[src_dtype]
        arr = np.array(v["t"], dtype=npdt)
        keep = arr.copy()
        of = None if fill_kind == "none" else npdt(v["orig_fill"])
        out = _replace_fill_values(grid_var=arr, original_fill=of, new_fill=F, new_dtype=np.intp)
        exp = np.array(v["t"], dtype=np.intp)
        if fill_kind != "none":
            exp[exp == v["orig_fill"]] = F
        if out.dtype != np.intp or not np.array_equal(out, exp):
            return f"_replace_fill_values({keep.tolist()}, original_fill={of}) -> {out.tolist()} ({out.dtype}), expected {exp.tolist()}"
        if not np.array_equal(arr, keep):
            return f"_replace_fill_values modified its input buffer: {keep.tolist()} -> {arr.tolist()}"
        return None

    return Obligation(oid, f"_replace_fill_values on {src_dtype} source, original fill {fill_kind}", setup, run, replay, exact=True,
                      functions=["connectivity._replace_fill_values"], bounds="2x3 table, values and fill value in [-3,9]", tiers=tiers)


# ------------------------------------------------------------------ format sniffing
def make_sniff(oid):
    MARK = {"Exodus": ("var", "coordx"), "Scrip": ("var", "grid_center_lon"), "MPAS": ("var", "verticesOnCell"), "ESMF": ("dim", "maxNodePElement"),
            "ICON": ("var", "vertex_of_cell")}
    ORDER = ["Exodus", "Scrip", "MPAS", "ESMF", "ICON"]

    def setup(ctx):
        fmt = ctx.enum("format", ORDER)
        extra = [ctx.bool(f"extra_{i}") for i in range(3)]
        return fmt, extra

    def run(ctx, inp):
        fmt, extra = inp
        f = world().get("uxarray.io.utils", "_parse_grid_type")
        name = fmt.concrete()
        ds = symxr.Dataset()
        kind, nm = MARK[name]
        if kind == "var":
            ds[nm] = symxr.DataArray(symnp.array([1.0, 2.0]), dims=["d0"])
        else:
            ds["someConn"] = symxr.DataArray(symnp.array([[1, 2, 3]]), dims=["elementCount", nm])
        # arbitrary other names that are no format's marker
        for i, (e, other) in enumerate(zip(extra, ["temperature", "lat", "time_bnds"])):
            if e:
                ds[other] = symxr.DataArray(symnp.array([0.0, 1.0]), dims=[f"x{i}"])
        ctx.prove("a source carrying one format's marker and arbitrary other variables is dispatched to that format's reader", f(ds) == name)

    def replay(v):
        import xarray as xr
        from uxarray.io.utils import _parse_grid_type
        name = ORDER[v["format"]]
        ds = xr.Dataset()
        kind, nm = MARK[name]
        if kind == "var":
            ds[nm] = xr.DataArray(np.array([1.0, 2.0]), dims=["d0"])
        else:
            ds["someConn"] = xr.DataArray(np.array([[1, 2, 3]]), dims=["elementCount", nm])
        for i, other in enumerate(["temperature", "lat", "time_bnds"]):
            if v[f"extra_{i}"]:
                ds[other] = xr.DataArray(np.array([0.0, 1.0]), dims=[f"x{i}"])
        got = _parse_grid_type(ds)
        return None if got == name else f"dataset with the {name} marker sniffed as {got}"

    return Obligation(oid, "format sniffing: marker variable/dimension decides the reader", setup, run, replay, exact=True,
                      functions=["io.utils._parse_grid_type", "_ugrid._is_ugrid"], bounds="5 formats x 8 subsets of unrelated variables", max_paths=200)


def obligations(tier):
    obs = [make_topo(f"C01.topo.{c}", c) for c in ("none", "minus1", "std", "big", "zero")]
    for si in ("absent", "0", "1"):
        for fc, dt in (("minus1", "int64"), ("std", "int64"), ("big", "int32"), ("absent", "int32"), ("minus1", "float64"), ("nan", "float64")):
            quick = (si, fc, dt) in [("absent", "minus1", "int64"), ("1", "std", "int64"), ("1", "big", "int32"), ("0", "absent", "int32"), ("1", "nan", "float64"),
                                     ("0", "minus1", "float64"), ("1", "minus1", "int64"), ("0", "std", "int64")]
            obs.append(make_ugrid(f"C01.ugrid.si_{si}.fill_{fc}.{dt}", si, fc, dt, tiers=("quick", "thorough") if quick else ("thorough",)))
    obs += [make_ugrid("C01.ugrid.square3.si_0.fill_std", "0", "std", "int64", shape=(3, 3, 5), topo_dims=True),
            make_ugrid("C01.ugrid.square4.si_1.fill_minus1", "1", "minus1", "int32", shape=(4, 4, 6), topo_dims=True)]
    obs += [make_esmf(f"C01.esmf.si_{si}", si) for si in ("absent", "0", "1")]
    obs += [make_esmf(f"C01.esmf.si_{si}.int64", si, dtype="int64") for si in ("absent", "1")]
    obs += [make_mpas("C01.mpas.primal", False), make_mpas("C01.mpas.dual", True),
            make_mpas("C01.mpas.primal.int64", False, int_dtype="int64"), make_mpas("C01.mpas.dual.int64", True, int_dtype="int64")]
    obs += [make_exodus("C01.exodus.coord", "coord"), make_exodus("C01.exodus.coordxyz", "coordxyz"),
            make_exodus_blocks("C01.exodus.blocks.tri_quad", False), make_exodus_blocks("C01.exodus.blocks.quad_tri", True),
            make_icon("C01.icon"), make_geos("C01.geos"),
            make_face_vertices("C01.vertices.q4t3", sizes=[4, 3]), make_face_vertices("C01.vertices", tiers=("thorough",), cost=40),
            make_scrip("C01.scrip.180.q4t3", "180", sizes=[4, 3]), make_scrip("C01.scrip.360.t3q4", "360", sizes=[3, 4], tiers=("thorough",), cost=30),
            make_scrip("C01.scrip.180", "180", tiers=("thorough",), cost=40), make_scrip("C01.scrip.360", "360", tiers=("thorough",), cost=100)]
    obs += [make_fill(f"C01.fill.{dt}.{fk}", dt, fk) for dt, fk in (("int64", "value"), ("int32", "value"), ("float64", "value"), ("int32", "none"))]
    obs += [make_sniff("C01.sniff")]
    obs += [make_geo("C01.geo.polys", "polys"), make_geo("C01.geo.multi2", "multi2"), make_geo("C01.geo.multi2.360", "multi2", lon_range="360"),
            make_geo("C01.geo.multi3.shp.nocrs", "multi3", crs_set=False, ext=".shp"), make_geo("C01.geo.multi22", "multi22", tiers=("thorough",))]
    for o in obs:
        o.replay = _catching(o.replay)
    return [o for o in obs if tier in o.tiers]


def _catching(replay):
    def wrapped(v):
        try:
            return replay(v)
        except _SourceChanged as e:
            return str(e)
    return wrapped
