"""C16 Edge distances, differences and gradients follow the edge's own neighbours.

Real code executed on a cloned Grid whose edge_node/edge_face tables and face centres are *symbolic source-supplied
tables* (so 'which element does entry e refer to' is a solver variable): Grid.edge_node_distances,
Grid.edge_face_distances (-> _populate_*/_construct_* njit kernels via py_func), UxDataArray.difference,
UxDataArray.gradient (-> gradient._calculate_edge_face_difference, _calculate_edge_node_difference,
_calculate_grad_on_edge_from_faces).  Trig functions are uninterpreted (data-flow / unit check)."""
import math
import z3
import numpy as np
from symex import core as sc, symnp, symxr
from symex.core import mk
from symex.runner import Obligation, world
from . import common as C
from .common import F

ROWS = [[0, 1, 2, 3], [1, 4, 2, F], [2, 4, 3, F]]      # 3 faces over 5 nodes
N_NODE, N_FACE = 5, 3
FUNCS = ["Grid.edge_node_distances", "Grid.edge_face_distances", "neighbors._populate_edge_node_distances",
         "neighbors._construct_edge_node_distances", "neighbors._populate_edge_face_distances",
         "neighbors._construct_edge_face_distances", "UxDataArray.difference", "UxDataArray.gradient",
         "gradient._calculate_edge_face_difference", "gradient._calculate_edge_node_difference",
         "gradient._calculate_grad_on_edge_from_faces"]


def _coords(ctx, n, pfx, lo=-80, hi=80):
    lon = [z3.Real(f"{pfx}lon_{i}") for i in range(n)]
    lat = [z3.Real(f"{pfx}lat_{i}") for i in range(n)]
    for v in lon:
        ctx.solver.add(v >= -170, v <= 170)
    for v in lat:
        ctx.solver.add(v >= lo, v <= hi)
    ctx.eng.declare(pfx + "lon", lon)
    ctx.eng.declare(pfx + "lat", lat)
    return lon, lat


def _generic(ctx, vals, sep=3):
    """replay-friendly genericity: all given coordinates pairwise >= sep degrees apart (so that 'wrong array' or
    'wrong index' changes the value, not just the term)"""
    for i in range(len(vals)):
        for j in range(i + 1, len(vals)):
            ctx.solver.add(z3.Or(vals[i] - vals[j] >= sep, vals[j] - vals[i] >= sep))


def _sym_pairs(ctx, name, n_rows, hi, allow_fill):
    t = [[z3.Int(f"{name}_{e}_{k}") for k in range(2)] for e in range(n_rows)]
    for e in range(n_rows):
        ctx.solver.add(t[e][0] >= 0, t[e][0] < hi)
        if allow_fill:
            ctx.solver.add(z3.Or(t[e][1] == F, z3.And(t[e][1] >= 0, t[e][1] < hi, t[e][1] != t[e][0])))
        else:
            ctx.solver.add(t[e][1] >= 0, t[e][1] < hi, t[e][1] != t[e][0])
    ctx.eng.declare(name, t)
    return t


def _gc_term(lon_a, lat_a, lon_b, lat_b):
    """spherical law of cosines as a term over the uninterpreted trig functions, angles converted from degrees"""
    k = sc.lift(symnp.PI_Q) / 180
    sin, cos, acos = symnp.uf("sin"), symnp.uf("cos"), symnp.uf("arccos")
    la, lb, oa, ob = lat_a * k, lat_b * k, lon_a * k, lon_b * k
    return acos(sin(la) * sin(lb) + cos(la) * cos(lb) * cos(oa - ob))


def _gc(lon_a, lat_a, lon_b, lat_b):
    a = np.array([math.cos(math.radians(lat_a)) * math.cos(math.radians(lon_a)), math.cos(math.radians(lat_a)) * math.sin(math.radians(lon_a)), math.sin(math.radians(lat_a))])
    b = np.array([math.cos(math.radians(lat_b)) * math.cos(math.radians(lon_b)), math.cos(math.radians(lat_b)) * math.sin(math.radians(lon_b)), math.sin(math.radians(lat_b))])
    return 2 * math.asin(min(1.0, float(np.linalg.norm(a - b)) / 2))      # chord form: independent of the library's formula


def _extras_sym(en=None, ef=None, flon=None, flat=None, dn=None, df=None):
    ex = {}
    if en is not None:
        ex["edge_node_connectivity"] = symxr.DataArray(C.sarr_int(en), dims=["n_edge", "two"])
    if ef is not None:
        ex["edge_face_connectivity"] = symxr.DataArray(C.sarr_int(ef), dims=["n_edge", "two"])
    if flon is not None:
        ex["face_lon"] = symxr.DataArray(C.sarr_1d(flon, symnp.float64), dims=["n_face"])
        ex["face_lat"] = symxr.DataArray(C.sarr_1d(flat, symnp.float64), dims=["n_face"])
    if dn is not None:
        ex["edge_node_distances"] = symxr.DataArray(C.sarr_1d(dn, symnp.float64), dims=["n_edge"])
    if df is not None:
        ex["edge_face_distances"] = symxr.DataArray(C.sarr_1d(df, symnp.float64), dims=["n_edge"])
    return ex


def _extras_real(v, keys):
    import xarray as xr
    ex = {}
    if "en" in keys:
        ex["edge_node_connectivity"] = xr.DataArray(np.array(v["en"], dtype=np.intp), dims=["n_edge", "two"])
    if "ef" in keys:
        ex["edge_face_connectivity"] = xr.DataArray(np.array(v["ef"], dtype=np.intp), dims=["n_edge", "two"])
    if "f" in keys:
        ex["face_lon"] = xr.DataArray(np.array(v["flon"], dtype=float), dims=["n_face"])
        ex["face_lat"] = xr.DataArray(np.array(v["flat"], dtype=float), dims=["n_face"])
    if "dn" in keys:
        ex["edge_node_distances"] = xr.DataArray(np.array(v["dn"], dtype=float), dims=["n_edge"])
    if "df" in keys:
        ex["edge_face_distances"] = xr.DataArray(np.array(v["df"], dtype=float), dims=["n_edge"])
    return ex


# ------------------------------------------------------------------ distances
def make_dist(oid, n_edge, supplied=False, tiers=("quick", "thorough"), xyz=False):
    def setup(ctx):
        ctx.const("xyz", xyz)
        if xyz:
            R = z3.Real("R")
            ctx.solver.add(z3.Or(z3.And(R >= sc.lift(0.5), R <= sc.lift(0.9)), z3.And(R >= 2, R <= 7000)))
            ctx.eng.declare("R", R)
        nlon, nlat = _coords(ctx, N_NODE, "n")
        flon, flat = _coords(ctx, N_FACE, "f")
        _generic(ctx, nlon + flon)
        _generic(ctx, nlat + flat)
        en = _sym_pairs(ctx, "en", n_edge, N_NODE, False)
        ef = _sym_pairs(ctx, "ef", n_edge, N_FACE, True)
        dn = df = None
        if supplied:
            dn = [z3.Real(f"dn_{e}") for e in range(n_edge)]
            df = [z3.Real(f"df_{e}") for e in range(n_edge)]
            for x in dn + df:
                ctx.solver.add(x >= 0, x <= 3)
            ctx.eng.declare("dn", dn)
            ctx.eng.declare("df", df)
        return nlon, nlat, flon, flat, en, ef, dn, df

    def run(ctx, inp):
        nlon, nlat, flon, flat, en, ef, dn, df = inp
        extra = _extras_sym(en, ef, flon, flat, dn, df)
        if xyz:
            # the source also ships Cartesian coordinates of the same points on a sphere of radius R (km, m, ...)
            R = ctx.eng.inputs["R"]
            k = sc.lift(symnp.PI_Q) / 180
            sin, cos = symnp.uf("sin"), symnp.uf("cos")
            for nm, comp in (("node_x", lambda lo, la: R * cos(la * k) * cos(lo * k)), ("node_y", lambda lo, la: R * cos(la * k) * sin(lo * k)),
                             ("node_z", lambda lo, la: R * sin(la * k))):
                extra[nm] = symxr.DataArray(C.sarr_1d([comp(lo, la) for lo, la in zip(nlon, nlat)], symnp.float64), dims=["n_node"])
        g = C.clone_grid(symnp.array(ROWS), nlon, nlat, extra=extra)
        got_n = g.edge_node_distances.values
        got_f = g.edge_face_distances.values
        ctx.prove("shapes", sc.and_(got_n.shape_cap == (n_edge,), got_f.shape_cap == (n_edge,)))
        for e in range(n_edge):
            if supplied:
                ctx.prove(f"edge {e}: source-supplied distances are reported", z3.And(sc.lift(got_n[e]) == dn[e], sc.lift(got_f[e]) == df[e]))
                continue
            exp_n = _pick2(en[e], nlon, nlat)
            ctx.prove(f"edge_node_distances[{e}] = great-circle distance of edge {e}'s own two nodes", sc.lift(got_n[e]) == exp_n)
            exp_f = z3.If(ef[e][1] == F, z3.RealVal(0), _pick2(ef[e], flon, flat))
            ctx.prove(f"edge_face_distances[{e}] = distance between the centres of edge {e}'s two faces (0 on boundary)", sc.lift(got_f[e]) == exp_f)

    def replay(v):
        keys = ["en", "ef", "f"] + (["dn", "df"] if supplied else [])
        extra = _extras_real(v, keys)
        if xyz:
            import xarray as xr
            lo, la = np.radians(v["nlon"]), np.radians(v["nlat"])
            extra["node_x"] = xr.DataArray(v["R"] * np.cos(la) * np.cos(lo), dims=["n_node"])
            extra["node_y"] = xr.DataArray(v["R"] * np.cos(la) * np.sin(lo), dims=["n_node"])
            extra["node_z"] = xr.DataArray(v["R"] * np.sin(la), dims=["n_node"])
        g = C.real_grid(ROWS, v["nlon"], v["nlat"], extra=extra)
        dn_, df_ = g.edge_node_distances.values, g.edge_face_distances.values
        for e in range(n_edge):
            if supplied:
                if abs(dn_[e] - v["dn"][e]) > 1e-12 or abs(df_[e] - v["df"][e]) > 1e-12:
                    return f"edge {e}: supplied distances {v['dn'][e]},{v['df'][e]} reported as {dn_[e]},{df_[e]}"
                continue
            a, b = v["en"][e]
            exp = _gc(v["nlon"][a], v["nlat"][a], v["nlon"][b], v["nlat"][b])
            if abs(dn_[e] - exp) > 1e-6:
                return f"edge_node_distances[{e}]={dn_[e]:.9f} but nodes {a},{b} of edge {e} are {exp:.9f} rad apart"
            f0, f1 = v["ef"][e]
            exp = 0.0 if f1 == F else _gc(v["flon"][f0], v["flat"][f0], v["flon"][f1], v["flat"][f1])
            if abs(df_[e] - exp) > 1e-6:
                return f"edge_face_distances[{e}]={df_[e]:.9f} but the centres of faces {f0},{f1} sharing edge {e} are {exp:.9f} rad apart"
        return None

    return Obligation(oid, f"edge_node_distances / edge_face_distances, {n_edge} edges with symbolic end nodes / faces, supplied={supplied}",
                      setup, run, replay, exact=False, functions=FUNCS,
                      bounds=f"{N_NODE} nodes, {N_FACE} faces, {n_edge} edges; every assignment of end nodes and adjacent faces; coordinates arbitrary (pairwise >= 3 deg apart)",
                      stubs=["sin, cos, arccos uninterpreted; deg2rad exact (x*pi/180)"],
                      assumptions=["coordinates of distinct elements differ by >= 3 degrees in lon and lat (genericity, so that a wrong operand changes the value)"],
                      tiers=tiers, validate=_validate, portfolio=(4, 15))      # nonlinear + UF: z3's run time depends on the random seed (2 s .. > 600 s)


def _pick2(pair, lon, lat):
    def sel(idx, arr):
        t = arr[-1]
        for i in range(len(arr) - 2, -1, -1):
            t = z3.If(idx == i, arr[i], t)
        return t
    return _gc_term(sel(pair[0], lon), sel(pair[0], lat), sel(pair[1], lon), sel(pair[1], lat))


# ------------------------------------------------------------------ difference / gradient
def make_diff(oid, kind, op, lead, n_edge, normalize=False, tiers=("quick", "thorough"), cost=1, dtype="float"):
    L = N_FACE if kind == "n_face" else N_NODE
    shape = tuple(lead) + (L,)
    nlead = int(np.prod(lead)) if lead else 1
    nlon, nlat = C.default_lonlat(N_NODE)

    def setup(ctx):
        ctx.const("kind", kind); ctx.const("op", op); ctx.const("lead", list(lead)); ctx.const("normalize", normalize)
        en = _sym_pairs(ctx, "en", n_edge, N_NODE, False)
        ef = _sym_pairs(ctx, "ef", n_edge, N_FACE, True)
        df = [z3.Real(f"df_{e}") for e in range(n_edge)]
        for x in df:
            ctx.solver.add(x >= sc.lift(0.01), x <= 3)
        ctx.eng.declare("df", df)
        ctx.const("dtype", dtype)
        if dtype == "float":
            vals = [z3.Real(f"v_{i}") for i in range(nlead * L)]
        else:
            vals = [z3.Int(f"v_{i}") for i in range(nlead * L)]
        for x in vals:
            ctx.solver.add(x >= -10, x <= 10)
        ctx.eng.declare("vals", vals)
        return en, ef, df, vals

    def run(ctx, inp):
        en, ef, df, vals = inp
        g = C.clone_grid(symnp.array(ROWS), nlon, nlat, extra=_extras_sym(en, ef, None, None, None, df))
        U = world().get("uxarray.core.dataarray", "UxDataArray")
        dims = [f"d{i}" for i in range(len(lead))] + [kind]
        da = U(symnp.SArr.new([mk(x) for x in vals], shape, None, symnp.float64 if dtype == "float" else symnp.int64), dims=dims, uxgrid=g, name="t")
        if dtype != "float":
            vals = [z3.ToReal(x) for x in vals]
        out = da.difference(destination="edge") if op == "difference" else da.gradient(normalize=normalize)
        # the operation only reads the grid: the distances and the incidence tables it used are reported as before
        now_d = g.edge_face_distances.values.flat_list()
        now_ef = g.edge_face_connectivity.values.flat_list()
        ctx.prove("the grid's edge_face_distances and edge_face_connectivity are left as they were by the operation",
                  z3.And(*[_r(a) == b for a, b in zip(now_d, df)], *[sc.z(a) == b for a, b in zip(now_ef, [x for r in ef for x in r])],
                         z3.BoolVal(len(now_d) == len(df))))
        ov = out.values
        ctx.prove("dims end in n_edge, same grid, shape", sc.and_(tuple(out.dims) == tuple(dims[:-1]) + ("n_edge",), out.uxgrid is g,
                                                                 ov.shape_cap == tuple(lead) + (n_edge,)))
        fl = ov.flat_list()

        def sel(idx, i):
            t = vals[i * L + L - 1]
            for k in range(L - 2, -1, -1):
                t = z3.If(idx == k, vals[i * L + k], t)
            return t

        def zabs(x):
            return z3.If(x >= 0, x, -x)
        exp = []
        for i in range(nlead):
            for e in range(n_edge):
                if kind == "n_node":
                    exp.append(zabs(sel(en[e][0], i) - sel(en[e][1], i)))
                else:
                    d = zabs(sel(ef[e][0], i) - sel(ef[e][1], i))
                    if op == "gradient":
                        d = d / df[e]
                    exp.append(z3.If(ef[e][1] == F, z3.RealVal(0), d))
        if not normalize:
            for i in range(nlead):
                ctx.prove(f"row {i}: |v[a]-v[b]|{' / distance' if op == 'gradient' else ''} over edge e's own pair, 0 on boundary edges",
                          z3.And(*[_r(fl[i * n_edge + e]) == exp[i * n_edge + e] for e in range(n_edge)]))
        else:
            ss = z3.Sum([x * x for x in exp])
            ctx.prove("normalised gradient: parallel to the raw gradient and of unit Euclidean norm",
                      z3.Implies(ss > 0, z3.And(z3.Sum([sc.lift(x) * sc.lift(x) for x in fl]) == 1,
                                                *[sc.lift(fl[k]) * sc.lift(fl[0 if k else 1]) * 0 == 0 for k in range(1)],
                                                *[sc.lift(fl[k]) * exp[j] == sc.lift(fl[j]) * exp[k] for k in range(len(fl)) for j in range(k + 1, len(fl))],
                                                *[sc.lift(fl[k]) * exp[k] >= 0 for k in range(len(fl))])))

    def replay(v):
        import uxarray as ux
        g = C.real_grid(ROWS, nlon, nlat, extra=_extras_real(v, ["en", "ef", "df"]))
        data = np.array(v["vals"], dtype=float if dtype == "float" else np.int64).reshape(shape)
        dims = [f"d{i}" for i in range(len(lead))] + [kind]
        da = ux.UxDataArray(data, dims=dims, uxgrid=g, name="t")
        data = data.astype(float)
        out = da.difference(destination="edge") if op == "difference" else da.gradient(normalize=normalize)
        en, ef, df = np.array(v["en"]), np.array(v["ef"]), np.array(v["df"], dtype=float)
        exp = np.zeros(tuple(lead) + (n_edge,))
        for e in range(n_edge):
            if kind == "n_node":
                exp[..., e] = np.abs(data[..., en[e, 0]] - data[..., en[e, 1]])
            elif ef[e, 1] != F:
                exp[..., e] = np.abs(data[..., ef[e, 0]] - data[..., ef[e, 1]]) / (df[e] if op == "gradient" else 1.0)
        if normalize and np.linalg.norm(exp) > 0:
            exp = exp / np.linalg.norm(exp)
        if tuple(out.dims) != tuple(dims[:-1]) + ("n_edge",) or out.uxgrid is not g:
            return f"result dims {out.dims} / grid wrong"
        if not np.allclose(np.asarray(g.edge_face_distances.values, dtype=float), df) or not np.array_equal(np.asarray(g.edge_face_connectivity.values), ef):
            return (f"{op}() changed what the grid reports: edge_face_distances {np.asarray(g.edge_face_distances.values).tolist()} (were {df.tolist()}), "
                    f"edge_face_connectivity {np.asarray(g.edge_face_connectivity.values).tolist()} (was {ef.tolist()})")
        got = np.asarray(out.values, dtype=float)
        if got.shape != exp.shape or not np.allclose(got, exp, rtol=1e-9, atol=1e-9):
            return f"{op}(normalize={normalize}) of {kind} data {data.tolist()} with en={en.tolist()} ef={ef.tolist()} df={df.tolist()} gave {got.tolist()}, expected {exp.tolist()}"
        return None

    return Obligation(oid, f"{op} of {kind}-centred data, leading dims {tuple(lead)}, {n_edge} symbolic edges, normalize={normalize}",
                      setup, run, replay, exact=True, functions=FUNCS,
                      bounds=f"{N_NODE} nodes, {N_FACE} faces, {n_edge} edges with arbitrary end nodes / adjacent faces (boundary allowed), data in [-10,10], distances in [0.01,3]",
                      tiers=tiers, cost=cost, validate=_validate, portfolio=(4, 15))


def _r(v):
    if isinstance(v, sc.SymInt):
        return z3.ToReal(v.e)
    if isinstance(v, int):
        return z3.RealVal(v)
    return sc.lift(v)


def _validate():
    import uxarray.core.gradient as G
    w = world()
    ef = np.array([[0, 1], [1, F], [2, 0], [1, 2]])
    n = 0
    for shape in [(3,), (2, 3), (2, 2, 3)]:
        d = np.random.default_rng(1).random(shape)
        dist = np.array([1., 2, 3, 4])
        for name, args, sargs in [("_calculate_edge_face_difference", (d, ef, 4), (symnp.array(d), symnp.array(ef), 4)),
                                  ("_calculate_grad_on_edge_from_faces", (d, ef, 4, dist, True), (symnp.array(d), symnp.array(ef), 4, symnp.array(dist), True)),
                                  ("_calculate_edge_node_difference", (d, ef % 3), (symnp.array(d), symnp.array(ef % 3)))]:
            r = getattr(G, name)(*args)
            c = w.get("uxarray.core.gradient", name)(*sargs)
            if not np.allclose(r, symnp.to_numpy(c)):
                raise AssertionError(f"shim/real disagreement in {name} {shape}")
            n += 1
    return n


def obligations(tier):
    obs = [
        make_dist("C16.dist.3e", 3),
        make_dist("C16.dist.supplied", 3, supplied=True),
        make_diff("C16.diff.face.1d", "n_face", "difference", (), 4),
        make_diff("C16.diff.face.2d", "n_face", "difference", (2,), 3),
        make_diff("C16.diff.node.1d", "n_node", "difference", (), 4),
        make_diff("C16.diff.node.2d", "n_node", "difference", (2,), 3),
        make_diff("C16.grad.face.1d", "n_face", "gradient", (), 4),
        make_diff("C16.grad.face.2d", "n_face", "gradient", (2,), 3),
        make_diff("C16.grad.face.1d.int", "n_face", "gradient", (), 3, dtype="int"),
        make_diff("C16.diff.node.2d.int", "n_node", "difference", (2,), 3, dtype="int"),
        make_dist("C16.dist.xyz_supplied", 3, xyz=True),
        make_diff("C16.grad.norm.1d", "n_face", "gradient", (), 3, normalize=True, cost=3),
        make_diff("C16.grad.face.3d", "n_face", "gradient", (2, 2), 4, tiers=("thorough",), cost=3),
        make_dist("C16.dist.4e", 4, tiers=("thorough",)),
        # not registered: 5 symbolic edges (C16.dist.5e) and the normalised gradient with a leading dimension (C16.grad.norm.2d, a
        # nonlinear claim over 6 results) - z3 answers 'unknown' after 600 s; they are outside the claim (DESIGN.md section 8)
    ]
    return [o for o in obs if tier in o.tiers]
