"""C04 Spherical and Cartesian coordinates always denote the same points  (DESIGN.md section 2, C04).

Real code executed through the cloned Grid's coordinate properties (node_*/edge_*/face_* lon, lat, x, y, z),
Grid.normalize_cartesian_coordinates and the helpers underneath (coordinates._populate_node_latlon/_populate_node_xyz,
_populate_face_centroids, _populate_edge_centroids, _construct_*_centroids, _xyz_to_lonlat_*, _lonlat_rad_to_xyz,
_normalize_xyz, _set_desired_longitude_range, validation._check_normalization), for every provenance combination and
several first-access orders.  Trig functions are uninterpreted with the axioms listed per obligation; deg<->rad is exact."""
import math
import itertools
import z3
import numpy as np
from symex import core as sc, symnp, symxr
from symex.core import mk
from symex.runner import Obligation, world
from . import common as C
from .common import F

K = None
ROWS = [[0, 1, 2, 3], [1, 4, 2, F]]           # 2 faces (quad + triangle) over 5 nodes; edges are derived by the real code
N_NODE, N_FACE = 5, 2
TOL = 1e-8
FUNCS = ["Grid.node_lon/lat/x/y/z", "Grid.edge_lon/lat/x/y/z", "Grid.face_lon/lat/x/y/z", "coordinates._populate_node_latlon",
         "coordinates._populate_node_xyz", "coordinates._populate_face_centroids", "coordinates._construct_face_centroids",
         "coordinates._populate_edge_centroids", "coordinates._construct_edge_centroids", "coordinates._xyz_to_lonlat_rad",
         "coordinates._xyz_to_lonlat_deg", "coordinates._lonlat_rad_to_xyz", "coordinates._normalize_xyz",
         "coordinates._set_desired_longitude_range", "Grid.normalize_cartesian_coordinates", "validation._check_normalization"]


def _k():
    return sc.lift(symnp.PI_Q) / 180


def _unit(lon, lat):
    k = _k()
    sin, cos = symnp.uf("sin"), symnp.uf("cos")
    return (sc.zmul(cos(lon * k), cos(lat * k)), sc.zmul(sin(lon * k), cos(lat * k)), sin(lat * k))


def _zr(v):
    v = sc.z(v)
    return z3.ToReal(v) if z3.is_int(v) else v


def _vals(da):
    return [_zr(v) for v in da.values.flat_list()]


def _axioms_range(ctx):
    """range axioms for every inverse-trig application recorded on this path: arctan2 in (-pi, pi], arcsin in [-pi/2, pi/2]"""
    pi = sc.lift(symnp.PI_Q)
    for name, arg, t in list(symnp.TRIG_LOG):
        if name == "arctan2":
            ctx.solver.add(t > -pi, t <= pi)
        elif name == "arcsin":
            ctx.solver.add(t >= -pi / 2, t <= pi / 2)


def _pythagoras(ctx):
    seen = set()
    sin, cos = symnp.uf("sin"), symnp.uf("cos")
    for name, arg, t in list(symnp.TRIG_LOG):
        if name in ("sin", "cos") and arg.get_id() not in seen:
            seen.add(arg.get_id())
            ctx.solver.add(sin(arg) * sin(arg) + cos(arg) * cos(arg) == 1)


def _real_unit(lon, lat):
    lo, la = np.radians(np.asarray(lon, dtype=float)), np.radians(np.asarray(lat, dtype=float))
    return np.cos(lo) * np.cos(la), np.sin(lo) * np.cos(la), np.sin(la)


def _same_point(lon, lat, x, y, z, tol=1e-6):
    """concrete oracle: (lon,lat) in degrees and (x,y,z) denote the same direction"""
    ux, uy, uz = _real_unit(lon, lat)
    n = np.sqrt(np.asarray(x) ** 2 + np.asarray(y) ** 2 + np.asarray(z) ** 2)
    d = np.sqrt((ux - x / n) ** 2 + (uy - y / n) ** 2 + (uz - z / n) ** 2)
    return bool(np.all(d <= tol)), float(np.max(d))


# ------------------------------------------------------------------ lon/lat-only source: derived xyz, centres, ranges
ORDERS = {
    "xyz_first": ["node_x", "face_x", "edge_x", "face_lon", "edge_lon", "face_lat", "edge_lat", "node_lon"],
    "lonlat_first": ["face_lon", "edge_lat", "face_x", "edge_x", "node_z", "face_lat", "edge_lon"],
    "edges_first": ["edge_y", "edge_lon", "face_z", "face_lat", "node_y", "face_lon", "edge_lat"],
}


def make_lonlat(oid, order, lon_hi=180, centres=None, tiers=("quick", "thorough"), cost=2, edge_centres=None):
    """source supplies node lon/lat (longitudes possibly in 0..360) and optionally face centres (and edge centres + edge table) as lon/lat"""
    _, EDGES = C.ref_edges(ROWS)
    EDGES = sorted(sorted(p) for p in EDGES)

    def setup(ctx):
        ctx.const("order", order); ctx.const("lon_hi", lon_hi); ctx.const("centres", centres)
        lon = [z3.Real(f"lon_{i}") for i in range(N_NODE)]
        lat = [z3.Real(f"lat_{i}") for i in range(N_NODE)]
        for v in lon:
            ctx.solver.add(v >= (0 if lon_hi == 360 else -180), v <= lon_hi)
        for v in lat:
            ctx.solver.add(v >= -90, v <= 90)
        ctx.eng.declare("lon", lon); ctx.eng.declare("lat", lat)
        flon = flat = None
        if centres:
            flon = [z3.Real(f"flon_{i}") for i in range(N_FACE)]
            flat = [z3.Real(f"flat_{i}") for i in range(N_FACE)]
            for v in flon:
                ctx.solver.add(v >= (0 if centres == "360" else -180), v <= (360 if centres == "360" else 180))
            for v in flat:
                ctx.solver.add(v >= -90, v <= 90)
            ctx.eng.declare("flon", flon); ctx.eng.declare("flat", flat)
        if edge_centres:
            elon = [z3.Real(f"elon_{i}") for i in range(len(EDGES))]
            elat = [z3.Real(f"elat_{i}") for i in range(len(EDGES))]
            for v in elon:
                ctx.solver.add(v >= (0 if edge_centres == "360" else -180), v <= (360 if edge_centres == "360" else 180))
            for v in elat:
                ctx.solver.add(v >= -90, v <= 90)
            ctx.eng.declare("elon", elon); ctx.eng.declare("elat", elat)
            ctx.const("edge_centres", edge_centres)
            EL[0] = (elon, elat)
        return lon, lat, flon, flat

    EL = [None]

    def build(lon, lat, flon, flat, cl, el=None):
        vars_ = {"node_lon": (["n_node"], lon), "node_lat": (["n_node"], lat),
                 "face_node_connectivity": (["n_face", "n_max_face_nodes"], ROWS, C.FN_ATTRS)}
        if flon is not None:
            vars_["face_lon"] = (["n_face"], flon)
            vars_["face_lat"] = (["n_face"], flat)
        if el is not None:
            vars_["edge_node_connectivity"] = (["n_edge", "two"], EDGES, {"cf_role": "edge_node_connectivity", "_FillValue": C.F, "start_index": 0})
            vars_["edge_lon"] = (["n_edge"], el[0])
            vars_["edge_lat"] = (["n_edge"], el[1])
        return cl(vars_)

    def run(ctx, inp):
        lon, lat, flon, flat = inp
        symnp.SQRT_MODE[0] = "uf"
        sc.NL_UF[0] = True
        sc.MOD_MODE[0] = "witness"          # the functional form of the longitude wrap makes these queries 40x slower (and erratic)
        try:
            g = build(lon, lat, flon, flat, C.clone_grid_from, EL[0] if edge_centres else None)
            for name in ORDERS[order]:
                getattr(g, name)
            got = {n: _vals(getattr(g, n)) for n in ("node_lon", "node_lat", "node_x", "node_y", "node_z", "face_lon", "face_lat", "face_x", "face_y", "face_z",
                                                     "edge_lon", "edge_lat", "edge_x", "edge_y", "edge_z")}
            en = g.edge_node_connectivity.values
        finally:
            symnp.SQRT_MODE[0] = "witness"
        _axioms_range(ctx)
        # reported node longitudes: same direction (equal mod 360) and in range; latitudes untouched
        cl = []
        for i in range(N_NODE):
            cl.append(z3.And(got["node_lon"][i] >= -180, got["node_lon"][i] <= 180, got["node_lat"][i] == lat[i],
                             z3.Or(got["node_lon"][i] == lon[i], got["node_lon"][i] == lon[i] - 360, got["node_lon"][i] == lon[i] + 360)))
        ctx.prove("node lon reported in [-180,180], congruent mod 360 to the source, lat unchanged", z3.And(*cl))
        # derived node xyz = unit vector of the reported lon/lat (one deg->rad conversion between degrees and cos/sin)
        cl = []
        for i in range(N_NODE):
            ux = _unit(got["node_lon"][i], got["node_lat"][i])
            cl.append(z3.And(got["node_x"][i] == ux[0], got["node_y"][i] == ux[1], got["node_z"][i] == ux[2]))
        ctx.prove("node_x/y/z = (cos lon cos lat, sin lon cos lat, sin lat) of the reported degrees", z3.And(*cl))
        sq = symnp.uf("sqrt")
        # face centres
        if flon is None:
            cl = []
            for f, row in enumerate(ROWS):
                c = C.face_corners(row)
                m = [z3.Sum([got[a][i] for i in c]) / len(c) for a in ("node_x", "node_y", "node_z")]
                nrm = sq(sc.zmul(m[0], m[0]) + sc.zmul(m[1], m[1]) + sc.zmul(m[2], m[2]))
                cl.append(z3.And(got["face_x"][f] == sc.zdiv(m[0], nrm), got["face_y"][f] == sc.zdiv(m[1], nrm), got["face_z"][f] == sc.zdiv(m[2], nrm)))
            ctx.prove("face centre not supplied: normalised mean of the face's own corner unit vectors (padding never contributes)", z3.And(*cl))
            _prove_lonlat_of_xyz(ctx, "face", got, N_FACE)
        else:
            cl = []
            for f in range(N_FACE):
                cl.append(z3.And(got["face_lon"][f] >= -180, got["face_lon"][f] <= 180, got["face_lat"][f] == flat[f],
                                 z3.Or(got["face_lon"][f] == flon[f], got["face_lon"][f] == flon[f] - 360, got["face_lon"][f] == flon[f] + 360)))
                ux = _unit(got["face_lon"][f], got["face_lat"][f])
                cl.append(z3.And(got["face_x"][f] == ux[0], got["face_y"][f] == ux[1], got["face_z"][f] == ux[2]))
            ctx.prove("face centre supplied as lon/lat: reported in range, and face_x/y/z is the unit vector of those degrees", z3.And(*cl),
                      regions={"supplied_centre_degrees_as_radians": True})
        if edge_centres:
            elon, elat = EL[0]
            cl = []
            for e in range(len(EDGES)):
                cl.append(z3.And(got["edge_lon"][e] >= -180, got["edge_lon"][e] <= 180, got["edge_lat"][e] == elat[e],
                                 z3.Or(got["edge_lon"][e] == elon[e], got["edge_lon"][e] == elon[e] - 360, got["edge_lon"][e] == elon[e] + 360)))
                ux = _unit(got["edge_lon"][e], got["edge_lat"][e])
                cl.append(z3.And(got["edge_x"][e] == ux[0], got["edge_y"][e] == ux[1], got["edge_z"][e] == ux[2]))
            ctx.prove("edge centre supplied as lon/lat: reported in range, and edge_x/y/z is the unit vector of those degrees", z3.And(*cl))
            return
        # edge centres: arc midpoint = normalised mean of the two end nodes
        n_edge = en.shape_cap[0]
        cl = []
        for e in range(n_edge):
            a, b = int(en.raw()[e, 0]), int(en.raw()[e, 1])
            m = [(got[ax][a] + got[ax][b]) / 2 for ax in ("node_x", "node_y", "node_z")]
            nrm = sq(sc.zmul(m[0], m[0]) + sc.zmul(m[1], m[1]) + sc.zmul(m[2], m[2]))
            cl.append(z3.And(got["edge_x"][e] == sc.zdiv(m[0], nrm), got["edge_y"][e] == sc.zdiv(m[1], nrm), got["edge_z"][e] == sc.zdiv(m[2], nrm)))
        ctx.prove("edge centre = normalised mean of its two end-node unit vectors", z3.And(*cl))
        _prove_lonlat_of_xyz(ctx, "edge", got, n_edge)

    def replay(v):
        g = build(v["lon"], v["lat"], v.get("flon"), v.get("flat"), C.real_grid_from, (v["elon"], v["elat"]) if edge_centres else None)
        for name in ORDERS[order]:
            getattr(g, name)
        bad = []
        for kind in ("node", "face", "edge"):
            lo, la = getattr(g, kind + "_lon").values, getattr(g, kind + "_lat").values
            x, y, z = (getattr(g, kind + "_" + a).values for a in "xyz")
            ok, d = _same_point(lo, la, x, y, z)
            if not ok:
                bad.append(f"{kind}: (lon,lat) and (x,y,z) differ by {d:.3g} (lon {lo.tolist()} lat {la.tolist()} x {x.tolist()})")
            if np.any(lo < -180 - 1e-9) or np.any(lo > 180 + 1e-9) or np.any(np.abs(la) > 90 + 1e-9):
                bad.append(f"{kind}_lon/lat out of range: lon {lo.tolist()} lat {la.tolist()}")
        ok, d = _same_point(g.node_lon.values, g.node_lat.values, *_real_unit(v["lon"], v["lat"]))
        if not ok:
            bad.append(f"reported node lon/lat {g.node_lon.values.tolist()} differ from the source {v['lon']}")
        if edge_centres:
            ok, d = _same_point(g.edge_lon.values, g.edge_lat.values, *_real_unit(v["elon"], v["elat"]))
            if not ok:
                bad.append(f"reported edge centres differ from the supplied ones by {d:.3g}")
        if v.get("flon") is not None:
            ok, d = _same_point(g.face_lon.values, g.face_lat.values, *_real_unit(v["flon"], v["flat"]))
            if not ok:
                bad.append(f"reported face centres differ from the supplied ones by {d:.3g}")
        else:
            nx, ny, nz = _real_unit(v["lon"], v["lat"])
            for f, row in enumerate(ROWS):
                c = C.face_corners(row)
                m = np.array([nx[c].mean(), ny[c].mean(), nz[c].mean()])
                m /= np.linalg.norm(m)
                if np.linalg.norm(m - np.array([g.face_x.values[f], g.face_y.values[f], g.face_z.values[f]])) > 1e-6:
                    bad.append(f"face {f} centre {[g.face_x.values[f], g.face_y.values[f], g.face_z.values[f]]} is not the normalised mean of its corners {m.tolist()}")
        return "; ".join(bad) if bad else None

    return Obligation(oid, f"lon/lat-only source (lon in 0..{lon_hi}), centres supplied={centres}, access order {order}", setup, run, replay,
                      exact=False, functions=FUNCS,
                      bounds="2 faces (4+3 corners) over 5 nodes, all node positions incl. poles/antimeridian, 7-8 first accesses",
                      stubs=["sin, cos, arcsin, arctan2, sqrt uninterpreted; axioms: arctan2 in (-pi,pi], arcsin in [-pi/2,pi/2]; deg<->rad exact"],
                      tiers=tiers, cost=cost, timeout_s=1500, query_timeout_s=300)


def _prove_lonlat_of_xyz(ctx, kind, got, n):
    """derived lon/lat of an element = pole-snapped (rad2deg arctan2(y,x), rad2deg arcsin(z)) of its reported xyz, in range"""
    at2, asin = symnp.uf("arctan2", 2), symnp.uf("arcsin")
    pi = sc.lift(symnp.PI_Q)
    cl = []
    for i in range(n):
        x, y, z = got[kind + "_x"][i], got[kind + "_y"][i], got[kind + "_z"][i]
        # make sure the range axioms exist for exactly these applications
        ctx.solver.add(at2(y, x) > -pi, at2(y, x) <= pi, asin(z) >= -pi / 2, asin(z) <= pi / 2)
        mask = z3.Or(z > sc.lift(1.0 - TOL), z < -(sc.lift(1.0 - TOL)))
        lat = z3.If(mask, z3.If(z > 0, z3.RealVal(90), z3.RealVal(-90)), asin(z) * 180 / pi)
        lon = z3.If(mask, z3.RealVal(0), at2(y, x) * 180 / pi)
        glon, glat = got[kind + "_lon"][i], got[kind + "_lat"][i]
        cl.append(z3.And(glat == lat, z3.Or(glon == lon, z3.And(glon == -180, lon == 180)), glon >= -180, glon <= 180, glat >= -90, glat <= 90))
    ctx.prove(f"{kind}_lon/lat = rad2deg(arctan2(y,x)), rad2deg(arcsin(z)) of the reported {kind}_x/y/z (pole snap at |z|>1-1e-8), in range", z3.And(*cl))


# ------------------------------------------------------------------ xyz-only source: derived lon/lat
def make_xyz(oid, order, tiers=("quick", "thorough"), cost=3):
    acc = {"lon_first": ["node_lon", "node_lat"], "lat_first": ["node_lat", "node_lon"], "face_first": ["face_lon", "node_lon", "node_lat"]}[order]

    def setup(ctx):
        ctx.const("order", order)
        X = [[z3.Real(f"{a}_{i}") for i in range(N_NODE)] for a in "xyz"]
        for i in range(N_NODE):
            ab = [z3.If(X[a][i] >= 0, X[a][i], -X[a][i]) for a in range(3)]
            ctx.solver.add(ab[0] + ab[1] + ab[2] >= 1)
            for a in range(3):
                ctx.solver.add(X[a][i] >= -1, X[a][i] <= 1)
        ctx.eng.declare("x", X[0]); ctx.eng.declare("y", X[1]); ctx.eng.declare("z", X[2])
        return X

    def build(X, cl):
        return cl({"node_x": (["n_node"], X[0]), "node_y": (["n_node"], X[1]), "node_z": (["n_node"], X[2]),
                   "face_node_connectivity": (["n_face", "n_max_face_nodes"], ROWS, C.FN_ATTRS)})

    def run(ctx, X):
        symnp.SQRT_MODE[0] = "uf"
        sc.NL_UF[0] = True
        try:
            # algebra-free mode: the source vectors have unit length *as terms* (x*x+y*y+z*z = 1 over the uninterpreted product)
            for i in range(N_NODE):
                ctx.solver.add(sc.zmul(X[0][i], X[0][i]) + sc.zmul(X[1][i], X[1][i]) + sc.zmul(X[2][i], X[2][i]) == 1)
            g = build(X, C.clone_grid_from)
            for name in acc:
                getattr(g, name)
            lon, lat = _vals(g.node_lon), _vals(g.node_lat)
            gx, gy, gz = _vals(g.node_x), _vals(g.node_y), _vals(g.node_z)
        finally:
            symnp.SQRT_MODE[0] = "witness"
        for name, arg, t in list(symnp.TRIG_LOG):
            if name == "sqrt":
                ctx.solver.add(z3.Implies(arg == 1, t == 1), t >= 0)
        ctx.solver.add(*sc.nl_unit_lemmas())
        _axioms_range(ctx)
        at2, asin = symnp.uf("arctan2", 2), symnp.uf("arcsin")
        pi = sc.lift(symnp.PI_Q)
        ctx.prove("source xyz reported unchanged", z3.And(*[z3.And(gx[i] == X[0][i], gy[i] == X[1][i], gz[i] == X[2][i]) for i in range(N_NODE)]))
        for i in range(N_NODE):
            x, y, zz = X[0][i], X[1][i], X[2][i]
            ctx.solver.add(at2(y, x) > -pi, at2(y, x) <= pi, asin(zz) >= -pi / 2, asin(zz) <= pi / 2)
            mask = z3.Or(zz > sc.lift(1.0 - TOL), zz < -(sc.lift(1.0 - TOL)))
            elat = z3.If(mask, z3.If(zz > 0, z3.RealVal(90), z3.RealVal(-90)), asin(zz) * 180 / pi)
            elon = z3.If(mask, z3.RealVal(0), at2(y, x) * 180 / pi)
            ctx.prove(f"node {i}: lon/lat = degrees of arctan2(y,x), arcsin(z) of its own unit vector, pole snap to +-90 by the sign of z, lon in [-180,180]",
                      z3.And(lat[i] == elat, z3.Or(lon[i] == elon, z3.And(lon[i] == -180, elon == 180))),
                      regions={"derived_node_lon_0_360": z3.And(lat[i] == elat, lon[i] == elon + 360)})

    def replay(v):
        g = build([v["x"], v["y"], v["z"]], C.real_grid_from)
        for name in acc:
            getattr(g, name)
        lo, la = g.node_lon.values, g.node_lat.values
        ok, d = _same_point(lo, la, np.array(v["x"]), np.array(v["y"]), np.array(v["z"]), tol=2e-6)
        # within the library's own pole-snap tolerance the direction may move by sqrt(2e-8)
        snap = np.abs(np.array(v["z"])) > 1 - 1e-8
        bad = []
        if not ok and not np.all(snap):
            ux, uy, uz = _real_unit(lo, la)
            dd = np.sqrt((ux - v["x"]) ** 2 + (uy - v["y"]) ** 2 + (uz - v["z"]) ** 2)
            if np.any(dd[~snap] > 2e-6):
                bad.append(f"derived node lon/lat {lo.tolist()},{la.tolist()} do not denote the source directions (max deviation {d:.3g})")
        for i in np.where(snap)[0]:
            if abs(la[i] - np.sign(v["z"][i]) * 90) > 1e-9:
                bad.append(f"node {i} with z={v['z'][i]} reported at latitude {la[i]}")
        if np.any(lo > 180 + 1e-9) or np.any(lo < -180 - 1e-9) or np.any(np.abs(la) > 90 + 1e-9):
            bad.append(f"derived node_lon {lo.tolist()} outside [-180,180] (source xyz {v['x']},{v['y']},{v['z']})")
        return "; ".join(bad) if bad else None

    return Obligation(oid, f"xyz-only source (unit vectors): derived node lon/lat, access order {order}", setup, run, replay, exact=False, functions=FUNCS,
                      bounds="5 nodes anywhere on the unit sphere incl. poles (pole snap branch) and the antimeridian",
                      stubs=["arctan2, arcsin, sqrt uninterpreted; axioms: ranges of arctan2/arcsin, sqrt(t)^2=t"],
                      tiers=tiers, cost=cost, timeout_s=1500, query_timeout_s=300)


# ------------------------------------------------------------------ stored Cartesian centres of arbitrary length; Welzl centres
def make_stored_centres(oid, kind):
    """the source supplies face (edge) centres as xyz of arbitrary positive length and no lon/lat: the derived lon/lat are those of the NORMALISED vector
    (reference: the library's own xyz->lonlat conversion with normalisation, applied by the harness to the same terms; C04.normalize.* decide that routine)"""
    n_el = N_FACE if kind == "face" else None

    def setup(ctx):
        ctx.const("kind", kind)
        lon, lat = C.default_lonlat(N_NODE)
        _, E = C.ref_edges(ROWS)
        E = sorted(sorted(p) for p in E)
        n = N_FACE if kind == "face" else len(E)
        X = [[z3.Real(f"c{a}_{i}") for i in range(n)] for a in "xyz"]
        for col in X:
            for v in col:
                ctx.solver.add(v >= -3, v <= 3)
        for a, col in zip("xyz", X):
            ctx.eng.declare("c" + a, col)
        return lon, lat, E, X

    def build(lon, lat, E, X, cl):
        vars_ = {"node_lon": (["n_node"], list(lon)), "node_lat": (["n_node"], list(lat)),
                 "face_node_connectivity": (["n_face", "n_max_face_nodes"], ROWS, C.FN_ATTRS)}
        dim = "n_face" if kind == "face" else "n_edge"
        if kind == "edge":
            vars_["edge_node_connectivity"] = (["n_edge", "two"], E, {"cf_role": "edge_node_connectivity", "_FillValue": C.F, "start_index": 0})
        for a, col in zip("xyz", X):
            vars_[f"{kind}_{a}"] = ([dim], col)
        return cl(vars_)

    def run(ctx, inp):
        lon, lat, E, X = inp
        symnp.SQRT_MODE[0] = "uf"
        sc.NL_UF[0] = True
        sc.MOD_MODE[0] = "witness"
        try:
            g = build(lon, lat, E, X, C.clone_grid_from)
            glon, glat = _vals(getattr(g, kind + "_lon")), _vals(getattr(g, kind + "_lat"))
            conv = world().get("uxarray.grid.coordinates", "_xyz_to_lonlat_deg")
            A = lambda col: symnp.SArr.new([mk(v) for v in col], (len(col),), None, symnp.float64)      # noqa: E731
            elon, elat = conv(A(X[0]), A(X[1]), A(X[2]))          # normalize=True is the routine's default
            elon, elat = [_zr(v) for v in elon.flat_list()], [_zr(v) for v in elat.flat_list()]
        finally:
            symnp.SQRT_MODE[0] = "witness"
        cl = []
        for i in range(len(glon)):
            cl.append(z3.And(glat[i] == elat[i], z3.Or(glon[i] == elon[i], glon[i] == elon[i] - 360), glon[i] >= -180, glon[i] <= 180))
        ctx.prove(f"{kind} lon/lat derived from stored Cartesian centres are those of the normalised vector, reported in [-180, 180]", z3.And(*cl))
        gx = [_vals(getattr(g, f"{kind}_{a}")) for a in "xyz"]
        ctx.prove("the stored Cartesian centres are reported as supplied", z3.And(*[gx[a][i] == X[a][i] for a in range(3) for i in range(len(X[0]))]))

    def replay(v):
        lon, lat = C.default_lonlat(N_NODE)
        _, E = C.ref_edges(ROWS)
        E = sorted(sorted(p) for p in E)
        X = [np.array([float(t) for t in v["c" + a]]) for a in "xyz"]
        nrm = np.sqrt(X[0] ** 2 + X[1] ** 2 + X[2] ** 2)
        if np.any(nrm < 0.05):
            return None
        g = build(lon, lat, E, [list(c) for c in X], C.real_grid_from)
        lo, la = getattr(g, kind + "_lon").values, getattr(g, kind + "_lat").values
        ok, d = _same_point(lo, la, X[0], X[1], X[2], tol=2e-6)
        snap = np.abs(X[2] / nrm) > 1 - 1e-7
        if not ok and not np.all(snap):
            ux, uy, uz = _real_unit(lo, la)
            dd = np.sqrt((ux - X[0] / nrm) ** 2 + (uy - X[1] / nrm) ** 2 + (uz - X[2] / nrm) ** 2)
            if np.any(dd[~snap] > 2e-6):
                return f"stored {kind} centres xyz {[c.tolist() for c in X]} (lengths {nrm.tolist()}): reported lon/lat {lo.tolist()},{la.tolist()} denote another direction (deviation {d:.3g})"
        if np.any(lo > 180 + 1e-9) or np.any(lo < -180 - 1e-9):
            return f"{kind}_lon out of range: {lo.tolist()}"
        return None

    return Obligation(oid, f"{kind} centres supplied as Cartesian vectors of arbitrary length: derived lon/lat", setup, run, replay, exact=False, functions=FUNCS,
                      bounds="centre components in [-3,3]; fixed node positions", stubs=["arctan2, arcsin, sqrt, products uninterpreted (data-flow comparison with the library's normalising conversion)"],
                      max_paths=400)


def make_welzl(oid):
    """construct_face_centers(method='welzl') with the smallest-enclosing-circle search replaced by arbitrary centre coordinates (degrees): the stored
    face_x/y/z are the unit vectors of the stored face_lon/lat"""
    def setup(ctx):
        cl = [ctx.real(f"wlon_{f}", -180, 180) for f in range(N_FACE)]
        ct = [ctx.real(f"wlat_{f}", -90, 90) for f in range(N_FACE)]
        return cl, ct

    def run(ctx, inp):
        cl, ct = inp
        symnp.SQRT_MODE[0] = "uf"
        sc.NL_UF[0] = True
        sc.MOD_MODE[0] = "witness"
        gc = world().G["uxarray.grid.coordinates"]
        saved = gc["_construct_face_centerpoints"]
        gc["_construct_face_centerpoints"] = lambda node_lon, node_lat, face_nodes, n_nodes_per_face: (C.sarr_1d(cl, symnp.float64), C.sarr_1d(ct, symnp.float64))
        try:
            lon, lat = C.default_lonlat(N_NODE)
            g = C.clone_grid_from({"node_lon": (["n_node"], list(lon)), "node_lat": (["n_node"], list(lat)),
                                   "face_node_connectivity": (["n_face", "n_max_face_nodes"], ROWS, C.FN_ATTRS)})
            g.construct_face_centers(method="welzl")
            got = {n: _vals(getattr(g, n)) for n in ("face_lon", "face_lat", "face_x", "face_y", "face_z")}
        finally:
            gc["_construct_face_centerpoints"] = saved
            symnp.SQRT_MODE[0] = "witness"
        clm = []
        for f in range(N_FACE):
            ux = _unit(got["face_lon"][f], got["face_lat"][f])
            clm.append(z3.And(got["face_x"][f] == ux[0], got["face_y"][f] == ux[1], got["face_z"][f] == ux[2]))
        ctx.prove("Welzl centres: face_x/y/z is the unit vector of the stored face_lon/face_lat (degrees converted once)", z3.And(*clm))

    def replay(v):
        import uxarray as ux
        lon, lat = C.default_lonlat(N_NODE)
        g = C.real_grid(ROWS, lon, lat)
        g.construct_face_centers(method="welzl")
        ok, d = _same_point(g.face_lon.values, g.face_lat.values, g.face_x.values, g.face_y.values, g.face_z.values)
        if not ok:
            return (f"construct_face_centers('welzl'): face lon/lat {g.face_lon.values.tolist()},{g.face_lat.values.tolist()} and face xyz "
                    f"{[g.face_x.values.tolist(), g.face_y.values.tolist(), g.face_z.values.tolist()]} denote different points (deviation {d:.3g})")
        return None

    return Obligation(oid, "construct_face_centers('welzl'): Cartesian and spherical centres denote the same points", setup, run, replay, exact=False, functions=FUNCS + ["Grid.construct_face_centers", "coordinates._populate_face_centerpoints"],
                      bounds="arbitrary centre positions (the enclosing-circle search itself is abstracted)", stubs=["_construct_face_centerpoints -> arbitrary (lon, lat) in degrees", "trig uninterpreted"])


# ------------------------------------------------------------------ normalisation
def make_normalize(oid, which, tiers=("quick", "thorough")):
    """source ships xyz for nodes and for face centres with arbitrary positive lengths; `which` says which are already unit"""
    from fractions import Fraction as Fr
    UNITS = [(Fr(3, 5), Fr(4, 5), Fr(0)), (Fr(0), Fr(5, 13), Fr(12, 13)), (Fr(2, 3), Fr(1, 3), Fr(2, 3)), (Fr(-2, 7), Fr(3, 7), Fr(6, 7)),
             (Fr(1, 9), Fr(-4, 9), Fr(8, 9)), (Fr(6, 11), Fr(2, 11), Fr(-9, 11)), (Fr(-8, 17), Fr(0), Fr(15, 17))]

    def setup(ctx):
        ctx.const("which", which)
        P = {}
        k = 0
        for kind, n in (("node", N_NODE), ("face", N_FACE)):
            P[kind] = [[None] * n for _ in range(3)]
            rs = []
            for i in range(n):
                r = z3.Real(f"r_{kind}_{i}")
                rs.append(r)
                if kind in which:
                    ctx.solver.add(r == 1)
                else:
                    ctx.solver.add(z3.Or(z3.And(r >= sc.lift(0.5), r <= sc.lift(0.9)), z3.And(r >= 2, r <= 10)))
                u = UNITS[k % len(UNITS)]
                k += 1
                for a in range(3):
                    P[kind][a][i] = r * z3.RealVal(str(u[a]))
            ctx.eng.declare(kind, P[kind])
        return P

    def build(P, cl):
        return cl({"node_x": (["n_node"], P["node"][0]), "node_y": (["n_node"], P["node"][1]), "node_z": (["n_node"], P["node"][2]),
                   "face_x": (["n_face"], P["face"][0]), "face_y": (["n_face"], P["face"][1]), "face_z": (["n_face"], P["face"][2]),
                   "face_node_connectivity": (["n_face", "n_max_face_nodes"], ROWS, C.FN_ATTRS)})

    def run(ctx, P):
        g = build(P, C.clone_grid_from)
        g.normalize_cartesian_coordinates()
        for kind, n in (("node", N_NODE), ("face", N_FACE)):
            got = [_vals(getattr(g, f"{kind}_{a}")) for a in "xyz"]
            cl = []
            for i in range(n):
                s = got[0][i] * got[0][i] + got[1][i] * got[1][i] + got[2][i] * got[2][i]
                par = z3.And(got[0][i] * P[kind][1][i] == got[1][i] * P[kind][0][i], got[0][i] * P[kind][2][i] == got[2][i] * P[kind][0][i],
                             got[1][i] * P[kind][2][i] == got[2][i] * P[kind][1][i],
                             got[0][i] * P[kind][0][i] >= 0, got[1][i] * P[kind][1][i] >= 0, got[2][i] * P[kind][2][i] >= 0)
                cl.append(z3.And(s == 1, par))
            ctx.prove(f"after normalize_cartesian_coordinates every {kind} triple has unit length and the same direction", z3.And(*cl),
                      tactic="qfnra-nlsat", regions={"check_normalization_tests_nodes_only": True})

    def replay(v):
        g = build({k: v[k] for k in ("node", "face")}, C.real_grid_from)
        g.normalize_cartesian_coordinates()
        bad = []
        for kind in ("node", "face"):
            got = np.array([getattr(g, f"{kind}_{a}").values for a in "xyz"])
            src = np.array(v[kind], dtype=float)
            ln = np.linalg.norm(got, axis=0)
            if np.any(np.abs(ln - 1) > 1e-6):
                bad.append(f"{kind} xyz lengths after normalize_cartesian_coordinates: {ln.tolist()}")
            elif np.any(np.linalg.norm(got - src / np.linalg.norm(src, axis=0), axis=0) > 1e-6):
                bad.append(f"{kind} directions changed by normalisation")
        return "; ".join(bad) if bad else None

    return Obligation(oid, f"normalize_cartesian_coordinates with source xyz for nodes and face centres; already unit: {which or 'none'}", setup, run, replay,
                      exact=True, functions=FUNCS, bounds="5 nodes + 2 face centres: fixed rational directions, symbolic lengths in [0.5,0.9] u [2,10] (or exactly 1 for the kinds listed as unit)",
                      stubs=["sqrt as witness"], tiers=tiers, cost=3, timeout_s=1500, query_timeout_s=600)


def obligations(tier):
    obs = [
        make_lonlat("C04.lonlat.xyz_first", "xyz_first"),
        make_lonlat("C04.lonlat.lonlat_first", "lonlat_first"),
        make_lonlat("C04.lonlat360.edges_first", "edges_first", lon_hi=360),
        make_lonlat("C04.lonlat.centres180", "xyz_first", centres="180"),
        make_lonlat("C04.lonlat.centres360", "lonlat_first", centres="360"),
        make_lonlat("C04.lonlat360.centres180", "edges_first", lon_hi=360, centres="180"),
        make_lonlat("C04.lonlat.edge_centres180", "edges_first", edge_centres="180"),
        make_lonlat("C04.lonlat.edge_centres360", "xyz_first", centres="180", edge_centres="360"),
        make_xyz("C04.xyz.lon_first", "lon_first"),
        make_xyz("C04.xyz.lat_first", "lat_first"),
        make_xyz("C04.xyz.face_first", "face_first", tiers=("thorough",)),
        make_stored_centres("C04.stored_xyz.face", "face"), make_stored_centres("C04.stored_xyz.edge", "edge"), make_welzl("C04.welzl"),
        make_normalize("C04.normalize.none_unit", ()),
        make_normalize("C04.normalize.nodes_unit", ("node",)),
        make_normalize("C04.normalize.faces_unit", ("face",)),
    ]
    return [o for o in obs if tier in o.tiers]
