"""C05 Face areas are the spherical-polygon areas, invariantly  (DESIGN.md section 2, C05).

Decided clauses:
  tables   - every literal quadrature table of the real get_gauss_quadratureDG / get_tri_quadratureDG integrates every
             polynomial of the rule's degree exactly (symbolic polynomial, LRA), weights positive, points inside.
  jacobian - the real calculate_spherical_triangle_jacobian(_barycentric), executed symbolically in the quadrature
             point (dA,dB), equals the area element |det[F,F_a,F_b]| / |F|^3 of the radial projection (x 1/2 for the
             barycentric rule) on fixed rational triangles: polynomial identity, z3 nlsat.
  fan      - the real calculate_face_area sums, over the fan triangles (0,j+1,j+2), weight x Jacobian at every
             quadrature point, each exactly once, from lon/lat (converted once) or from xyz; area >= 0.
  gather   - the real Grid.compute_face_areas / get_all_face_area_from_coords hand face f's own corners, in order, without
             padding, in the requested coordinate system with the requested rule/order to the per-face routine.
  cache    - face_areas is the default-rule result, whatever was computed before.
Outside (stated): numerical accuracy / convergence / invariance of the *value* (transcendental)."""
import math
import itertools
from fractions import Fraction as Fr
import z3
import numpy as np
from symex import core as sc, symnp, symxr
from symex.core import mk
from symex.runner import Obligation, world
from . import common as C
from .common import F

GAUSS_N = list(range(1, 11))
TRI_O = [1, 4, 8, 10, 12]
GAUSS_DEG = {n: 2 * n - 1 for n in GAUSS_N}
GAUSS_DEG[9] = 15            # the n=9 table is a 9-point Lobatto rule (measured on the pinned tree): exact to degree 15
TAU_G, TAU_T = Fr(1, 10 ** 9), Fr(1, 10 ** 12)


# ------------------------------------------------------------------ tables (K4)
def _real_table(kind, n):
    from uxarray.grid import area
    fn = area.get_gauss_quadratureDG if kind == "gauss" else area.get_tri_quadratureDG
    fn = getattr(fn, "py_func", fn)
    dG, dW = fn(n)
    return np.asarray(dG, dtype=float), np.asarray(dW, dtype=float)


def _moment_defects(kind, n):
    """exact rational defects m_k = sum_i w_i phi_k(x_i) - integral(phi_k) for the monomial basis up to the rule's degree"""
    dG, dW = _real_table(kind, n)
    W = [Fr(float(w)) for w in dW]
    out = []
    if kind == "gauss":
        X = [Fr(float(x)) for x in dG[0]]
        for k in range(GAUSS_DEG[n] + 1):
            out.append((f"x^{k}", sum(w * x ** k for w, x in zip(W, X)) - Fr(1, k + 1)))
        return out, X, W, None
    P = [[Fr(float(v)) for v in row] for row in dG]
    for i in range(n + 1):
        for j in range(n + 1 - i):
            exact = Fr(2 * math.factorial(i) * math.factorial(j), math.factorial(i + j + 2))
            out.append((f"a^{i} b^{j}", sum(w * p[0] ** i * p[1] ** j for w, p in zip(W, P)) - exact))
    return out, None, W, P


def make_table(oid, kind, n):
    tau = TAU_G if kind == "gauss" else TAU_T

    def setup(ctx):
        ctx.const("kind", kind); ctx.const("n", n)
        defects, X, W, P = _moment_defects(kind, n)
        c = [z3.Real(f"c_{k}") for k in range(len(defects))]
        for v in c:
            ctx.solver.add(v >= -1, v <= 1)
        ctx.eng.declare("coef", c)
        return defects, X, W, P, c

    def run(ctx, inp):
        defects, X, W, P, c = inp
        rv = lambda q: z3.RealVal(str(q))   # noqa: E731
        err = z3.Sum([ck * rv(m) for ck, (_, m) in zip(c, defects)])
        ctx.prove(f"every polynomial with coefficients in [-1,1] up to the rule's degree is integrated to within {float(tau):g}",
                  z3.And(err <= rv(tau), err >= -rv(tau)))
        ctx.prove("weights positive and summing to 1", sc.and_(all(w > 0 for w in W), abs(sum(W) - 1) <= tau))
        if kind == "gauss":
            ctx.prove("points inside [0,1], one weight per point", sc.and_(all(0 <= x <= 1 for x in X), len(X) == len(W) == n))
        else:
            ctx.prove("barycentric points inside the triangle, rows sum to 1",
                      sc.and_(all(all(v >= 0 for v in p) and abs(sum(p) - 1) <= Fr(1, 10 ** 12) for p in P), len(P) == len(W)))

    def replay(v):
        defects, X, W, P = _moment_defects(kind, n)
        err = sum(Fr(ck) * m for ck, (_, m) in zip(v["coef"], defects))
        if abs(err) > tau:
            worst = max(defects, key=lambda d: abs(d[1]))
            return f"{kind} table {n}: quadrature error {float(err):.3e} for the witness polynomial (worst monomial {worst[0]}: {float(worst[1]):.3e})"
        if any(w <= 0 for w in W) or abs(sum(W) - 1) > tau:
            return f"{kind} table {n}: weights not positive / do not sum to 1 (sum {float(sum(W))})"
        if X is not None and (any(not 0 <= x <= 1 for x in X) or len(X) != n):
            return f"gauss table {n}: {len(X)} points / points outside [0,1]"
        if P is not None and any(any(t < 0 for t in p) or abs(sum(p) - 1) > Fr(1, 10 ** 12) for p in P):
            return f"triangular table {n}: barycentric point outside the triangle"
        return None

    deg = GAUSS_DEG[n] if kind == "gauss" else n
    return Obligation(oid, f"{kind} quadrature table {n}: exact for every polynomial of degree <= {deg}", setup, run, replay, exact=True,
                      functions=["area.get_gauss_quadratureDG" if kind == "gauss" else "area.get_tri_quadratureDG"],
                      bounds=f"all polynomials of (total) degree <= {deg} with coefficients in [-1,1]; literals taken as exact rationals",
                      assumptions=["table literals are read as the exact rationals of their float64 values"])


# ------------------------------------------------------------------ jacobian identity (NRA, nlsat)
TRIANGLES = [
    [(Fr(3, 5), Fr(4, 5), Fr(0)), (Fr(0), Fr(5, 13), Fr(12, 13)), (Fr(2, 3), Fr(1, 3), Fr(2, 3))],
    [(Fr(1), Fr(0), Fr(0)), (Fr(4, 5), Fr(3, 5), Fr(0)), (Fr(12, 13), Fr(0), Fr(5, 13))],
    [(Fr(2, 7), Fr(3, 7), Fr(6, 7)), (Fr(-1, 9), Fr(4, 9), Fr(8, 9)), (Fr(2, 11), Fr(-6, 11), Fr(9, 11))],
    [(Fr(8, 17), Fr(0), Fr(-15, 17)), (Fr(4, 9), Fr(4, 9), Fr(-7, 9)), (Fr(0), Fr(3, 5), Fr(-4, 5))],
]


def make_jacobian(oid, bary, tri_idx):
    fname = "calculate_spherical_triangle_jacobian_barycentric" if bary else "calculate_spherical_triangle_jacobian"
    N = TRIANGLES[tri_idx]

    def setup(ctx):
        ctx.const("triangle", [[str(x) for x in r] for r in N])
        dA = ctx.real("dA", 0, 1)
        dB = ctx.real("dB", 0, 1)
        if bary:
            ctx.assume(dA + dB <= 1)
        return dA, dB

    def run(ctx, inp):
        dA, dB = inp
        f = world().get("uxarray.grid.area", fname)
        rv = lambda q: z3.RealVal(str(q))   # noqa: E731
        V = lambda r: symnp.SArr.new([mk(rv(x)) for x in r], (3,), None, symnp.float64)   # noqa: E731
        J = f(V(N[0]), V(N[1]), V(N[2]), dA, dB)
        a, b = sc.lift(dA), sc.lift(dB)
        if bary:
            Fv = [a * rv(N[0][i]) + b * rv(N[1][i]) + (1 - a - b) * rv(N[2][i]) for i in range(3)]
            Fa = [rv(N[0][i] - N[2][i]) for i in range(3)]
            Fb = [rv(N[1][i] - N[2][i]) for i in range(3)]
        else:
            Fv = [(1 - b) * ((1 - a) * rv(N[0][i]) + a * rv(N[1][i])) + b * rv(N[2][i]) for i in range(3)]
            Fa = [(1 - b) * rv(N[1][i] - N[0][i]) for i in range(3)]
            Fb = [-(1 - a) * rv(N[0][i]) - a * rv(N[1][i]) + rv(N[2][i]) for i in range(3)]
        det = Fv[0] * (Fa[1] * Fb[2] - Fa[2] * Fb[1]) - Fv[1] * (Fa[0] * Fb[2] - Fa[2] * Fb[0]) + Fv[2] * (Fa[0] * Fb[1] - Fa[1] * Fb[0])
        r2 = Fv[0] * Fv[0] + Fv[1] * Fv[1] + Fv[2] * Fv[2]
        Jz = sc.lift(J)
        ctx.prove("J >= 0 and J^2 |F|^6 = (det[F,F_a,F_b])^2 (x 1/4 for the barycentric rule): the area element of the radial projection",
                  Jz * Jz * r2 * r2 * r2 * (4 if bary else 1) == det * det, tactic="qfnra-nlsat")
        ctx.prove("J >= 0", Jz >= 0, tactic="qfnra-nlsat")

    def replay(v):
        from uxarray.grid import area
        f = getattr(area, fname)
        n = [np.array([float(x) for x in r]) for r in N]
        a, b = float(v["dA"]), float(v["dB"])
        got = float(f(n[0], n[1], n[2], a, b))
        if bary:
            Fv = a * n[0] + b * n[1] + (1 - a - b) * n[2]; Fa = n[0] - n[2]; Fb = n[1] - n[2]
        else:
            Fv = (1 - b) * ((1 - a) * n[0] + a * n[1]) + b * n[2]; Fa = (1 - b) * (n[1] - n[0]); Fb = -(1 - a) * n[0] - a * n[1] + n[2]
        exp = abs(np.dot(Fv, np.cross(Fa, Fb))) / np.linalg.norm(Fv) ** 3 * (0.5 if bary else 1.0)
        if abs(got - exp) > 1e-9 * max(1.0, abs(exp)):
            return f"{fname} at (dA,dB)=({a},{b}) on triangle {tri_idx} returns {got!r}, area element is {exp!r}"
        return None

    return Obligation(oid, f"{fname} equals the area element of the radial projection for every quadrature point, rational triangle #{tri_idx}",
                      setup, run, replay, exact=True, functions=["area." + fname],
                      bounds="all (dA,dB) in the reference element; node vectors fixed to a rational unit triangle (4 triangles in total); symbolic node vectors are outside (z3 nlsat: unknown after 300 s with 3 symbolic components)",
                      stubs=["sqrt as witness r>=0, r*r=x"], query_timeout_s=900, timeout_s=1500)


# ------------------------------------------------------------------ fan
def _JUF():
    return z3.Function("Jac", *([z3.RealSort()] * 13))


def make_fan(oid, n_corner, rule, order, coords, tiers=("quick", "thorough")):
    def setup(ctx):
        ctx.const("rule", rule); ctx.const("order", order); ctx.const("coords", coords)
        x = [z3.Real(f"x_{i}") for i in range(n_corner)]
        y = [z3.Real(f"y_{i}") for i in range(n_corner)]
        zc = [z3.Real(f"z_{i}") for i in range(n_corner)]
        for i in range(n_corner):
            if coords == "spherical":
                ctx.solver.add(x[i] >= -180, x[i] <= 180, y[i] >= -90, y[i] <= 90, zc[i] == 0)
            else:
                ctx.solver.add(x[i] >= -1, x[i] <= 1, y[i] >= -1, y[i] <= 1, zc[i] >= -1, zc[i] <= 1)
                ctx.solver.add(x[i] * x[i] + y[i] * y[i] + zc[i] * zc[i] >= sc.lift(0.81), x[i] + y[i] + zc[i] >= sc.lift(0.9))   # near the unit sphere, one octant-ish cap
        # distinct corners (a face does not repeat a corner): some coordinate differs by at least 0.05
        d = sc.lift(0.05 if coords != "spherical" else 1.0)
        for i in range(n_corner):
            for j in range(i):
                ctx.solver.add(z3.Or(*[z3.Or(a[i] - a[j] >= d, a[j] - a[i] >= d) for a in ((x, y) if coords == "spherical" else (x, y, zc))]))
        ctx.eng.declare("x", x); ctx.eng.declare("y", y); ctx.eng.declare("z", zc)
        return x, y, zc

    def run(ctx, inp):
        x, y, zc = inp
        w = world()
        J = _JUF()
        ga = w.G["uxarray.grid.area"]
        calls = []

        def jac(kind):
            def f(n1, n2, n3, dA, dB):
                args = [sc.z(v) if not z3.is_expr(v) else v for v in list(n1.flat_list()) + list(n2.flat_list()) + list(n3.flat_list())] + [sc.z(dA), sc.z(dB)]
                args = [z3.ToReal(a) if z3.is_int(a) else a for a in args]
                t = J(z3.RealVal(kind), *args)
                ctx.solver.add(t >= 0)
                calls.append(t)
                return mk(t)
            return f
        saved = (ga["calculate_spherical_triangle_jacobian"], ga["calculate_spherical_triangle_jacobian_barycentric"])
        ga["calculate_spherical_triangle_jacobian"], ga["calculate_spherical_triangle_jacobian_barycentric"] = jac(0), jac(1)
        try:
            A = lambda v: symnp.SArr.new([mk(t) for t in v], (n_corner,), None, symnp.float64)   # noqa: E731
            area, _ = ga["calculate_face_area"](A(x), A(y), A(zc), rule, order, coords)
        finally:
            ga["calculate_spherical_triangle_jacobian"], ga["calculate_spherical_triangle_jacobian_barycentric"] = saved
        # reference fan, written directly from the definition
        dG, dW = _real_table("gauss" if rule == "gaussian" else "tri", order)
        rv = lambda q: z3.RealVal(str(Fr(float(q))))   # noqa: E731
        k = sc.lift(symnp.PI_Q) / 180
        sin, cos = symnp.uf("sin"), symnp.uf("cos")

        def node(i):
            if coords == "spherical":
                lo, la = x[i] * k, y[i] * k
                return [cos(lo) * cos(la), sin(lo) * cos(la), sin(la)]
            return [x[i], y[i], zc[i]]
        terms = []
        for j in range(n_corner - 2):
            n1, n2, n3 = node(0), node(j + 1), node(j + 2)
            if rule == "gaussian":
                for p in range(len(dW)):
                    for q in range(len(dW)):
                        terms.append(rv(float(dW[p]) * float(dW[q])) * J(z3.RealVal(0), *n1, *n2, *n3, rv(dG[0][p]), rv(dG[0][q])))
            else:
                for p in range(len(dW)):
                    terms.append(rv(dW[p]) * J(z3.RealVal(1), *n1, *n2, *n3, rv(dG[p][0]), rv(dG[p][1])))
        ctx.prove("area = sum over fan triangles (0,j+1,j+2) and quadrature points of weight x Jacobian, each once", sc.lift(area) == z3.Sum(terms))
        ctx.prove("area >= 0", sc.lift(area) >= 0)

    def replay(v):
        from uxarray.grid import area as AR
        x, y, zc = (np.array(v[k], dtype=float) for k in ("x", "y", "z"))
        got, _ = AR.calculate_face_area(x, y, zc, rule, order, coords)
        dG, dW = _real_table("gauss" if rule == "gaussian" else "tri", order)

        def node(i):
            if coords == "spherical":
                lo, la = math.radians(x[i]), math.radians(y[i])
                return np.array([math.cos(lo) * math.cos(la), math.sin(lo) * math.cos(la), math.sin(la)])
            return np.array([x[i], y[i], zc[i]])
        exp = 0.0
        for j in range(n_corner - 2):
            n1, n2, n3 = node(0), node(j + 1), node(j + 2)
            if rule == "gaussian":
                for p in range(len(dW)):
                    for q in range(len(dW)):
                        exp += dW[p] * dW[q] * AR.calculate_spherical_triangle_jacobian(n1, n2, n3, dG[0][p], dG[0][q])
            else:
                for p in range(len(dW)):
                    exp += dW[p] * AR.calculate_spherical_triangle_jacobian_barycentric(n1, n2, n3, dG[p][0], dG[p][1])
        if got < 0 or abs(got - exp) > 1e-9 * max(1.0, abs(exp)):
            return f"calculate_face_area({rule},{order},{coords}) on corners x={x.tolist()} y={y.tolist()} z={zc.tolist()} = {got!r}; the fan sum over its own triangles is {exp!r}"
        return None

    return Obligation(oid, f"calculate_face_area fan, {n_corner} corners, {rule} order {order}, {coords} input", setup, run, replay, exact=False,
                      functions=["area.calculate_face_area", "coordinates._lonlat_rad_to_xyz", "area.get_gauss_quadratureDG", "area.get_tri_quadratureDG"],
                      bounds=f"{n_corner} corners, all coordinates in range", tiers=tiers,
                      stubs=["calculate_spherical_triangle_jacobian(_barycentric) -> uninterpreted Jac(...) >= 0 (decided separately by C05.jacobian.*)", "sin, cos uninterpreted; deg2rad exact"])


# ------------------------------------------------------------------ gather through the Grid
RULES = ["triangular", "gaussian"]
ORD = [1, 4, 8]


def make_gather(oid, n_face, n_max, n_node, latlon, tiers=("quick", "thorough"), cost=3, sizes=None):
    def setup(ctx):
        ctx.const("latlon", latlon)
        fn, nf = C.sym_face_table(ctx, n_face, n_max, n_node, sizes=sizes)
        lon = [z3.Real(f"lon_{i}") for i in range(n_node)]
        lat = [z3.Real(f"lat_{i}") for i in range(n_node)]
        for v in lon:
            ctx.solver.add(v >= -170, v <= 170)
        for v in lat:
            ctx.solver.add(v >= -80, v <= 80)
        for vs in (lon, lat):
            for i in range(n_node):
                for j in range(i + 1, n_node):
                    ctx.solver.add(z3.Or(vs[i] - vs[j] >= 5, vs[j] - vs[i] >= 5))
        ctx.eng.declare("lon", lon); ctx.eng.declare("lat", lat)
        rule = ctx.enum("rule", RULES)
        order = ctx.enum("order", ORD)
        return fn, nf, lon, lat, rule, order

    def run(ctx, inp):
        fn, nf, lon, lat, rule, order = inp
        w = world()
        ga = w.G["uxarray.grid.area"]
        calls = []
        AF = z3.Function("FaceArea", z3.IntSort(), z3.RealSort())

        def rec(fx, fy, fz, quadrature_rule="gaussian", order=4, coords_type="spherical"):
            calls.append((fx, fy, fz, quadrature_rule, order, coords_type))
            a = mk(AF(len(calls) - 1))
            ctx.solver.add(sc.lift(a) >= 0)
            return a, a
        saved = ga["calculate_face_area"]
        ga["calculate_face_area"] = rec
        try:
            g = C.clone_grid(C.sarr_int(fn), lon, lat)
            areas, jac = g.compute_face_areas(rule, order, latlon=latlon)
            total_calls = len(calls)
            tot = g.calculate_total_face_area(rule, order)
        finally:
            ga["calculate_face_area"] = saved
        ctx.prove("one per-face call per face, results stored in face order",
                  sc.and_(total_calls == n_face, areas.shape_cap == (n_face,), *[areas[f] == mk(AF(f)) for f in range(n_face)]))
        if total_calls != n_face:
            return
        k = sc.lift(symnp.PI_Q) / 180
        sin, cos = symnp.uf("sin"), symnp.uf("cos")

        def sel(idx, arr):
            t = arr[-1]
            for i in range(len(arr) - 2, -1, -1):
                t = z3.If(idx == i, arr[i], t)
            return t
        for f in range(n_face):
            fx, fy, fz, r_, o_, ct = calls[f]
            size_ok = sc.lift(fx.shape[0]) == nf[f] if fx.n is not None else z3.IntVal(fx.shape_cap[0]) == nf[f]
            cl = [size_ok, sc.z(r_ == rule), sc.z(o_ == order), z3.BoolVal(ct == ("spherical" if latlon else "cartesian"))]
            m = fx.shape_cap[0]
            for j in range(min(m, n_max)):
                if latlon:
                    ex = (sel(fn[f][j], lon), sel(fn[f][j], lat), z3.RealVal(0))
                else:
                    # per-node unit vectors first, then the gather (keeps the query free of trig under If-chains)
                    ex = (sel(fn[f][j], [cos(lo * k) * cos(la * k) for lo, la in zip(lon, lat)]),
                          sel(fn[f][j], [sin(lo * k) * cos(la * k) for lo, la in zip(lon, lat)]),
                          sel(fn[f][j], [sin(la * k) for la in lat]))
                got = (sc.z(fx.raw()[j]), sc.z(fy.raw()[j]), sc.z(fz.raw()[j]))
                got = tuple(z3.ToReal(t) if z3.is_int(t) else t for t in got)
                cl.append(z3.Implies(j < nf[f], z3.And(got[0] == ex[0], got[1] == ex[1], got[2] == ex[2])))
            ctx.prove(f"face {f}: its own corners, in order, no padding, in the requested coordinate system, with the requested rule/order", z3.And(*cl))
        ctx.prove("calculate_total_face_area is the sum of the face areas of a fresh computation",
                  sc.lift(tot) == z3.Sum([AF(n_face + f) for f in range(n_face)]))

    def replay(v):
        from uxarray.grid import area as AR
        rows = C.model_table(v)
        g = C.real_grid(rows, v["lon"], v["lat"])
        rule, order = RULES[v["rule"]], ORD[v["order"]]
        got, _ = g.compute_face_areas(rule, order, latlon=latlon)
        lon, lat = np.array(v["lon"], dtype=float), np.array(v["lat"], dtype=float)
        for f, row in enumerate(rows):
            c = C.face_corners(row)
            if latlon:
                exp, _ = AR.calculate_face_area(lon[c], lat[c], lon[c] * 0.0, rule, order, "spherical")
            else:
                lo, la = np.radians(lon[c]), np.radians(lat[c])
                exp, _ = AR.calculate_face_area(np.cos(lo) * np.cos(la), np.sin(lo) * np.cos(la), np.sin(la), rule, order, "cartesian")
            if abs(got[f] - exp) > 1e-9 * max(1.0, abs(exp)):
                return f"compute_face_areas({rule},{order},latlon={latlon})[{f}] = {got[f]!r}, but calculate_face_area on face {f}'s own corners {c} gives {exp!r}"
        tot = g.calculate_total_face_area(rule, order)
        if abs(tot - float(np.sum(got))) > 1e-9:
            return f"calculate_total_face_area = {tot!r}, sum of face areas = {float(np.sum(got))!r}"
        return None

    return Obligation(oid, f"compute_face_areas gather, {n_face} faces x <= {n_max} corners, latlon={latlon}", setup, run, replay, exact=False,
                      functions=["Grid.compute_face_areas", "Grid.calculate_total_face_area", "area.get_all_face_area_from_coords", "Grid.n_nodes_per_face",
                                 "Grid.node_x/node_y/node_z", "coordinates._populate_node_xyz"],
                      bounds=f"n_face={n_face}, corners<={n_max} (all padding layouts), nodes<{n_node}, rules x orders {RULES}x{ORD}, coordinates pairwise >= 5 deg apart",
                      stubs=["area.calculate_face_area -> recorder returning an uninterpreted non-negative value per call", "sin, cos uninterpreted"],
                      tiers=tiers, cost=cost)


# ------------------------------------------------------------------ cache / history
def make_cache(oid, hist):
    rows = [[0, 1, 2, 3], [1, 4, 2, F], [2, 4, 5, F]]
    lon, lat = C.default_lonlat(6)
    A = z3.Function("A", z3.IntSort(), z3.IntSort(), z3.IntSort(), z3.RealSort())

    def setup(ctx):
        ctx.const("hist", hist)
        return ctx.enum("rule0", RULES), ctx.enum("order0", ORD)

    def run(ctx, inp):
        rule0, order0 = inp
        w = world()
        gg = w.G["uxarray.grid.grid"]

        def kernel(x, y, z, face_nodes, face_geometry, dim, quadrature_rule="triangular", order=4, coords_type="spherical"):
            r = quadrature_rule.e if isinstance(quadrature_rule, sc.SymEnum) else z3.IntVal(RULES.index(quadrature_rule))
            o = z3.Sum([z3.If(order.e == i, int(vv), 0) for i, vv in enumerate(order.vals)]) if isinstance(order, sc.SymEnum) else z3.IntVal(int(order))
            ar = [mk(A(f, r, o)) for f in range(3)]
            for a in ar:
                ctx.solver.add(sc.lift(a) >= 0)
            return symnp.SArr.new(ar, (3,), None, symnp.float64), symnp.SArr.new(list(ar), (3,), None, symnp.float64)
        saved = gg["get_all_face_area_from_coords"]
        gg["get_all_face_area_from_coords"] = kernel
        try:
            g = C.clone_grid(symnp.array(rows), lon, lat)
            if hist == "compute":
                g.compute_face_areas(rule0, order0)
            elif hist == "total":
                g.calculate_total_face_area(rule0, order0)
            elif hist == "face_areas_then_compute":
                g.face_areas
                g.compute_face_areas(rule0, order0)
            fa = g.face_areas.values
            again, _ = g.compute_face_areas(rule0, order0)
        finally:
            gg["get_all_face_area_from_coords"] = saved
        ctx.prove("face_areas is the default-rule (triangular, 4) computation whatever was computed before",
                  z3.And(*[sc.lift(fa[f]) == A(f, 0, 4) for f in range(3)]))
        o0 = z3.Sum([z3.If(order0.e == i, int(vv), 0) for i, vv in enumerate(ORD)])
        ctx.prove("compute_face_areas(rule, order) after reading face_areas still uses its own arguments",
                  z3.And(*[sc.lift(again[f]) == A(f, rule0.e, o0) for f in range(3)]))

    def replay(v):
        g = C.real_grid(rows, lon, lat)
        r0, o0 = RULES[v["rule0"]], ORD[v["order0"]]
        if hist == "compute":
            g.compute_face_areas(r0, o0)
        elif hist == "total":
            g.calculate_total_face_area(r0, o0)
        elif hist == "face_areas_then_compute":
            g.face_areas
            g.compute_face_areas(r0, o0)
        fa = np.array(g.face_areas.values)
        fresh = C.real_grid(rows, lon, lat)
        exp, _ = fresh.compute_face_areas()
        if not np.allclose(fa, exp, rtol=1e-12, atol=0):
            return f"face_areas after {hist}({r0},{o0}) = {fa.tolist()}, a fresh default computation gives {np.asarray(exp).tolist()}"
        again, _ = g.compute_face_areas(r0, o0)
        exp2, _ = C.real_grid(rows, lon, lat).compute_face_areas(r0, o0)
        if not np.allclose(again, exp2, rtol=1e-12, atol=0):
            return f"compute_face_areas({r0},{o0}) after reading face_areas = {np.asarray(again).tolist()}, fresh grid gives {np.asarray(exp2).tolist()}"
        return None

    return Obligation(oid, f"face_areas cache vs earlier area computations (history: {hist})", setup, run, replay, exact=False,
                      functions=["Grid.face_areas", "Grid.compute_face_areas", "Grid.calculate_total_face_area"],
                      bounds="3-face grid, rules x orders of the earlier call symbolic",
                      stubs=["area.get_all_face_area_from_coords -> uninterpreted A(face, rule, order) >= 0"])


def obligations(tier):
    obs = []
    for n in GAUSS_N:
        obs.append(make_table(f"C05.tables.gauss.{n}", "gauss", n))
    for o in TRI_O:
        obs.append(make_table(f"C05.tables.tri.{o}", "tri", o))
    for t in range(len(TRIANGLES)):
        obs.append(make_jacobian(f"C05.jacobian.bary.t{t}", True, t))
        obs.append(make_jacobian(f"C05.jacobian.gauss.t{t}", False, t))
    obs += [
        make_fan("C05.fan.3.tri4.sph", 3, "triangular", 4, "spherical"),
        make_fan("C05.fan.4.tri4.sph", 4, "triangular", 4, "spherical"),
        make_fan("C05.fan.5.tri1.cart", 5, "triangular", 1, "cartesian"),
        make_fan("C05.fan.4.gauss2.sph", 4, "gaussian", 2, "spherical"),
        make_fan("C05.fan.5.gauss3.cart", 5, "gaussian", 3, "cartesian"),
        make_fan("C05.fan.8.tri4.sph", 8, "triangular", 4, "spherical"),
        make_fan("C05.fan.6.tri12.sph", 6, "triangular", 12, "spherical", tiers=("thorough",)),
        make_fan("C05.fan.6.gauss10.cart", 6, "gaussian", 10, "cartesian", tiers=("thorough",)),
        make_gather("C05.gather.2f4.latlon", 2, 4, 6, True),
        make_gather("C05.gather.2f4.xyz", 2, 4, 6, False),
        make_gather("C05.gather.3f5.latlon", 3, 5, 7, True, tiers=("thorough",), cost=10),
        make_cache("C05.cache.compute", "compute"),
        make_cache("C05.cache.total", "total"),
        make_cache("C05.cache.face_areas_then_compute", "face_areas_then_compute"),
    ]
    return [o for o in obs if tier in o.tiers]
