"""Recording stubs for the C-backed libraries behind the plotting / geometry exports (DESIGN.md 1.5):
matplotlib collections, (geo|spatial)pandas frames, shapely polygons, antimeridian.fix_polygon, cartopy projections.
Contract assumed: constructors are pure and keep their arguments; projections are pure functions."""
import itertools
import z3
from symex import core as sc, symnp
from symex.core import mk

_uid = itertools.count(1)


class Tag:
    def __init__(self, kind, **kw):
        self.kind = kind
        self.uid = next(_uid)
        self.copied_from = None
        self.mutations = []
        self.__dict__.update(kw)

    def __deepcopy__(self, memo):
        c = Tag.__new__(type(self))
        c.__dict__.update(self.__dict__)
        c.uid = next(_uid)
        c.copied_from = self.uid
        c.mutations = list(self.mutations)
        if hasattr(self, "columns"):
            c.columns = dict(self.columns)
        return c

    def __repr__(self):
        return f"<{self.kind}#{self.uid}>"


class PolyCollection(Tag):
    def __init__(self, shells, **kw):
        super().__init__("PolyCollection", shells=shells, kwargs=dict(kw), array=None)

    def set_array(self, a):
        self.array = a
        self.mutations.append("set_array")


class LineCollection(Tag):
    def __init__(self, lines, **kw):
        super().__init__("LineCollection", lines=lines, kwargs=dict(kw))


class Polygon(Tag):
    def __init__(self, shell):
        super().__init__("Polygon", shell=shell, fixed=False)
        self.geom_type = "Polygon"

    @property
    def boundary(self):
        return Tag("LineString", geom_type="LineString", coords=self.shell, of=self)

    @property
    def exterior(self):
        return Tag("Ring", coords=Tag("coords", xy=(self.shell[:, 0], self.shell[:, 1])))


class PolyList(list):
    """what shapely.polygons(...) returns, as far as uxarray uses it: indexable by ints and by index arrays"""
    kind = "PolyList"

    @property
    def payload(self):
        return self

    def __getitem__(self, k):
        if isinstance(k, symnp.SArr):
            n = len(k)
            return PolyList([list.__getitem__(self, int(k[i])) for i in range(n)])
        if isinstance(k, slice):
            return PolyList(list.__getitem__(self, k))
        return list.__getitem__(self, int(k))


def Polygons(shells):
    """shapely.polygons(array of shells) -> sequence of polygons (one per shell)"""
    n = len(shells)
    return PolyList([Polygon(shells[i]) for i in range(n)])


class _Antimeridian:
    @staticmethod
    def fix_polygon(P, fix_winding=True):
        q = Polygon(P.shell)
        q.fixed = True
        q.fixed_from = P
        return q


antimeridian = _Antimeridian()


class _Shapely:
    polygons = staticmethod(Polygons)
    Polygon = Polygon


shapely = _Shapely()


class GeoDataFrame(Tag):
    def __init__(self, data=None, engine="spatialpandas"):
        super().__init__("GeoDataFrame", columns=dict(data or {}), engine=engine)

    def __getitem__(self, k):
        return self.columns[k]

    def __setitem__(self, k, v):
        self.columns[k] = v
        self.mutations.append(("setitem", k))

    def __contains__(self, k):
        return k in self.columns

    def copy(self, deep=True):
        import copy as _c
        return _c.deepcopy(self)


class GeomArray(Tag):
    """PolygonArray.from_exterior_coords(shells) / MultiPolygonArray(polygons) / shapely.polygons(...) column"""
    def __init__(self, kind, payload):
        super().__init__(kind, payload=payload)

    def __getitem__(self, idx):
        return GeomArray(self.kind + "[sel]", (self.payload, idx))


class PolygonArray:
    @staticmethod
    def from_exterior_coords(shells):
        return GeomArray("PolygonArray", shells)


def MultiPolygonArray(polygons):
    return GeomArray("MultiPolygonArray", polygons)


class _SP:
    @staticmethod
    def GeoDataFrame(data):
        return GeoDataFrame(data, "spatialpandas")


class _GP:
    @staticmethod
    def GeoDataFrame(data):
        return GeoDataFrame(data, "geopandas")


spatialpandas, geopandas = _SP(), _GP()


class Projection(Tag):
    """cartopy projection stand-in: transform_points is an uninterpreted pure function of its inputs"""
    def __init__(self, name, lon_0=0.0):
        super().__init__("Projection", name=name, proj4_params={"lon_0": lon_0})
        self.idx = {"P1": 1, "P2": 2, "PC": 3}.get(name.split("(")[0], 9)

    def transform_points(self, src, lon, lat):
        fx = z3.Function(f"proj_x", z3.IntSort(), z3.RealSort(), z3.RealSort(), z3.RealSort(), z3.RealSort())
        fy = z3.Function(f"proj_y", z3.IntSort(), z3.RealSort(), z3.RealSort(), z3.RealSort(), z3.RealSort())
        c = sc.lift(float(self.proj4_params["lon_0"]))
        out = []
        for lo, la in zip(symnp.asarray(lon).flat_list(), symnp.asarray(lat).flat_list()):
            lo_, la_ = _r(lo), _r(la)
            out += [mk(fx(self.idx, c, lo_, la_)), mk(fy(self.idx, c, lo_, la_))]
        n = len(out) // 2
        return symnp.SArr.new(out, (n, 2), None, symnp.float64)

    def __bool__(self):
        return True

    def __eq__(self, o):
        return isinstance(o, Projection) and o.name == self.name and o.proj4_params == self.proj4_params

    def __ne__(self, o):
        return not self.__eq__(o)

    def __hash__(self):
        return hash(self.name)


def _r(v):
    if isinstance(v, sc.SymInt):
        return z3.ToReal(v.e)
    if isinstance(v, sc.Sym):
        return v.e
    return sc.lift(float(v))


class _CCRS:
    Projection = Projection

    @staticmethod
    def PlateCarree(central_longitude=0.0):
        return Projection(f"PC({central_longitude})", central_longitude)


ccrs = _CCRS()


def install(world):
    """rebind the plotting libraries in the clone world's geometry / grid / dataarray modules; returns an undo function"""
    saved = []

    def setg(mod, name, val):
        g = world.G[mod]
        saved.append((g, name, g.get(name, None), name in g))
        g[name] = val
    geo = "uxarray.grid.geometry"
    for name, val in (("PolyCollection", PolyCollection), ("LineCollection", LineCollection), ("Polygon", Polygon), ("Polygons", Polygons),
                      ("shapely", shapely), ("geopandas", geopandas), ("spatialpandas", spatialpandas), ("PolygonArray", PolygonArray),
                      ("MultiPolygonArray", MultiPolygonArray), ("antimeridian", antimeridian), ("ccrs", ccrs)):
        setg(geo, name, val)
    setg("uxarray.grid.grid", "GeoDataFrame", lambda data: GeoDataFrame(data, "spatialpandas"))
    setg("uxarray.grid.grid", "ccrs", ccrs)
    setg("uxarray.core.dataarray", "ccrs", ccrs)
    world.stubs[("import", "antimeridian")] = antimeridian

    def undo():
        for g, name, old, had in reversed(saved):
            if had:
                g[name] = old
            else:
                g.pop(name, None)
        world.stubs.pop(("import", "antimeridian"), None)
    return undo
