"""C11 Neighbour queries agree with brute-force search under the tree's metric  (DESIGN.md section 2, C11).

Covered: (K3) Grid.get_ball_tree / get_kd_tree + the `coordinates` setter over call histories with symbolic arguments: the
tree handed back was built from the arrays of the requested element kind, in the requested coordinate system, with the
requested metric.  (UF data flow) BallTree/KDTree.query / query_radius with sklearn replaced by a recorder: the columns
handed to sklearn for the query are the same quantities, in the same order and unit, as the columns the tree was built from;
radii and returned distances are converted to/from radians exactly when the tree is spherical and in_radians=False;
k outside 1..n raises; single-point queries return the row of that point.
Outside (stated): that sklearn's search returns the true k nearest / radius set (compiled Cython)."""
import math
import z3
import numpy as np
from symex import core as sc, symnp, symxr
from symex.core import mk
from symex.runner import Obligation, world
from . import common as C
from .common import F

ROWS = [[0, 1, 2, 3], [1, 4, 2, F]]
N_NODE = 5
KINDS = ["nodes", "face centers", "edge centers"]
SYSTEMS = ["spherical", "cartesian"]
PFX = {"nodes": "node", "face centers": "face", "edge centers": "edge"}
FUNCS = ["Grid.get_ball_tree", "Grid.get_kd_tree", "neighbors.BallTree", "neighbors.KDTree", "BallTree/KDTree._build_from_*", "BallTree/KDTree.coordinates setter",
         "BallTree/KDTree.query", "BallTree/KDTree.query_radius", "neighbors._prepare_xy_for_query", "neighbors._prepare_xyz_for_query"]
STUBS = ["sklearn.neighbors.BallTree / KDTree -> recorder holding the coordinate array and metric it was built with; query returns fresh symbolic (d >= 0, index) arrays"]


class SKTree:
    def __init__(self, coords, metric="minkowski", **kw):
        self.coords, self.metric, self.kw = coords, metric, kw
        self.queries = []
        self.kwargs = []

    def query(self, X, k=1, return_distance=True, dualtree=False, breadth_first=False, sort_results=True):
        nq = X.shape_cap[0]
        e = sc.eng()
        d = [mk(e.fresh("d", "Real")) for _ in range(nq * k)]
        for x in d:
            e.solver.add(sc.z(x) >= 0)
        ind = [mk(e.fresh("ind", "Int")) for _ in range(nq * k)]
        self.queries.append(("query", X, k, d, ind))
        self.kwargs.append({"return_distance": return_distance, "sort_results": sort_results, "dualtree": dualtree, "breadth_first": breadth_first})
        D, I = symnp.SArr.new(d, (nq, k), None, symnp.float64), symnp.SArr.new(ind, (nq, k), None, symnp.int64)
        return (D, I) if return_distance else I

    def query_radius(self, X, r, return_distance=False, count_only=False, sort_results=False):
        nq = X.shape_cap[0]
        e = sc.eng()
        self.queries.append(("radius", X, r, None, None))
        if count_only:
            return symnp.SArr.new([mk(e.fresh("cnt", "Int")) for _ in range(nq)], (nq,), None, symnp.int64)
        ind = [symnp.SArr.new([mk(e.fresh("ind", "Int")) for _ in range(2)], (2,), None, symnp.int64) for _ in range(nq)]
        d = [symnp.SArr.new([mk(e.fresh("d", "Real")) for _ in range(2)], (2,), None, symnp.float64) for _ in range(nq)]
        self.queries[-1] = ("radius", X, r, d, ind)
        return (ind, d) if return_distance else ind


def _install(w):
    g = w.G["uxarray.grid.neighbors"]
    saved = (g["SKBallTree"], g["SKKDTree"])
    g["SKBallTree"], g["SKKDTree"] = SKTree, SKTree

    def undo():
        g["SKBallTree"], g["SKKDTree"] = saved
    return undo


def _grid():
    lon, lat = C.default_lonlat(N_NODE)
    return C.clone_grid(symnp.array(ROWS), lon, lat)


def _fp(x):
    if isinstance(x, sc.Sym):
        return ("t", x.e.get_id())
    return float(x)


def _expected_coords(g, kind, system):
    p = PFX[kind]
    if system == "cartesian":
        cols = [getattr(g, f"{p}_{a}").values.flat_list() for a in "xyz"]
    else:
        k = math.pi / 180
        cols = [[math.radians(float(_c(v))) for v in getattr(g, f"{p}_lat").values.flat_list()], [math.radians(float(_c(v))) for v in getattr(g, f"{p}_lon").values.flat_list()]]
    n = len(cols[0])
    return [[cols[c][i] for c in range(len(cols))] for i in range(n)]


def _c(v):
    if isinstance(v, sc.SymReal):
        return v.e.as_fraction()
    return v


def _tree_matches(tree, g, kind, system, metric):
    exp = _expected_coords(g, kind, system)
    got = tree.coords
    if got.shape_cap != (len(exp), len(exp[0])):
        return False, f"tree built from an array of shape {got.shape_cap}, expected {(len(exp), len(exp[0]))}"
    fl = got.flat_list()
    w = len(exp[0])
    for i, row in enumerate(exp):
        for c, e in enumerate(row):
            if abs(float(_c(fl[i * w + c])) - float(_c(e))) > 1e-12:
                return False, f"tree row {i} = {[float(_c(x)) for x in fl[i * w:(i + 1) * w]]}, expected {[float(_c(x)) for x in row]} ({kind}, {system})"
    if tree.metric != metric:
        return False, f"tree metric {tree.metric}, requested {metric}"
    return True, ""


# ------------------------------------------------------------------ tree cache histories
def make_cache(oid, which, n_calls=2, tiers=("quick", "thorough"), same_config=False):
    """same_config: every call uses the first system/metric and reconstruct=False (longer histories that only switch the element kind)"""
    METRICS = ["haversine", "minkowski"] if which == "ball" else ["minkowski", "chebyshev"]

    def setup(ctx):
        ctx.const("which", which)
        calls = []
        for i in range(n_calls):
            calls.append(dict(kind=ctx.enum(f"kind{i}", KINDS), system=ctx.enum(f"system{i}", SYSTEMS), metric=ctx.enum(f"metric{i}", METRICS), rec=ctx.bool(f"reconstruct{i}")))
            if same_config:
                ctx.assume(calls[-1]["system"].e == 0, calls[-1]["metric"].e == 0, z3.Not(sc.z(calls[-1]["rec"])))
        return calls

    def run(ctx, calls):
        undo = _install(world())
        try:
            g = _grid()
            for i, c in enumerate(calls):
                kind, system, metric, rec = c["kind"].concrete(), c["system"].concrete(), c["metric"].concrete(), bool(c["rec"])
                get = g.get_ball_tree if which == "ball" else g.get_kd_tree
                t = get(coordinates=kind, coordinate_system=system, distance_metric=metric, reconstruct=rec)
                ok, why = _tree_matches(t._current_tree(), g, kind, system, metric)
                ok2 = (t.coordinates == kind and t.coordinate_system == system and t.distance_metric == metric)
                n_el = {"nodes": g.n_node, "face centers": g.n_face, "edge centers": g.n_edge}[kind]
                ctx.prove(f"call {i}: the tree handed back reflects the element kind, coordinate system and metric requested in that call",
                          ok and ok2 and t._n_elements == n_el, note=why or f"reported ({t.coordinates},{t.coordinate_system},{t.distance_metric}), n={t._n_elements}",
                          regions={"tree_cache_ignores_system_and_metric": True})
        finally:
            undo()

    def replay(v):
        g = C.real_grid(ROWS, *C.default_lonlat(N_NODE))
        for i in range(n_calls):
            kind, system, metric, rec = KINDS[v[f"kind{i}"]], SYSTEMS[v[f"system{i}"]], METRICS[v[f"metric{i}"]], bool(v[f"reconstruct{i}"])
            get = g.get_ball_tree if which == "ball" else g.get_kd_tree
            try:
                t = get(coordinates=kind, coordinate_system=system, distance_metric=metric, reconstruct=rec)
            except Exception as ex:    # noqa: BLE001   (e.g. haversine on 3-column data: rejected by sklearn)
                if system == "cartesian" and metric == "haversine":
                    return None
                return f"call {i} ({kind},{system},{metric}) raised {ex!r}"
            sk = t._current_tree()
            p = PFX[kind]
            if system == "cartesian":
                exp = np.stack([getattr(g, f"{p}_{a}").values for a in "xyz"], axis=-1)
            else:
                exp = np.vstack([np.deg2rad(getattr(g, f"{p}_lat").values), np.deg2rad(getattr(g, f"{p}_lon").values)]).T
            data = np.asarray(sk.data)
            n_el = {"nodes": g.n_node, "face centers": g.n_face, "edge centers": g.n_edge}[kind]
            try:
                t.query(exp[0], k=n_el, in_radians=True)          # every element of the requested kind can be asked for
            except Exception as ex:    # noqa: BLE001
                return (f"call {i}: requested ({kind}, {system}, {metric}) after {[(KINDS[v[f'kind{j}']], SYSTEMS[v[f'system{j}']], METRICS[v[f'metric{j}']]) for j in range(i)]}: "
                        f"query(k={n_el}) for all {n_el} elements raised {type(ex).__name__}: {str(ex)[:100]}")
            if data.shape != exp.shape or not np.allclose(data, exp) or t.coordinate_system != system or t.distance_metric != metric or t.coordinates != kind:
                return (f"call {i}: requested ({kind}, {system}, {metric}, reconstruct={rec}) after {[(KINDS[v[f'kind{j}']], SYSTEMS[v[f'system{j}']], METRICS[v[f'metric{j}']]) for j in range(i)]}: "
                        f"tree holds data of shape {data.shape} (expected {exp.shape}), reports ({t.coordinates}, {t.coordinate_system}, {t.distance_metric})")
        return None

    return Obligation(oid, f"get_{which}_tree history of {n_calls} calls with symbolic (kind, coordinate system, metric, reconstruct)", setup, run, replay, exact=True,
                      functions=FUNCS, bounds=f"{n_calls} calls x 3 element kinds x 2 coordinate systems x 2 metrics x reconstruct", stubs=STUBS, tiers=tiers, max_paths=20000)


def make_reconstruct(oid, which):
    """tree requested, the grid's face centres replaced through the public setters, tree requested again with reconstruct=True (what remapping does):
    the tree handed back holds the CURRENT centres"""
    NEW_LON, NEW_LAT = [33.0, -41.0], [12.0, -27.0]

    def setup(ctx):
        ctx.const("which", which)
        return dict(system=ctx.enum("system", SYSTEMS), first_rec=ctx.bool("reconstruct_first"))

    def steps(g, system, first_rec, DA, arr):
        get = g.get_ball_tree if which == "ball" else g.get_kd_tree
        metric = "haversine" if (which == "ball" and system == "spherical") else "minkowski"
        get(coordinates="face centers", coordinate_system=system, distance_metric=metric, reconstruct=first_rec)
        g.face_lon = DA(arr(NEW_LON), dims=["n_face"])
        g.face_lat = DA(arr(NEW_LAT), dims=["n_face"])
        if system == "cartesian":
            k = math.pi / 180
            xyz = [[math.cos(la * k) * math.cos(lo * k) for lo, la in zip(NEW_LON, NEW_LAT)], [math.cos(la * k) * math.sin(lo * k) for lo, la in zip(NEW_LON, NEW_LAT)],
                   [math.sin(la * k) for la in NEW_LAT]]
            g.face_x, g.face_y, g.face_z = (DA(arr(c), dims=["n_face"]) for c in xyz)
        return get(coordinates="face centers", coordinate_system=system, distance_metric=metric, reconstruct=True), metric

    def run(ctx, inp):
        undo = _install(world())
        try:
            g = _grid()
            system = inp["system"].concrete()
            t, metric = steps(g, system, bool(inp["first_rec"]), symxr.DataArray, lambda v: C.sarr_1d(v, symnp.float64))
            ok, why = _tree_matches(t._current_tree(), g, "face centers", system, metric)
            ctx.prove("after the face centres were replaced, a reconstruct=True request hands back a tree built from the current centres", ok, note=why)
        finally:
            undo()

    def replay(v):
        import xarray as xr
        g = C.real_grid(ROWS, *C.default_lonlat(N_NODE))
        system = SYSTEMS[int(v["system"])]
        t, metric = steps(g, system, bool(v["reconstruct_first"]), xr.DataArray, lambda x: np.array(x, dtype=float))
        data = np.asarray(t._current_tree().data)
        if system == "cartesian":
            exp = np.stack([g.face_x.values, g.face_y.values, g.face_z.values], axis=-1)
        else:
            exp = np.vstack([np.deg2rad(g.face_lat.values), np.deg2rad(g.face_lon.values)]).T
        if data.shape != exp.shape or not np.allclose(data, exp):
            return (f"get_{which}_tree('face centers', {system}, reconstruct=True) after the face centres were set to lon {NEW_LON} lat {NEW_LAT}: the tree still holds {data.tolist()}, "
                    f"the grid's centres are {exp.tolist()} (nearest-neighbour queries and remapping use stale positions)")
        return None

    return Obligation(oid, f"get_{which}_tree: reconstruct=True after the face centres changed", setup, run, replay, exact=True, functions=FUNCS + ["Grid.face_lon/face_lat/face_x/y/z setters"],
                      bounds="2 faces; coordinate system and the first call's reconstruct flag symbolic; new centres fixed", stubs=STUBS)


# ------------------------------------------------------------------ query data flow
def make_query(oid, which, system, metric, batched, in_radians, op, tiers=("quick", "thorough")):
    nq = {False: 1, True: 2}.get(batched, batched)      # batched may also be a number of query points (3: a 3x3 Cartesian batch)

    def setup(ctx):
        for k, v in (("which", which), ("system", system), ("metric", metric), ("batched", batched), ("in_radians", in_radians), ("op", op)):
            ctx.const(k, v)
        width = 2 if system == "spherical" else 3
        q = [[z3.Real(f"q_{i}_{c}") for c in range(width)] for i in range(nq)]
        for row in q:
            for x in row:
                ctx.solver.add(x >= -3, x <= 3)
        ctx.eng.declare("q", q)
        k = ctx.int("k", 0, 7)
        r = ctx.real("r", -1, 3)
        return q, k, r

    def run(ctx, inp):
        q, k, r = inp
        undo = _install(world())
        try:
            g = _grid()
            cls = world().get("uxarray.grid.neighbors", "BallTree" if which == "ball" else "KDTree")
            t = cls(g, coordinates="nodes", coordinate_system=system, distance_metric=metric)
            sk = t._current_tree()
            Q = symnp.SArr.new([mk(x) for row in q for x in row], (nq, len(q[0])) if batched else (len(q[0]),), None, symnp.float64)
            conv = sc.lift(symnp.PI_Q) / 180
            if op == "query":
                kk = sc.concretize(k)
                try:
                    d, ind = t.query(Q, k=kk, in_radians=in_radians, return_distance=True)
                    raised = False
                except AssertionError:
                    raised = True
                ctx.prove("k outside 1..n_elements raises, inside it does not", raised == (kk < 1 or kk > N_NODE))
                if raised:
                    return
                _, X, k_, d0, i0 = sk.queries[-1]
                ctx.prove("k passed through", k_ == kk)
                # the index-only form of the same query: still 'nearest first', i.e. the tree is asked for sorted results
                only = t.query(Q, k=kk, in_radians=in_radians, return_distance=False)
                _, X2, k2, d2, i2 = sk.queries[-1]
                oi = symnp.asarray(only)
                ctx.prove("index-only query (return_distance=False): same k, the tree is asked for results sorted nearest first, and its indices are returned as they come",
                          z3.And(z3.BoolVal(k2 == kk and bool(sk.kwargs[-1]["sort_results"]) and tuple(oi.shape_cap) == tuple((nq, kk) if batched else ((kk,) if kk > 1 else ()))),
                                 *[sc.z(a) == sc.z(b) for a, b in zip(oi.flat_list(), i2)]))
            else:
                try:
                    d, ind = t.query_radius(Q, r=r, in_radians=in_radians, return_distance=True)
                    raised = False
                except AssertionError:
                    raised = True
                ctx.prove("negative radius raises", sc.z(raised) == (sc.z(r) < 0) if not isinstance(raised, bool) else z3.BoolVal(raised) == (sc.z(r) < 0))
                if raised:
                    return
                _, X, r_, d0, i0 = sk.queries[-1]
                exp_r = sc.z(r) * conv if (system == "spherical" and not in_radians) else sc.z(r)
                ctx.prove("radius handed to the tree is in the tree's unit (degrees -> radians exactly when the tree is spherical and in_radians=False)",
                          _zr(r_) == exp_r, regions={"radius_unit": True})
            ctx.prove("the caller's query array is left unchanged", z3.And(*[_zr(a) == b for a, b in zip(Q.flat_list(), [x for row in q for x in row])]))
            # the query columns: same quantities / order / unit as the columns the tree was built from
            Xf = X.flat_list()
            w = X.shape_cap[1]
            cl = [z3.BoolVal(X.shape_cap == (nq, 3 if system == "cartesian" else 2))]
            for i in range(nq):
                if system == "cartesian":
                    exp = [q[i][0], q[i][1], q[i][2]]
                else:
                    lon_, lat_ = q[i][0], q[i][1]                                   # query points are given as (lon, lat)
                    exp = [lat_ * (1 if in_radians else conv), lon_ * (1 if in_radians else conv)]    # the tree's columns are (lat, lon) in radians
                if X.shape_cap == (nq, len(exp)):
                    cl += [_zr(Xf[i * w + c]) == exp[c] for c in range(len(exp))]
            ctx.prove("query columns = the query point in the order and unit of the tree's own columns ((lat, lon) radians for spherical trees, xyz for Cartesian)",
                      z3.And(*cl), regions={"query_columns": True})
            # returned distances / indices
            scale = 180 / sc.lift(symnp.PI_Q) if (system == "spherical" and not in_radians) else 1
            if op == "query":
                dd = symnp.asarray(d)
                ii = symnp.asarray(ind)
                want_shape = (nq, kk) if batched else ((kk,) if kk > 1 else ())
                cl = [z3.BoolVal(tuple(dd.shape_cap) == tuple(want_shape) and tuple(ii.shape_cap) == tuple(want_shape))]
                if tuple(dd.shape_cap) == tuple(want_shape):
                    cl += [_zr(a) == sc.z(b) * scale for a, b in zip(dd.flat_list(), d0)]
                    cl += [sc.z(a) == sc.z(b) for a, b in zip(ii.flat_list(), i0)]
                ctx.prove("returned distances = tree distances converted to degrees exactly when spherical and in_radians=False; row i answers query i; squeeze for single points",
                          z3.And(*cl), regions={"distance_unit": True})
            else:
                rows_d = d if batched else [d]
                rows_i = ind if batched else [ind]
                cl = [z3.BoolVal(len(rows_d) == nq)]
                if len(rows_d) == nq:
                    for i in range(nq):
                        a, b = symnp.asarray(rows_d[i]).flat_list(), d0[i].flat_list()
                        cl.append(z3.BoolVal(len(a) == len(b)))
                        cl += [_zr(x) == sc.z(y) * scale for x, y in zip(a, b)]
                        cl += [sc.z(x) == sc.z(y) for x, y in zip(symnp.asarray(rows_i[i]).flat_list(), i0[i].flat_list())]
                ctx.prove("radius query: per-point result lists, distances converted like query()", z3.And(*cl), regions={"distance_unit": True})
        finally:
            undo()

    def replay(v):
        # brute force under the tree's metric on the real library
        lon, lat = C.default_lonlat(N_NODE)
        g = C.real_grid(ROWS, lon, lat)
        from uxarray.grid.neighbors import BallTree, KDTree
        t = (BallTree if which == "ball" else KDTree)(g, coordinates="nodes", coordinate_system=system, distance_metric=metric)
        # move the symbolic query points near real nodes so that the nearest element is unambiguous
        pts = []
        for i in range(nq):
            n = (1 + 2 * i) % N_NODE
            if system == "cartesian":
                pts.append([float(g.node_x.values[n]), float(g.node_y.values[n]), float(g.node_z.values[n])])
            else:
                p = [lon[n] + 0.3, lat[n] - 0.2]
                pts.append([math.radians(x) for x in p] if in_radians else p)
        Q = np.array(pts if batched else pts[0], dtype=float)

        def dist(i, p):
            if system == "cartesian":
                return float(np.linalg.norm(np.array([g.node_x.values[i], g.node_y.values[i], g.node_z.values[i]]) - np.array(p)))
            plon, plat = (p if in_radians else [math.radians(x) for x in p])
            nlon, nlat = math.radians(lon[i]), math.radians(lat[i])
            if metric == "haversine":
                a = math.sin((nlat - plat) / 2) ** 2 + math.cos(plat) * math.cos(nlat) * math.sin((nlon - plon) / 2) ** 2
                dd = 2 * math.asin(math.sqrt(a))
            else:
                dd = math.hypot(nlat - plat, nlon - plon)
            return dd if in_radians else math.degrees(dd)
        if op == "query":
            k = int(v["k"])
            try:
                d, ind = t.query(Q, k=k, in_radians=in_radians, return_distance=True)
            except AssertionError:
                return None if (k < 1 or k > N_NODE) else f"query(k={k}) raised for a valid k"
            if k < 1 or k > N_NODE:
                return f"query(k={k}) did not raise"
            Q0 = Q.copy()
            d, ind = t.query(Q, k=k, in_radians=in_radians, return_distance=True)      # same array object again
            if not np.array_equal(Q, Q0):
                return f"query() modified the caller's query array: {Q0.tolist()} -> {Q.tolist()}"
            d, ind = np.asarray(d, dtype=float).reshape(nq, k), np.asarray(ind).reshape(nq, k)
            for i in range(nq):
                order = sorted(range(N_NODE), key=lambda n: dist(n, pts[i]))[:k]
                if [int(x) for x in ind[i]] != order:
                    return f"{which} tree ({system},{metric}) query {pts[i]} (in_radians={in_radians}) returned {ind[i].tolist()}, brute force under the tree's metric gives {order}"
                exp = [dist(n, pts[i]) for n in order]
                if not np.allclose(d[i], exp, rtol=1e-6, atol=1e-9):
                    return f"{which} tree ({system},{metric}) distances {d[i].tolist()} for query {pts[i]} (in_radians={in_radians}), brute force gives {exp}"
            only = np.asarray(t.query(Q, k=k, in_radians=in_radians, return_distance=False)).reshape(nq, k)
            for i in range(nq):
                order = sorted(range(N_NODE), key=lambda n: dist(n, pts[i]))[:k]
                if [int(x) for x in only[i]] != order:
                    return f"{which} tree ({system},{metric}) index-only query {pts[i]} k={k} returned {only[i].tolist()}, nearest first is {order}"
        else:
            r = float(v["r"])
            if r < 0:
                return None
            rr = 1.0 if in_radians else 57.0
            if system == "cartesian":
                rr = 0.6
            dl, il = t.query_radius(Q, r=rr, in_radians=in_radians, return_distance=True)
            if not batched:
                dl, il = [dl], [il]
            for i in range(nq):
                exp = sorted(n for n in range(N_NODE) if dist(n, pts[i]) <= rr)
                if sorted(int(x) for x in il[i]) != exp:
                    return f"{which} tree ({system},{metric}) query_radius(r={rr}, in_radians={in_radians}) at {pts[i]} returned {sorted(int(x) for x in il[i])}, brute force gives {exp}"
        return None

    return Obligation(oid, f"{which} tree {system}/{metric}: {op}, {'batched' if batched else 'single point'}, in_radians={in_radians}", setup, run, replay, exact=False,
                      functions=FUNCS, bounds="tree on 5 nodes; 1-2 query points with symbolic coordinates; k in 0..7 (forked), radius in [-1,3]", stubs=STUBS, tiers=tiers)


def _zr(v):
    v = sc.z(v)
    return z3.ToReal(v) if z3.is_int(v) else v


def obligations(tier):
    obs = [make_cache("C11.cache.ball", "ball"), make_cache("C11.cache.kd", "kd"),
           make_cache("C11.cache.ball3", "ball", 3, tiers=("thorough",)), make_cache("C11.cache.kd3", "kd", 3, tiers=("thorough",)),
           make_cache("C11.cache.ball.kinds3", "ball", 3, same_config=True), make_cache("C11.cache.kd.kinds3", "kd", 3, same_config=True)]
    for which, system, metric in (("ball", "spherical", "haversine"), ("ball", "cartesian", "minkowski"), ("kd", "cartesian", "minkowski"), ("kd", "spherical", "minkowski")):
        for batched in (False, True):
            for rad in (False, True):
                if system == "cartesian" and rad:
                    continue
                tag = f"{which}.{system[:3]}.{'batch' if batched else 'single'}.{'rad' if rad else 'deg'}"
                obs.append(make_query(f"C11.query.{tag}", which, system, metric, batched, rad, "query"))
                obs.append(make_query(f"C11.radius.{tag}", which, system, metric, batched, rad, "radius"))
    obs += [make_reconstruct("C11.cache.ball.reconstruct_after_setter", "ball"), make_reconstruct("C11.cache.kd.reconstruct_after_setter", "kd")]
    obs += [make_query("C11.query.kd.car.batch3.deg", "kd", "cartesian", "minkowski", 3, False, "query"),
            make_query("C11.radius.ball.car.batch3.deg", "ball", "cartesian", "minkowski", 3, False, "radius")]
    return [o for o in obs if tier in o.tiers]
