"""C02 Derived edges are exactly the boundary segments of the faces (DESIGN.md section 2, C02).

Real code executed (through the cloned Grid's public properties): Grid.edge_node_connectivity,
.face_edge_connectivity, .n_edge, .n_nodes_per_face, .n_max_face_edges -> _populate_* ->
close_face_nodes, _build_edge_node_connectivity, _build_face_edge_connectivity, _build_n_nodes_per_face."""
import z3
import numpy as np
from symex import core as sc, symnp, symxr
from symex.core import mk
from symex.runner import Obligation, world
from . import common as C
from .common import F

FUNCS = ["Grid.edge_node_connectivity", "Grid.face_edge_connectivity", "Grid.n_edge", "Grid.n_nodes_per_face",
         "Grid.n_max_face_edges", "connectivity._populate_edge_node_connectivity", "connectivity._build_edge_node_connectivity",
         "connectivity.close_face_nodes", "connectivity._populate_face_edge_connectivity",
         "connectivity._build_face_edge_connectivity", "connectivity._populate_n_nodes_per_face",
         "connectivity._build_n_nodes_per_face"]

ORDERS = {
    "A": ["edge_node_connectivity", "face_edge_connectivity", "n_edge", "n_nodes_per_face"],
    "B": ["face_edge_connectivity", "n_nodes_per_face", "edge_node_connectivity", "n_edge"],
    "C": ["n_edge", "n_nodes_per_face", "face_edge_connectivity", "edge_node_connectivity"],
}


def _nxt(fn, nf, f, j, n_max):
    return z3.If(j + 1 < nf[f], fn[f][(j + 1) % n_max], fn[f][0])


def make(oid, n_face, n_max, n_node, order="A", sizes=None, fixed=None, tiers=("quick", "thorough"), unique_mode="relational",
         part=None, cost=1, title=None, forder=False):
    """forder: the caller's face-node table is column-major in memory (np.asfortranarray) - same values, different view/copy
    behaviour of numpy downstream"""
    lon, lat = C.default_lonlat(n_node)

    def setup(ctx):
        fn, nf = C.sym_face_table(ctx, n_face, n_max, n_node, sizes=sizes)
        if fixed is not None:
            fixed(ctx, fn, nf)
        return fn, nf

    def run(ctx, inp):
        fn, nf = inp
        symnp.UNIQUE_MODE[0] = unique_mode
        symnp.CAP[0] = n_face * n_max
        arr = C.sarr_int(fn)
        arr.forder = forder
        g = C.clone_grid(arr, lon, lat)
        got = {}
        for name in ORDERS[order]:
            got[name] = getattr(g, name)
        en = got["edge_node_connectivity"].values
        fe = got["face_edge_connectivity"].values
        n_edge = got["n_edge"]
        nnpf = got["n_nodes_per_face"].values
        ne = sc.lift(n_edge)
        cap = en.shape_cap[0]
        ctx.reachable("n_edge>=3", n_edge >= 3)
        ctx.prove("shape", sc.and_(fe.shape_cap == (n_face, n_max), en.shape_cap[1:] == (2,), g.n_max_face_edges == n_max,
                                   en.shape[0] == n_edge))
        enr = en.raw()
        E = [[sc.lift(enr[i, 0]), sc.lift(enr[i, 1])] for i in range(cap)]
        # (a)+(c) per face
        if part in (None, "faces"):
            for f in range(n_face):
                cl = [sc.lift(nnpf[f]) == nf[f]]
                for j in range(n_max):
                    a, b = fn[f][j], _nxt(fn, nf, f, j, n_max)
                    fej = sc.lift(fe[f, j])
                    hit = z3.Or(*[z3.And(fej == i, z3.Or(z3.And(E[i][0] == a, E[i][1] == b), z3.And(E[i][0] == b, E[i][1] == a)))
                                  for i in range(cap)])
                    cl.append(z3.If(j < nf[f], z3.And(fej >= 0, fej < ne, hit), fej == F))
                ctx.prove(f"face{f}:face_edge+n_nodes_per_face", z3.And(*cl))
        # (b) every edge row is a boundary segment, fill free, rows pairwise distinct; count is exact because (a) makes it onto
        if part in (None, "rows"):
            cl = [ne >= 0, ne <= cap]
            for i in range(cap):
                onto = z3.Or(*[z3.And(j < nf[f], z3.Or(z3.And(E[i][0] == fn[f][j], E[i][1] == _nxt(fn, nf, f, j, n_max)),
                                                       z3.And(E[i][1] == fn[f][j], E[i][0] == _nxt(fn, nf, f, j, n_max))))
                               for f in range(n_face) for j in range(n_max)])
                cl.append(z3.Implies(i < ne, z3.And(E[i][0] != F, E[i][1] != F, onto)))
                for k in range(i + 1, cap):
                    cl.append(z3.Implies(k < ne, z3.Not(z3.Or(z3.And(E[i][0] == E[k][0], E[i][1] == E[k][1]),
                                                              z3.And(E[i][0] == E[k][1], E[i][1] == E[k][0])))))
            ctx.prove("rows:edge_node exact set", z3.And(*cl))
        if fixed is not None and getattr(fixed, "closed", False) and part in (None, "euler"):
            ctx.prove("euler", n_node - ne + n_face == 2)

    def replay(vals):
        rows = C.model_table(vals)
        g = C.real_grid(np.asfortranarray(np.array(rows, dtype=np.intp)) if forder else rows, lon, lat)
        if forder and n_face > 1:
            assert g.face_node_connectivity.values.flags.f_contiguous
        got = {}
        for name in ORDERS[order]:
            got[name] = getattr(g, name)
        return C.check_edge_tables(rows, got["edge_node_connectivity"].values, got["face_edge_connectivity"].values,
                                   got["n_edge"], got["n_nodes_per_face"].values, n_max)

    def validate():
        return _validate_shim(order)

    return Obligation(oid, title or f"edge tables, {n_face} faces x <= {n_max} corners, nodes < {n_node}, access order {order}",
                      setup, run, replay, exact=True, functions=FUNCS,
                      bounds=f"n_face={n_face}, 3<=corners<={n_max} (all padding layouts), node ids<{n_node}, any numbering/start corner; unique={unique_mode}",
                      stubs=[], assumptions=["face-node table in standard form, corners of one face pairwise distinct"],
                      tiers=tiers, validate=validate, cost=cost, timeout_s=3000, query_timeout_s=1500)


def make_supplied_edges(oid, tiers=("quick", "thorough")):
    """the source supplies edge_node_connectivity (its own numbering and orientation of the edges) but no face_edge_connectivity"""
    ROWS = [[0, 1, 2, 3], [1, 4, 2, F]]
    n_node = 5
    lon, lat = C.default_lonlat(n_node)
    REF = [(0, 1), (1, 2), (2, 3), (3, 0), (1, 4), (4, 2)]
    PERMS = [(0, 1, 2, 3, 4, 5), (5, 4, 3, 2, 1, 0), (2, 0, 5, 1, 4, 3), (3, 5, 1, 0, 2, 4), (1, 3, 0, 4, 5, 2)]

    def setup(ctx):
        perm = ctx.enum("perm", list(range(len(PERMS))))
        flip = [ctx.bool(f"flip_{e}") for e in range(len(REF))]
        return perm, flip

    def table(perm_idx, flips, If):
        rows = []
        for pos in range(len(REF)):
            a, b = REF[PERMS[perm_idx][pos]]
            rows.append([If(flips[pos], b, a), If(flips[pos], a, b)])
        return rows

    def run(ctx, inp):
        perm, flip = inp
        pi = sc.concretize(sc.SymInt(perm.e))
        E = table(pi, [sc.z(f) for f in flip], lambda c, x, y: z3.If(c, x, y))
        en = symnp.SArr.new([mk(x) for r in E for x in r], (len(REF), 2), None, symnp.int64)
        before = en.flat_list()
        extra = {"edge_node_connectivity": symxr.DataArray(en, dims=["n_edge", "two"], attrs={"cf_role": "edge_node_connectivity", "_FillValue": F, "start_index": 0})}
        g = C.clone_grid(symnp.array(ROWS), lon, lat, extra=extra)
        fe = g.face_edge_connectivity.values
        now = g.edge_node_connectivity.values
        ctx.prove("the edges supplied by the source are reported as supplied (same numbering and orientation) after face_edge_connectivity was derived",
                  z3.And(z3.BoolVal(now.shape_cap == (len(REF), 2)), *[sc.z(a) == sc.z(b) for a, b in zip(now.flat_list(), before)]) if now.shape_cap == (len(REF), 2) else False)
        cl = []
        for f, row in enumerate(ROWS):
            c = C.face_corners(row)
            for j in range(len(row)):
                fej = sc.z(fe[f, j])
                if j < len(c):
                    a, b = c[j], c[(j + 1) % len(c)]
                    hit = z3.Or(*[z3.And(fej == i, z3.Or(z3.And(sc.z(E[i][0]) == a, sc.z(E[i][1]) == b), z3.And(sc.z(E[i][0]) == b, sc.z(E[i][1]) == a))) for i in range(len(REF))])
                    cl.append(hit)
                else:
                    cl.append(fej == F)
        ctx.prove("face_edge_connectivity[f, j] is the index, in the supplied table, of the edge joining corner j and corner j+1", z3.And(*cl))
        ctx.prove("n_edge is the number of supplied edges", g.n_edge == len(REF))

    def replay(v):
        import xarray as xr
        E = table(int(v["perm"]), [bool(v[f"flip_{e}"]) for e in range(len(REF))], lambda c, x, y: x if c else y)
        extra = {"edge_node_connectivity": xr.DataArray(np.array(E, dtype=np.intp), dims=["n_edge", "two"], attrs={"cf_role": "edge_node_connectivity", "_FillValue": F, "start_index": 0})}
        g = C.real_grid(ROWS, lon, lat, extra=extra)
        fe = g.face_edge_connectivity.values
        now = g.edge_node_connectivity.values
        if now.shape != (len(REF), 2) or not np.array_equal(now, np.array(E)):
            return f"edge_node_connectivity supplied as {E} is reported as {now.tolist()} after face_edge_connectivity was read"
        for f, row in enumerate(ROWS):
            c = C.face_corners(row)
            for j in range(len(row)):
                if j < len(c):
                    if fe[f, j] == F or set(E[int(fe[f, j])]) != {c[j], c[(j + 1) % len(c)]}:
                        return f"face_edge_connectivity[{f},{j}] = {fe[f, j]} does not index the supplied edge joining nodes {c[j]},{c[(j + 1) % len(c)]} (supplied table {E})"
                elif fe[f, j] != F:
                    return f"face_edge_connectivity[{f},{j}] should be padding"
        return None

    return Obligation(oid, "edge tables when the source supplies edge_node_connectivity in its own numbering", setup, run, replay, exact=True, functions=FUNCS,
                      bounds="2 faces (4+3 corners) over 5 nodes; 5 edge orders x every orientation of the 6 edges", tiers=tiers, cost=3, max_paths=2000)


_TABLES = [
    [[0, 1, 2, F], [1, 3, 2, F]],
    [[0, 1, 2, 3], [4, 5, 6, F]],
    [[3, 4, 5, F], [3, 0, 2, 5], [3, 4, 1, 0], [0, 1, 2, F]],
    [[0, 1, 2, 3, 4, 5]],
    [[2, 0, 1], [1, 0, 3], [3, 0, 2], [1, 3, 2]],
]


def make_history(oid, n_face, n_max, n_node, tiers=("quick", "thorough"), first=None):
    """a second grid's edge tables do not depend on a grid whose edges were derived before in the same process;
    first=(n_face0, n_max0): the earlier grid has another shape (same number of table entries: memo keys built from the flat content collide)"""
    lon, lat = C.default_lonlat(n_node)
    nf0, nm0 = first or (n_face, n_max)

    def setup(ctx):
        fa, na = C.sym_face_table(ctx, nf0, nm0, n_node, prefix="fa")
        fn, nf = C.sym_face_table(ctx, n_face, n_max, n_node, prefix="fn")
        return fa, fn, nf

    def run(ctx, inp):
        fa, fn, nf = inp
        symnp.UNIQUE_MODE[0] = "relational"
        symnp.CAP[0] = max(n_face * n_max, nf0 * nm0)
        g0 = C.clone_grid(C.sarr_int(fa), lon, lat)
        g0.face_edge_connectivity, g0.n_edge
        g = C.clone_grid(C.sarr_int(fn), lon, lat)
        en, fe, n_edge, nnpf = g.edge_node_connectivity.values, g.face_edge_connectivity.values, g.n_edge, g.n_nodes_per_face.values
        ne = sc.lift(n_edge)
        enr = en.raw()
        cap = enr.shape_cap[0]
        E = [[sc.lift(enr[i, 0]), sc.lift(enr[i, 1])] for i in range(cap)]
        cl = []
        for f in range(n_face):
            cl.append(sc.lift(nnpf[f]) == nf[f])
            for j in range(n_max):
                a, b = fn[f][j], _nxt(fn, nf, f, j, n_max)
                fej = sc.lift(fe[f, j])
                hit = z3.Or(*[z3.And(fej == i, z3.Or(z3.And(E[i][0] == a, E[i][1] == b), z3.And(E[i][0] == b, E[i][1] == a))) for i in range(cap)])
                cl.append(z3.If(j < nf[f], z3.And(fej >= 0, fej < ne, hit), fej == F))
        for i in range(cap):
            for k in range(i + 1, cap):
                cl.append(z3.Implies(k < ne, z3.Not(z3.Or(z3.And(E[i][0] == E[k][0], E[i][1] == E[k][1]), z3.And(E[i][0] == E[k][1], E[i][1] == E[k][0])))))
        ctx.prove("second grid: edge tables are those of its own faces", z3.And(*cl))

    def replay(vals):
        g0 = C.real_grid(C.model_table(vals, "fa"), lon, lat)
        g0.face_edge_connectivity, g0.n_edge
        rows = C.model_table(vals, "fn")
        g = C.real_grid(rows, lon, lat)
        r = C.check_edge_tables(rows, g.edge_node_connectivity.values, g.face_edge_connectivity.values, g.n_edge, g.n_nodes_per_face.values, n_max)
        if r:
            return r + f" (after deriving edges of another grid {C.model_table(vals, 'fa')})"
        return None

    return Obligation(oid, f"history: edges of a second grid after another grid's edges were derived ({n_face} faces x {n_max})", setup, run, replay,
                      exact=True, functions=FUNCS, bounds=f"first grid {nf0} faces x <= {nm0} corners, second grid {n_face} faces x <= {n_max} corners, nodes < {n_node}", tiers=tiers, cost=3,
                      timeout_s=3000, query_timeout_s=1500)


def _validate_shim(order):
    """run the cloned code under the shim on concrete tables and the real library on the same tables"""
    n = 0
    for rows in _TABLES:
        n_node = max(v for r in rows for v in r) + 1
        lon, lat = C.default_lonlat(n_node)
        g = C.clone_grid(symnp.array(rows), lon, lat)
        r = C.real_grid(rows, lon, lat)
        for name in ORDERS[order]:
            a, b = getattr(g, name), getattr(r, name)
            a = symnp.to_numpy(a.values) if hasattr(a, "values") else a
            b = b.values if hasattr(b, "values") else b
            if not np.array_equal(np.asarray(a), np.asarray(b)):
                raise AssertionError(f"shim/real disagreement on {name} for {rows}: {a} vs {b}")
            n += 1
    return n


def _tetra(ctx, fn, nf):
    """closed surface with the combinatorics of a tetrahedron, every numbering and start corner symbolic:
    4 triangular faces over 4 nodes, every pair of nodes is an edge shared by exactly two faces"""
    S = ctx.solver
    # face f omits exactly node p[f], p a permutation: that is what 'tetrahedron' means combinatorially
    p = [z3.Int(f"omit_{f}") for f in range(4)]
    S.add(z3.Distinct(*p))
    for f in range(4):
        S.add(p[f] >= 0, p[f] < 4, nf[f] == 3)
        for j in range(3):
            S.add(fn[f][j] != p[f])


_tetra.closed = True


def _prism(ctx, fn, nf):
    """triangular prism: 2 triangles + 3 quads over 6 nodes, any numbering: fixed adjacency up to a symbolic relabelling pi"""
    S = ctx.solver
    pi = [z3.Int(f"pi_{i}") for i in range(6)]
    S.add(z3.Distinct(*pi))
    for x in pi:
        S.add(x >= 0, x < 6)
    base = [[0, 1, 2], [3, 5, 4], [0, 3, 4, 1], [1, 4, 5, 2], [2, 5, 3, 0]]
    rot = [z3.Int(f"rot_{f}") for f in range(5)]
    for f, b in enumerate(base):
        k = len(b)
        S.add(nf[f] == k, rot[f] >= 0, rot[f] < k)
        for j in range(k):
            S.add(z3.Or(*[z3.And(rot[f] == r, fn[f][j] == pi[b[(j + r) % k]])
                          for r in range(k)]))


def _sel(pi, i):
    return pi[i]


_prism.closed = True


def obligations(tier):
    obs = [
        make("C02.grid.1f6.A", 1, 6, 6, "A"),
        make("C02.grid.2f3.A", 2, 3, 4, "A"),
        make("C02.grid.2f3.B", 2, 3, 4, "B"),
        make("C02.grid.2f3.C", 2, 3, 4, "C"),
        make("C02.grid.2f4.A.faces", 2, 4, 6, "A", part="faces", cost=6),
        make("C02.grid.2f4.A.rows", 2, 4, 6, "A", part="rows", cost=6),
        make("C02.grid.2f4.B.faces", 2, 4, 6, "B", part="faces", cost=6),
        make("C02.grid.3f3.A.faces", 3, 3, 5, "A", part="faces", cost=7),
        make("C02.grid.3f3.A.rows", 3, 3, 5, "A", part="rows", cost=7),
        make("C02.grid.tetra.A.faces", 4, 3, 4, "A", fixed=_tetra, part="faces", cost=9, title="tetrahedron, every numbering and start corner symbolic: face_edge rows"),
        make("C02.grid.tetra.A.rows", 4, 3, 4, "A", fixed=_tetra, part="rows", cost=9, title="tetrahedron, every numbering and start corner symbolic: edge rows"),
        make("C02.grid.tetra.A.euler", 4, 3, 4, "A", fixed=_tetra, part="euler", cost=9, title="tetrahedron, every numbering and start corner symbolic: n_node - n_edge + n_face = 2"),
        make("C02.grid.2f3.forder", 2, 3, 4, "A", forder=True, title="edge tables, 2 triangles, caller's table column-major in memory"),
        make("C02.grid.2f4.forder.faces", 2, 4, 6, "A", part="faces", forder=True, cost=6, tiers=("thorough",),
             title="edge tables (face rows), 2 faces x <= 4 corners, caller's table column-major in memory"),
        make_supplied_edges("C02.supplied_edges"),
        make("C02.grid.2f3.sparse", 2, 3, 12, "A", title="edge tables, 2 triangles, sparse node numbering (ids < 12)"),
        make_history("C02.history.2f3", 2, 3, 4), make_history("C02.history.1f6_2f3", 2, 3, 6, first=(1, 6)),
        make("C02.grid.2f5.A", 2, 5, 8, "A", tiers=("thorough",), cost=20),
        make("C02.grid.2f4.rank", 2, 4, 6, "A", tiers=("thorough",), unique_mode="rank", cost=20,
             title="cross-check with the functional (rank-by-counting) encoding of np.unique"),
        make("C02.grid.prism.A", 5, 4, 6, "A", fixed=_prism, tiers=(), cost=30,      # withdrawn: no path completed within 3000 s in the 52-minute thorough run (DESIGN section 8)
             title="triangular prism (mixed 3/4-gons), every numbering and start corner symbolic (+ Euler)"),
    ]
    return [o for o in obs if tier in o.tiers]
