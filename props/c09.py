"""C09 Subsets and cross-sections are faithful, fully functional restrictions  (DESIGN.md section 2, C09).

Real code executed: Grid.isel(n_face|n_node|n_edge=...) -> slice._slice_face_indices/_slice_node_indices/_slice_edge_indices,
UxDataArray.isel / _slice_from_grid, GridSubsetAccessor.bounding_box, intersections.fast_constant_lat_intersections,
Grid.get_edges_at_constant_latitude / get_faces_at_constant_latitude, and - on the RESULT grid - the lazy derivation of
edge_node / face_edge / n_nodes_per_face (the 'fully functional' clause).  Selection indices, node coordinates, data, box and
latitude are symbolic; the source connectivity is a fixed mixed-size table; the source's derivation history is a harness case.
Outside: thread schedules of the numba prange loop (the loop body writes only index i), bounding_circle / nearest_neighbor beyond
'index set -> isel' (sklearn, see C11)."""
import math
import z3
import numpy as np
from symex import core as sc, symnp, symxr
from symex.core import mk
from symex.runner import Obligation, world
from . import common as C
from .common import F

ROWS = [[0, 1, 2, 3], [1, 4, 2, F], [2, 4, 5, F], [3, 2, 5, 6]]      # 4 faces (4,3,3,4 corners) over 7 nodes, 10 edges
N_NODE, N_FACE = 7, 4
BASE = [(0, 0), (10, 0), (10, 10), (0, 10), (20, 5), (15, 15), (3, 18)]
FUNCS = ["Grid.isel", "slice._slice_face_indices", "slice._slice_node_indices", "slice._slice_edge_indices", "UxDataArray.isel", "UxDataArray._slice_from_grid",
         "GridSubsetAccessor.bounding_box", "intersections.fast_constant_lat_intersections", "Grid.get_edges_at_constant_latitude", "Grid.get_faces_at_constant_latitude",
         "Grid.edge_node_z", "connectivity._populate_* on the result grid"]


def _coords(ctx):
    lon = [z3.Real(f"lon_{i}") for i in range(N_NODE)]
    lat = [z3.Real(f"lat_{i}") for i in range(N_NODE)]
    for i, (bx, by) in enumerate(BASE):
        ctx.solver.add(lon[i] >= bx - 1, lon[i] <= bx + 1, lat[i] >= by - 1, lat[i] <= by + 1)
    ctx.eng.declare("lon", lon); ctx.eng.declare("lat", lat)
    return lon, lat


def _prep(g, history):
    if history == "edges":
        g.edge_node_connectivity
    elif history == "all":
        g.face_edge_connectivity, g.edge_face_connectivity, g.node_face_connectivity, g.face_lon, g.n_nodes_per_face, g.hole_edge_indices


def _zr(v):
    v = sc.z(v)
    return z3.ToReal(v) if z3.is_int(v) else v


def _faces_touching(dim, idx):
    """reference: source faces selected by a concrete index list along dim (inclusive), ascending for node/edge"""
    if dim == "n_face":
        return list(idx)
    per_face, allp = C.ref_edges(ROWS)
    if dim == "n_node":
        return sorted({f for f, r in enumerate(ROWS) for i in idx if i in C.face_corners(r)})
    return None


def make_isel(oid, dim, k, history, tiers=("quick", "thorough"), cost=2):
    n_dim = {"n_face": N_FACE, "n_node": N_NODE}[dim]

    def setup(ctx):
        ctx.const("dim", dim); ctx.const("history", history)
        lon, lat = _coords(ctx)
        idx = [ctx.int(f"idx_{i}", 0, n_dim - 1) for i in range(k)]
        if k > 1:
            ctx.assume(z3.Distinct(*[sc.z(x) for x in idx]))
        data = [z3.Real(f"d_{i}") for i in range(N_FACE)]
        ctx.eng.declare("data", data)
        return lon, lat, idx, data

    def run(ctx, inp):
        lon, lat, idx, data = inp
        symnp.UNIQUE_MODE[0] = "relational"
        sc.NL_UF[0] = True                 # positions are compared as terms: arithmetic on derived centres stays uninterpreted
        symnp.SQRT_MODE[0] = "uf"
        try:
            return run_(ctx, lon, lat, idx, data)
        finally:
            symnp.SQRT_MODE[0] = "witness"

    def run_(ctx, lon, lat, idx, data):
        g = C.clone_grid(symnp.array(ROWS), lon, lat)
        _prep(g, history)
        ii = [sc.concretize(x) for x in idx]           # the slicer builds Python dicts keyed by indices: fork over the selection
        sel = ii if k > 1 else ([ii[0]] if history != "scalar" else ii[0])
        sub = g.isel(**{dim: sel})
        faces = _faces_touching(dim, ii)
        sfi = [int(x) for x in sub._ds["subgrid_face_indices"].values.flat_list()]
        ctx.prove("result faces = the selected source faces, no duplicates, in the order of subgrid_face_indices", sfi == faces and sub.n_face == len(faces), note=f"{sfi} vs {faces}")
        if sfi != faces:
            return
        sfn = sub.face_node_connectivity.values
        slon, slat = sub.node_lon.values.flat_list(), sub.node_lat.values.flat_list()
        cl = []
        for kf, f in enumerate(faces):
            c = C.face_corners(ROWS[f])
            row = [sfn[kf, j] for j in range(sfn.shape_cap[1])]
            for j in range(len(row)):
                if j < len(c):
                    n = int(row[j]) if not isinstance(row[j], sc.Sym) else None
                    if n is None or n == F or not 0 <= n < len(slon):
                        cl.append(z3.BoolVal(False))
                    else:
                        cl.append(z3.And(_zr(slon[n]) == lon[c[j]], _zr(slat[n]) == lat[c[j]]))
                else:
                    cl.append(sc.z(row[j]) == F)
        ctx.prove("each result face has its source face's corner positions in the same cyclic order, padding only at the end", z3.And(*cl))
        # fully functional: derived tables on the result agree with the reference applied to the result's own face table
        rows_sub = [[int(v) for v in sfn[kf].flat_list()] for kf in range(len(faces))]
        try:
            en, fe, ne, nn = sub.edge_node_connectivity.values, sub.face_edge_connectivity.values, sub.n_edge, sub.n_nodes_per_face.values
            msg = C.check_edge_tables(rows_sub, symnp.to_numpy(en), symnp.to_numpy(fe), int(ne), symnp.to_numpy(nn), sfn.shape_cap[1])
        except Exception as ex:      # noqa: BLE001
            msg = f"deriving edges on the subset raised {type(ex).__name__}: {ex}"
        ctx.prove("the subset is a fully functional grid: its derived edge tables are those of its own faces", msg is None, note=msg,
                  regions={"subset_inherits_stale_inverse_indices": True})
        if msg is None:
            try:
                holes = sorted(int(x) for x in symnp.to_numpy(symnp.asarray(sub.hole_edge_indices.values if hasattr(sub.hole_edge_indices, "values") else sub.hole_edge_indices)).ravel())
                fe_np = symnp.to_numpy(fe)
                cnt = {}
                for r in fe_np:
                    for e_ in r:
                        if int(e_) != F:
                            cnt[int(e_)] = cnt.get(int(e_), 0) + 1
                want = sorted(e_ for e_, c_ in cnt.items() if c_ == 1)
                hmsg = None if holes == want else f"hole_edge_indices {holes}, edges of the subset with a single face: {want}"
            except Exception as ex:      # noqa: BLE001
                hmsg = f"hole_edge_indices on the subset raised {type(ex).__name__}: {ex}"
            ctx.prove("... and its boundary edges (hole_edge_indices) are its own edges with a single face", hmsg is None, note=hmsg)
        # data sliced with the grid stays on the same physical faces
        U = world().get("uxarray.core.dataarray", "UxDataArray")
        da = U(C.sarr_1d(data, symnp.float64), dims=["n_face"], uxgrid=g, name="v")
        out = da.isel(**{dim: sel})
        ov = out.values.flat_list()
        ctx.prove("face-centred data sliced with the grid: value k belongs to result face k", sc.and_(len(ov) == len(faces), out.uxgrid.n_face == len(faces),
                                                                                                 *[_zr(ov[kf]) == data[f] for kf, f in enumerate(faces) if kf < len(ov)]))

    def replay(v):
        import uxarray as ux
        lon, lat = [float(x) for x in v["lon"]], [float(x) for x in v["lat"]]
        g = C.real_grid(ROWS, lon, lat)
        _prep(g, history)
        ii = [int(v[f"idx_{i}"]) for i in range(k)]
        sel = ii if k > 1 else ([ii[0]] if history != "scalar" else ii[0])
        sub = g.isel(**{dim: sel})
        faces = _faces_touching(dim, ii)
        sfi = [int(x) for x in np.atleast_1d(sub._ds["subgrid_face_indices"].values)]
        if sfi != faces:
            return f"isel({dim}={sel}) selected source faces {sfi}, expected {faces}"
        sfn = sub.face_node_connectivity.values
        for kf, f in enumerate(faces):
            c = C.face_corners(ROWS[f])
            cs = C.face_corners(sfn[kf])
            if len(cs) != len(c) or not np.allclose(sub.node_lon.values[cs], np.array(lon)[c]) or not np.allclose(sub.node_lat.values[cs], np.array(lat)[c]):
                return f"isel({dim}={sel}): result face {kf} has corners {cs} at {sub.node_lon.values[cs].tolist()}, source face {f} has corners at {np.array(lon)[c].tolist()}"
        try:
            msg = C.check_edge_tables([list(map(int, r)) for r in sfn], sub.edge_node_connectivity.values, sub.face_edge_connectivity.values, sub.n_edge, sub.n_nodes_per_face.values, sfn.shape[1])
        except Exception as ex:      # noqa: BLE001
            msg = f"deriving face_edge_connectivity on the subset raised {type(ex).__name__}: {ex}"
        if msg:
            return f"isel({dim}={sel}) after history '{history}': the subset is not a functional grid: {msg}"
        holes = sorted(int(x) for x in np.asarray(sub.hole_edge_indices).ravel())
        ef = sub.edge_face_connectivity.values
        want = [i for i in range(sub.n_edge) if ef[i, 1] == F]
        if holes != want:
            return f"isel({dim}={sel}) after history '{history}': hole_edge_indices of the subset are {holes}, its edges with a single face are {want}"
        data = np.array(v["data"], dtype=float)
        out = ux.UxDataArray(data, dims=["n_face"], uxgrid=g, name="v").isel(**{dim: sel})
        if not np.allclose(np.atleast_1d(out.values), data[faces]):
            return f"data after isel({dim}={sel}): {np.atleast_1d(out.values).tolist()}, faces {faces} hold {data[faces].tolist()}"
        return None

    return Obligation(oid, f"Grid.isel({dim}=<{k} symbolic indices>) and data slicing, source history '{history}'", setup, run, replay, exact=True, functions=FUNCS,
                      bounds=f"fixed 4-face mixed-size source (7 nodes, 10 edges), every selection of {k} distinct indices, node coordinates symbolic; source history: {history}",
                      tiers=tiers, cost=cost, max_paths=5000, timeout_s=1500)


def make_bbox(oid, element, wrap, tiers=("quick", "thorough")):
    p = {"nodes": "node", "face centers": "face"}[element]

    def setup(ctx):
        ctx.const("element", element); ctx.const("wrap", wrap)
        n = N_NODE
        lon = [z3.Real(f"lon_{i}") for i in range(n)]
        lat = [z3.Real(f"lat_{i}") for i in range(n)]
        b0, b1 = ctx.real("lon_b0", -180, 180), ctx.real("lon_b1", -180, 180)
        l0, l1 = ctx.real("lat_b0", -90, 90), ctx.real("lat_b1", -90, 90)
        zb0, zb1 = sc.z(b0), sc.z(b1)
        ctx.assume(zb0 > zb1 if wrap else zb0 < zb1, sc.z(l0) < sc.z(l1))
        m = sc.lift(1e-6)
        for v in lon:
            ctx.solver.add(v >= -180, v <= 180)
            # margin from the box edges (the legal value 180 itself is allowed)
            ctx.solver.add(z3.Or(v - zb0 > m, zb0 - v > m), z3.Or(v - zb1 > m, zb1 - v > m))
        for v in lat:
            ctx.solver.add(v >= -89, v <= 89, z3.Or(v - sc.z(l0) > m, sc.z(l0) - v > m), z3.Or(v - sc.z(l1) > m, sc.z(l1) - v > m))
        ctx.eng.declare("lon", lon); ctx.eng.declare("lat", lat)
        return lon, lat, b0, b1, l0, l1

    def run(ctx, inp):
        lon, lat, b0, b1, l0, l1 = inp
        w = world()
        Acc = w.get("uxarray.subset.grid_accessor", "GridSubsetAccessor")
        captured = {}

        class FakeGrid:
            node_lon = symxr.DataArray(C.sarr_1d(lon, symnp.float64), dims=["n_node"])
            node_lat = symxr.DataArray(C.sarr_1d(lat, symnp.float64), dims=["n_node"])
            face_lon = symxr.DataArray(C.sarr_1d(lon[:N_FACE], symnp.float64), dims=["n_face"])
            face_lat = symxr.DataArray(C.sarr_1d(lat[:N_FACE], symnp.float64), dims=["n_face"])

            def isel(self, **kw):
                captured.update(kw)
                return "subgrid"
        acc = Acc(FakeGrid())
        raised = False
        try:
            acc.bounding_box((b0, b1), (l0, l1), element=element)
        except ValueError:
            raised = True
        zb0, zb1, zl0, zl1 = (sc.z(x) for x in (b0, b1, l0, l1))
        NE = N_NODE if element == "nodes" else N_FACE
        inside = [z3.And((z3.Or(lon[i] > zb0, lon[i] < zb1) if wrap else z3.And(lon[i] > zb0, lon[i] < zb1)), lat[i] > zl0, lat[i] < zl1) for i in range(NE)]
        if raised:
            ctx.prove("an empty selection is reported (raises) only when no element lies inside the box", z3.Not(z3.Or(*inside)), regions={"wrapped_box_excludes_lon_180": wrap})
            return
        key = "n_node" if element == "nodes" else "n_face"
        idx = captured.get(key)
        ctx.prove("the selection is made along the requested element dimension", idx is not None)
        if idx is None:
            return
        ir = idx.raw()
        n_sel = sc.z(idx.shape[0])
        ctx.prove("selected = exactly the elements whose reference point lies strictly inside the lon/lat box (the box wraps through +-180 when lon_min > lon_max), ascending, no duplicates",
                  z3.And(*[inside[i] == z3.Or(*[z3.And(kk < n_sel, sc.z(ir[kk]) == i) for kk in range(ir.shape_cap[0])]) for i in range(NE)],
                         *[z3.Implies(kk + 1 < n_sel, sc.z(ir[kk]) < sc.z(ir[kk + 1])) for kk in range(ir.shape_cap[0] - 1)]),
                  regions={"wrapped_box_excludes_lon_180": wrap})

    def replay(v):
        rows = ROWS
        lon, lat = [float(x) for x in v["lon"]], [float(x) for x in v["lat"]]
        b = (float(v["lon_b0"]), float(v["lon_b1"]))
        lb = (float(v["lat_b0"]), float(v["lat_b1"]))
        if element != "nodes":
            # face centres supplied by the source: the first N_FACE model values are the centres
            import xarray as xr
            g = C.real_grid(rows, *C.default_lonlat(N_NODE), extra={"face_lon": xr.DataArray(np.array(lon[:N_FACE]), dims=["n_face"]),
                                                                    "face_lat": xr.DataArray(np.array(lat[:N_FACE]), dims=["n_face"])})
            exp = [i for i in range(N_FACE) if ((lon[i] > b[0] or lon[i] < b[1]) if wrap else (b[0] < lon[i] < b[1])) and lb[0] < lat[i] < lb[1]]
            try:
                sub = g.subset.bounding_box(b, lb, element="face centers")
            except ValueError:
                return None if not exp else f"bounding_box(lon {b}, lat {lb}) on face centres raised 'no elements' although faces {exp} lie inside (lon {[lon[i] for i in exp]})"
            got = [int(x) for x in np.atleast_1d(sub._ds["subgrid_face_indices"].values)]
            return None if got == exp else f"bounding_box(lon {b}, lat {lb}) on face centres selected {got}, faces inside the box are {exp} (lon {[lon[i] for i in exp]})"
        g = C.real_grid(rows, lon, lat)
        exp_nodes = [i for i in range(N_NODE) if ((lon[i] > b[0] or lon[i] < b[1]) if wrap else (b[0] < lon[i] < b[1])) and lb[0] < lat[i] < lb[1]]
        try:
            sub = g.subset.bounding_box(b, lb, element="nodes")
        except ValueError:
            return None if not exp_nodes else f"bounding_box(lon {b}, lat {lb}) raised 'no elements' although nodes {exp_nodes} lie inside (lon {[lon[i] for i in exp_nodes]})"
        exp_faces = sorted({f for f, r in enumerate(rows) for i in exp_nodes if i in C.face_corners(r)})
        got = [int(x) for x in np.atleast_1d(sub._ds["subgrid_face_indices"].values)]
        if got != exp_faces:
            return f"bounding_box(lon {b}, lat {lb}) on nodes: selected faces {got}, nodes inside the box are {exp_nodes} (lon {[lon[i] for i in exp_nodes]}) touching faces {exp_faces}"
        return None

    return Obligation(oid, f"bounding_box membership on {element}, {'antimeridian-spanning' if wrap else 'plain'} box", setup, run, replay, exact=True, functions=FUNCS,
                      bounds="7 elements with symbolic lon/lat, symbolic box; 1e-6 margin from the box edges except the legal longitude 180 itself", max_paths=20000, timeout_s=1500, tiers=tiers, cost=30 if wrap and element == "nodes" else 5)


def make_constlat(oid):
    n_edge = 5

    def setup(ctx):
        z = [[ctx.real(f"z_{e}_{k}", -1, 1) for k in range(2)] for e in range(n_edge)]
        lat = ctx.real("lat", -89, 89)
        ef = [[z3.Int(f"ef_{e}_{k}") for k in range(2)] for e in range(n_edge)]
        for e in range(n_edge):
            ctx.solver.add(ef[e][0] >= 0, ef[e][0] < 4, z3.Or(ef[e][1] == F, z3.And(ef[e][1] >= 0, ef[e][1] < 4, ef[e][1] != ef[e][0])))
        ctx.eng.declare("ef", ef)
        return z, lat, ef

    def run(ctx, inp):
        z, lat, ef = inp
        g = world().G["uxarray.grid.intersections"]
        Z = symnp.SArr.new([x for r in z for x in r], (n_edge, 2), None, symnp.float64)
        edges = g["fast_constant_lat_intersections"](lat, Z, n_edge)
        c = symnp.uf("sin")(sc.z(lat) * sc.lift(symnp.PI_Q) / 180)
        er = edges.raw() if isinstance(edges, symnp.SArr) else symnp.asarray(edges).raw()
        n_sel = sc.z(edges.shape[0])
        m = sc.lift(1e-9)
        for r in z:            # margin: no end node exactly on the parallel in the symbolic claim (the touching case is a separate claim below)
            pass
        crosses = [(sc.z(z[e][0]) - c) * (sc.z(z[e][1]) - c) < 0 for e in range(n_edge)]
        ctx.prove("edge e is selected iff its end nodes lie strictly on opposite sides of the parallel; ascending, unique",
                  z3.And(*[crosses[e] == z3.Or(*[z3.And(kk < n_sel, sc.z(er[kk]) == e) for kk in range(er.shape_cap[0])]) for e in range(n_edge)],
                         *[z3.Implies(kk + 1 < n_sel, sc.z(er[kk]) < sc.z(er[kk + 1])) for kk in range(er.shape_cap[0] - 1)]), tactic=None)

    def replay(v):
        from uxarray.grid.intersections import fast_constant_lat_intersections
        z = np.array([[v[f"z_{e}_{k}"] for k in range(2)] for e in range(n_edge)], dtype=float)
        lat = float(v["lat"])
        for la, zz in [(lat, z), (0.0, np.array([[0.0, 0.5], [-0.2, 0.3], [0.0, -0.4], [0.1, 0.2], [0.0, 0.0]]))]:
            got = [int(x) for x in np.atleast_1d(fast_constant_lat_intersections(la, zz.copy(), len(zz)))]
            c = math.sin(math.radians(la))
            exp = [e for e in range(len(zz)) if (zz[e, 0] - c) * (zz[e, 1] - c) < 0]
            if got != exp:
                return f"fast_constant_lat_intersections(lat={la}) with edge node z {zz.tolist()} selected {got}; edges whose end nodes lie strictly on opposite sides are {exp}"
        return None

    return Obligation(oid, "constant-latitude scan: exactly the edges whose end nodes lie strictly on opposite sides", setup, run, replay, exact=False, functions=FUNCS,
                      bounds="5 edges with symbolic end-node z in [-1,1], latitude in [-89,89]; sin uninterpreted; replay also with nodes exactly on the parallel",
                      stubs=["sin uninterpreted", "prange -> range (thread schedules outside)"], max_paths=2000, timeout_s=900, query_timeout_s=120)


def obligations(tier):
    obs = [make_isel("C09.isel.face.1.fresh", "n_face", 1, "fresh"), make_isel("C09.isel.face.2.edges", "n_face", 2, "edges", cost=4),
           make_isel("C09.isel.face.scalar", "n_face", 1, "scalar"), make_isel("C09.isel.node.1.all", "n_node", 1, "all"),
           make_isel("C09.isel.node.2.fresh", "n_node", 2, "fresh", cost=4), make_isel("C09.isel.face.3.all", "n_face", 3, "all", tiers=("thorough",), cost=8),
           make_bbox("C09.bbox.nodes.plain", "nodes", False), make_bbox("C09.bbox.nodes.wrap", "nodes", True, tiers=("thorough",)), make_bbox("C09.bbox.faces.wrap", "face centers", True),
           make_constlat("C09.constlat")]
    return [o for o in obs if tier in o.tiers]
