"""C09 Subsets and cross-sections are faithful, fully functional restrictions  (DESIGN.md section 2, C09).

Real code executed: Grid.isel(n_face|n_node|n_edge=...) -> slice._slice_face_indices/_slice_node_indices/_slice_edge_indices,
UxDataArray.isel / _slice_from_grid, GridSubsetAccessor.bounding_box, intersections.fast_constant_lat_intersections,
Grid.get_edges_at_constant_latitude / get_faces_at_constant_latitude, and - on the RESULT grid - the lazy derivation of
edge_node / face_edge / n_nodes_per_face (the 'fully functional' clause).  Selection indices, node coordinates, data, box and
latitude are symbolic; the source connectivity is a fixed mixed-size table; the source's derivation history is a harness case.
bounding_circle / nearest_neighbor run on a cloned Grid with sklearn replaced by C11's recorder (tree choice, query point, radius unit, k, index set -> isel).
Outside: thread schedules of the numba prange loop (the loop body writes only index i), sklearn's search itself (see C11)."""
import math
import z3
import numpy as np
from symex import core as sc, symnp, symxr
from symex.core import mk
from symex.runner import Obligation, world
from . import common as C
from .common import F

ROWS = [[0, 1, 2, 3], [1, 4, 2, F], [2, 4, 5, F], [3, 2, 5, 6]]      # 4 faces (4,3,3,4 corners) over 7 nodes, 10 edges
N_NODE, N_FACE = 7, 4
BASE = [(0, 0), (10, 0), (10, 10), (0, 10), (20, 5), (15, 15), (3, 18)]
FUNCS = ["Grid.isel", "slice._slice_face_indices", "slice._slice_node_indices", "slice._slice_edge_indices", "UxDataArray.isel", "UxDataArray._slice_from_grid",
         "GridSubsetAccessor.bounding_box", "intersections.fast_constant_lat_intersections", "Grid.get_edges_at_constant_latitude", "Grid.get_faces_at_constant_latitude",
         "Grid.edge_node_z", "connectivity._populate_* on the result grid"]


def _coords(ctx):
    lon = [z3.Real(f"lon_{i}") for i in range(N_NODE)]
    lat = [z3.Real(f"lat_{i}") for i in range(N_NODE)]
    for i, (bx, by) in enumerate(BASE):
        ctx.solver.add(lon[i] >= bx - 1, lon[i] <= bx + 1, lat[i] >= by - 1, lat[i] <= by + 1)
    ctx.eng.declare("lon", lon); ctx.eng.declare("lat", lat)
    return lon, lat


def _prep(g, history):
    if history == "edges":
        g.edge_node_connectivity
    elif history in ("all", "dist"):
        g.face_edge_connectivity, g.edge_face_connectivity, g.node_face_connectivity, g.face_lon, g.n_nodes_per_face, g.hole_edge_indices
        if history == "dist":
            g.edge_face_distances, g.edge_node_distances


def _zr(v):
    v = sc.z(v)
    return z3.ToReal(v) if z3.is_int(v) else v


def _faces_touching(dim, idx):
    """reference: source faces selected by a concrete index list along dim (inclusive), ascending for node/edge"""
    if dim == "n_face":
        return list(idx)
    per_face, allp = C.ref_edges(ROWS)
    if dim == "n_node":
        return sorted({f for f, r in enumerate(ROWS) for i in idx if i in C.face_corners(r)})
    return None


def make_isel(oid, dim, k, history, tiers=("quick", "thorough"), cost=2):
    n_dim = {"n_face": N_FACE, "n_node": N_NODE}[dim]

    def setup(ctx):
        ctx.const("dim", dim); ctx.const("history", history)
        lon, lat = _coords(ctx)
        idx = [ctx.int(f"idx_{i}", 0, n_dim - 1) for i in range(k)]
        if k > 1:
            ctx.assume(z3.Distinct(*[sc.z(x) for x in idx]))
        data = [z3.Real(f"d_{i}") for i in range(N_FACE)]
        ctx.eng.declare("data", data)
        return lon, lat, idx, data

    def run(ctx, inp):
        lon, lat, idx, data = inp
        symnp.UNIQUE_MODE[0] = "relational"
        sc.NL_UF[0] = True                 # positions are compared as terms: arithmetic on derived centres stays uninterpreted
        symnp.SQRT_MODE[0] = "uf"
        try:
            return run_(ctx, lon, lat, idx, data)
        finally:
            symnp.SQRT_MODE[0] = "witness"

    def run_(ctx, lon, lat, idx, data):
        g = C.clone_grid(symnp.array(ROWS), lon, lat)
        _prep(g, history)
        ii = [sc.concretize(x) for x in idx]           # the slicer builds Python dicts keyed by indices: fork over the selection
        sel = ii if k > 1 else ([ii[0]] if history != "scalar" else ii[0])
        sub = g.isel(**{dim: sel})
        faces = _faces_touching(dim, ii)
        sfi = [int(x) for x in sub._ds["subgrid_face_indices"].values.flat_list()]
        ctx.prove("result faces = the selected source faces, no duplicates, in the order of subgrid_face_indices", sfi == faces and sub.n_face == len(faces), note=f"{sfi} vs {faces}")
        if sfi != faces:
            return
        sfn = sub.face_node_connectivity.values
        slon, slat = sub.node_lon.values.flat_list(), sub.node_lat.values.flat_list()
        cl = []
        for kf, f in enumerate(faces):
            c = C.face_corners(ROWS[f])
            row = [sfn[kf, j] for j in range(sfn.shape_cap[1])]
            for j in range(len(row)):
                if j < len(c):
                    n = int(row[j]) if not isinstance(row[j], sc.Sym) else None
                    if n is None or n == F or not 0 <= n < len(slon):
                        cl.append(z3.BoolVal(False))
                    else:
                        cl.append(z3.And(_zr(slon[n]) == lon[c[j]], _zr(slat[n]) == lat[c[j]]))
                else:
                    cl.append(sc.z(row[j]) == F)
        ctx.prove("each result face has its source face's corner positions in the same cyclic order, padding only at the end", z3.And(*cl))
        # fully functional: derived tables on the result agree with the reference applied to the result's own face table
        rows_sub = [[int(v) for v in sfn[kf].flat_list()] for kf in range(len(faces))]
        try:
            en, fe, ne, nn = sub.edge_node_connectivity.values, sub.face_edge_connectivity.values, sub.n_edge, sub.n_nodes_per_face.values
            msg = C.check_edge_tables(rows_sub, symnp.to_numpy(en), symnp.to_numpy(fe), int(ne), symnp.to_numpy(nn), sfn.shape_cap[1])
        except Exception as ex:      # noqa: BLE001
            msg = f"deriving edges on the subset raised {type(ex).__name__}: {ex}"
        ctx.prove("the subset is a fully functional grid: its derived edge tables are those of its own faces", msg is None, note=msg,
                  regions={"subset_inherits_stale_inverse_indices": True})
        if msg is None:
            try:
                holes = sorted(int(x) for x in symnp.to_numpy(symnp.asarray(sub.hole_edge_indices.values if hasattr(sub.hole_edge_indices, "values") else sub.hole_edge_indices)).ravel())
                fe_np = symnp.to_numpy(fe)
                cnt = {}
                for r in fe_np:
                    for e_ in r:
                        if int(e_) != F:
                            cnt[int(e_)] = cnt.get(int(e_), 0) + 1
                want = sorted(e_ for e_, c_ in cnt.items() if c_ == 1)
                hmsg = None if holes == want else f"hole_edge_indices {holes}, edges of the subset with a single face: {want}"
            except Exception as ex:      # noqa: BLE001
                hmsg = f"hole_edge_indices on the subset raised {type(ex).__name__}: {ex}"
            ctx.prove("... and its boundary edges (hole_edge_indices) are its own edges with a single face", hmsg is None, note=hmsg)
            if history == "dist" and hmsg is None:
                try:
                    efd = sub.edge_face_distances.values.flat_list()
                    dmsg = None
                    if len(efd) != int(ne):
                        dmsg = f"edge_face_distances has {len(efd)} entries for {int(ne)} edges"
                    zero = [sc.z(efd[e_]) == 0 for e_ in want]
                except Exception as ex:      # noqa: BLE001
                    dmsg, zero = f"edge_face_distances on the subset raised {type(ex).__name__}: {ex}", []
                ctx.prove("... and edge_face_distances of the subset are those of its own faces: 0 on every edge with a single face in the subset "
                          "(also when the source had computed its distances before)", sc.and_(dmsg is None, *zero), note=dmsg)
        # data sliced with the grid stays on the same physical faces
        U = world().get("uxarray.core.dataarray", "UxDataArray")
        da = U(C.sarr_1d(data, symnp.float64), dims=["n_face"], uxgrid=g, name="v")
        out = da.isel(**{dim: sel})
        ov = out.values.flat_list()
        ctx.prove("face-centred data sliced with the grid: value k belongs to result face k", sc.and_(len(ov) == len(faces), out.uxgrid.n_face == len(faces),
                                                                                                 *[_zr(ov[kf]) == data[f] for kf, f in enumerate(faces) if kf < len(ov)]))

    def replay(v):
        import uxarray as ux
        lon, lat = [float(x) for x in v["lon"]], [float(x) for x in v["lat"]]
        g = C.real_grid(ROWS, lon, lat)
        _prep(g, history)
        ii = [int(v[f"idx_{i}"]) for i in range(k)]
        sel = ii if k > 1 else ([ii[0]] if history != "scalar" else ii[0])
        sub = g.isel(**{dim: sel})
        faces = _faces_touching(dim, ii)
        sfi = [int(x) for x in np.atleast_1d(sub._ds["subgrid_face_indices"].values)]
        if sfi != faces:
            return f"isel({dim}={sel}) selected source faces {sfi}, expected {faces}"
        sfn = sub.face_node_connectivity.values
        for kf, f in enumerate(faces):
            c = C.face_corners(ROWS[f])
            cs = C.face_corners(sfn[kf])
            if len(cs) != len(c) or not np.allclose(sub.node_lon.values[cs], np.array(lon)[c]) or not np.allclose(sub.node_lat.values[cs], np.array(lat)[c]):
                return f"isel({dim}={sel}): result face {kf} has corners {cs} at {sub.node_lon.values[cs].tolist()}, source face {f} has corners at {np.array(lon)[c].tolist()}"
        try:
            msg = C.check_edge_tables([list(map(int, r)) for r in sfn], sub.edge_node_connectivity.values, sub.face_edge_connectivity.values, sub.n_edge, sub.n_nodes_per_face.values, sfn.shape[1])
        except Exception as ex:      # noqa: BLE001
            msg = f"deriving face_edge_connectivity on the subset raised {type(ex).__name__}: {ex}"
        if msg:
            return f"isel({dim}={sel}) after history '{history}': the subset is not a functional grid: {msg}"
        holes = sorted(int(x) for x in np.asarray(sub.hole_edge_indices).ravel())
        ef = sub.edge_face_connectivity.values
        want = [i for i in range(sub.n_edge) if ef[i, 1] == F]
        if holes != want:
            return f"isel({dim}={sel}) after history '{history}': hole_edge_indices of the subset are {holes}, its edges with a single face are {want}"
        if history == "dist":
            fresh = C.real_grid(ROWS, lon, lat).isel(**{dim: sel})
            for nm in ("edge_face_distances", "edge_node_distances"):
                a_, b_ = np.asarray(getattr(sub, nm).values, dtype=float), np.asarray(getattr(fresh, nm).values, dtype=float)
                if a_.shape != b_.shape or not np.allclose(a_, b_, atol=1e-12):
                    return (f"isel({dim}={sel}) after the source had computed its edge distances: the subset reports {nm} {a_.tolist()}, "
                            f"the same subset of a fresh source reports {b_.tolist()} (boundary edges of the subset: {want})")
        data = np.array(v["data"], dtype=float)
        out = ux.UxDataArray(data, dims=["n_face"], uxgrid=g, name="v").isel(**{dim: sel})
        if not np.allclose(np.atleast_1d(out.values), data[faces]):
            return f"data after isel({dim}={sel}): {np.atleast_1d(out.values).tolist()}, faces {faces} hold {data[faces].tolist()}"
        return None

    return Obligation(oid, f"Grid.isel({dim}=<{k} symbolic indices>) and data slicing, source history '{history}'", setup, run, replay, exact=True, functions=FUNCS,
                      bounds=f"fixed 4-face mixed-size source (7 nodes, 10 edges), every selection of {k} distinct indices, node coordinates symbolic; source history: {history}",
                      tiers=tiers, cost=cost, max_paths=5000, timeout_s=1500)


def make_bbox(oid, element, wrap, tiers=("quick", "thorough")):
    p = {"nodes": "node", "face centers": "face"}[element]

    def setup(ctx):
        ctx.const("element", element); ctx.const("wrap", wrap)
        n = N_NODE
        lon = [z3.Real(f"lon_{i}") for i in range(n)]
        lat = [z3.Real(f"lat_{i}") for i in range(n)]
        b0, b1 = ctx.real("lon_b0", -180, 180), ctx.real("lon_b1", -180, 180)
        l0, l1 = ctx.real("lat_b0", -90, 90), ctx.real("lat_b1", -90, 90)
        zb0, zb1 = sc.z(b0), sc.z(b1)
        ctx.assume(zb0 > zb1 if wrap else zb0 < zb1, sc.z(l0) < sc.z(l1))
        m = sc.lift(1e-6)
        for v in lon:
            ctx.solver.add(v >= -180, v <= 180)
            # margin from the box edges (the legal value 180 itself is allowed)
            ctx.solver.add(z3.Or(v - zb0 > m, zb0 - v > m), z3.Or(v - zb1 > m, zb1 - v > m))
        for v in lat:
            ctx.solver.add(v >= -89, v <= 89, z3.Or(v - sc.z(l0) > m, sc.z(l0) - v > m), z3.Or(v - sc.z(l1) > m, sc.z(l1) - v > m))
        ctx.eng.declare("lon", lon); ctx.eng.declare("lat", lat)
        return lon, lat, b0, b1, l0, l1

    def run(ctx, inp):
        lon, lat, b0, b1, l0, l1 = inp
        w = world()
        Acc = w.get("uxarray.subset.grid_accessor", "GridSubsetAccessor")
        captured = {}

        class FakeGrid:
            node_lon = symxr.DataArray(C.sarr_1d(lon, symnp.float64), dims=["n_node"])
            node_lat = symxr.DataArray(C.sarr_1d(lat, symnp.float64), dims=["n_node"])
            face_lon = symxr.DataArray(C.sarr_1d(lon[:N_FACE], symnp.float64), dims=["n_face"])
            face_lat = symxr.DataArray(C.sarr_1d(lat[:N_FACE], symnp.float64), dims=["n_face"])

            def isel(self, **kw):
                captured.update(kw)
                return "subgrid"
        acc = Acc(FakeGrid())
        raised = False
        try:
            acc.bounding_box((b0, b1), (l0, l1), element=element)
        except ValueError:
            raised = True
        zb0, zb1, zl0, zl1 = (sc.z(x) for x in (b0, b1, l0, l1))
        NE = N_NODE if element == "nodes" else N_FACE
        inside = [z3.And((z3.Or(lon[i] > zb0, lon[i] < zb1) if wrap else z3.And(lon[i] > zb0, lon[i] < zb1)), lat[i] > zl0, lat[i] < zl1) for i in range(NE)]
        if raised:
            ctx.prove("an empty selection is reported (raises) only when no element lies inside the box", z3.Not(z3.Or(*inside)), regions={"wrapped_box_excludes_lon_180": wrap})
            return
        key = "n_node" if element == "nodes" else "n_face"
        idx = captured.get(key)
        ctx.prove("the selection is made along the requested element dimension", idx is not None)
        if idx is None:
            return
        ir = idx.raw()
        n_sel = sc.z(idx.shape[0])
        ctx.prove("selected = exactly the elements whose reference point lies strictly inside the lon/lat box (the box wraps through +-180 when lon_min > lon_max), ascending, no duplicates",
                  z3.And(*[inside[i] == z3.Or(*[z3.And(kk < n_sel, sc.z(ir[kk]) == i) for kk in range(ir.shape_cap[0])]) for i in range(NE)],
                         *[z3.Implies(kk + 1 < n_sel, sc.z(ir[kk]) < sc.z(ir[kk + 1])) for kk in range(ir.shape_cap[0] - 1)]),
                  regions={"wrapped_box_excludes_lon_180": wrap})

    def replay(v):
        rows = ROWS
        lon, lat = [float(x) for x in v["lon"]], [float(x) for x in v["lat"]]
        b = (float(v["lon_b0"]), float(v["lon_b1"]))
        lb = (float(v["lat_b0"]), float(v["lat_b1"]))
        if element != "nodes":
            # face centres supplied by the source: the first N_FACE model values are the centres
            import xarray as xr
            g = C.real_grid(rows, *C.default_lonlat(N_NODE), extra={"face_lon": xr.DataArray(np.array(lon[:N_FACE]), dims=["n_face"]),
                                                                    "face_lat": xr.DataArray(np.array(lat[:N_FACE]), dims=["n_face"])})
            exp = [i for i in range(N_FACE) if ((lon[i] > b[0] or lon[i] < b[1]) if wrap else (b[0] < lon[i] < b[1])) and lb[0] < lat[i] < lb[1]]
            try:
                sub = g.subset.bounding_box(b, lb, element="face centers")
            except ValueError:
                return None if not exp else f"bounding_box(lon {b}, lat {lb}) on face centres raised 'no elements' although faces {exp} lie inside (lon {[lon[i] for i in exp]})"
            got = [int(x) for x in np.atleast_1d(sub._ds["subgrid_face_indices"].values)]
            return None if got == exp else f"bounding_box(lon {b}, lat {lb}) on face centres selected {got}, faces inside the box are {exp} (lon {[lon[i] for i in exp]})"
        g = C.real_grid(rows, lon, lat)
        exp_nodes = [i for i in range(N_NODE) if ((lon[i] > b[0] or lon[i] < b[1]) if wrap else (b[0] < lon[i] < b[1])) and lb[0] < lat[i] < lb[1]]
        try:
            sub = g.subset.bounding_box(b, lb, element="nodes")
        except ValueError:
            return None if not exp_nodes else f"bounding_box(lon {b}, lat {lb}) raised 'no elements' although nodes {exp_nodes} lie inside (lon {[lon[i] for i in exp_nodes]})"
        exp_faces = sorted({f for f, r in enumerate(rows) for i in exp_nodes if i in C.face_corners(r)})
        got = [int(x) for x in np.atleast_1d(sub._ds["subgrid_face_indices"].values)]
        if got != exp_faces:
            return f"bounding_box(lon {b}, lat {lb}) on nodes: selected faces {got}, nodes inside the box are {exp_nodes} (lon {[lon[i] for i in exp_nodes]}) touching faces {exp_faces}"
        return None

    return Obligation(oid, f"bounding_box membership on {element}, {'antimeridian-spanning' if wrap else 'plain'} box", setup, run, replay, exact=True, functions=FUNCS,
                      bounds="7 elements with symbolic lon/lat, symbolic box; 1e-6 margin from the box edges except the legal longitude 180 itself", max_paths=20000, timeout_s=1500, tiers=tiers, cost=30 if wrap and element == "nodes" else 5)


def make_constlat(oid):
    n_edge = 5

    def setup(ctx):
        z = [[ctx.real(f"z_{e}_{k}", -1, 1) for k in range(2)] for e in range(n_edge)]
        lat = ctx.real("lat", -89, 89)
        ef = [[z3.Int(f"ef_{e}_{k}") for k in range(2)] for e in range(n_edge)]
        for e in range(n_edge):
            ctx.solver.add(ef[e][0] >= 0, ef[e][0] < 4, z3.Or(ef[e][1] == F, z3.And(ef[e][1] >= 0, ef[e][1] < 4, ef[e][1] != ef[e][0])))
        ctx.eng.declare("ef", ef)
        return z, lat, ef

    def run(ctx, inp):
        z, lat, ef = inp
        g = world().G["uxarray.grid.intersections"]
        Z = symnp.SArr.new([x for r in z for x in r], (n_edge, 2), None, symnp.float64)
        edges = g["fast_constant_lat_intersections"](lat, Z, n_edge)
        c = symnp.uf("sin")(sc.z(lat) * sc.lift(symnp.PI_Q) / 180)
        er = edges.raw() if isinstance(edges, symnp.SArr) else symnp.asarray(edges).raw()
        n_sel = sc.z(edges.shape[0])
        m = sc.lift(1e-9)
        for r in z:            # margin: no end node exactly on the parallel in the symbolic claim (the touching case is a separate claim below)
            pass
        crosses = [(sc.z(z[e][0]) - c) * (sc.z(z[e][1]) - c) < 0 for e in range(n_edge)]
        ctx.prove("edge e is selected iff its end nodes lie strictly on opposite sides of the parallel; ascending, unique",
                  z3.And(*[crosses[e] == z3.Or(*[z3.And(kk < n_sel, sc.z(er[kk]) == e) for kk in range(er.shape_cap[0])]) for e in range(n_edge)],
                         *[z3.Implies(kk + 1 < n_sel, sc.z(er[kk]) < sc.z(er[kk + 1])) for kk in range(er.shape_cap[0] - 1)]), tactic=None)

    def replay(v):
        from uxarray.grid.intersections import fast_constant_lat_intersections
        z = np.array([[v[f"z_{e}_{k}"] for k in range(2)] for e in range(n_edge)], dtype=float)
        lat = float(v["lat"])
        for la, zz in [(lat, z), (0.0, np.array([[0.0, 0.5], [-0.2, 0.3], [0.0, -0.4], [0.1, 0.2], [0.0, 0.0]]))]:
            got = [int(x) for x in np.atleast_1d(fast_constant_lat_intersections(la, zz.copy(), len(zz)))]
            c = math.sin(math.radians(la))
            exp = [e for e in range(len(zz)) if (zz[e, 0] - c) * (zz[e, 1] - c) < 0]
            if got != exp:
                return f"fast_constant_lat_intersections(lat={la}) with edge node z {zz.tolist()} selected {got}; edges whose end nodes lie strictly on opposite sides are {exp}"
        return None

    return Obligation(oid, "constant-latitude scan: exactly the edges whose end nodes lie strictly on opposite sides", setup, run, replay, exact=False, functions=FUNCS,
                      bounds="5 edges with symbolic end-node z in [-1,1], latitude in [-89,89]; sin uninterpreted; replay also with nodes exactly on the parallel",
                      stubs=["sin uninterpreted", "prange -> range (thread schedules outside)"], max_paths=2000, timeout_s=900, query_timeout_s=120)


# ------------------------------------------------------------------ bounding_circle / nearest_neighbor: region -> tree -> index set -> isel
def make_region(oid, mode, element, coordkind, tiers=("quick", "thorough")):
    """GridSubsetAccessor.bounding_circle / nearest_neighbor on a real (cloned) Grid with sklearn replaced by C11's recorder:
    which tree is asked (element kind, coordinate system), with which query point / radius / k, and what is done with the answer.
    An earlier tree request with symbolic (kind, system) precedes the call (tree cache history)."""
    from . import c11
    DIM = {"nodes": "n_node", "edge centers": "n_edge", "face centers": "n_face"}
    NRES = [0, 1, 2] if mode == "circle" else ([1, 2] if element == "face centers" else [1, 2, 3])    # the grid has 2 faces: k <= 2 there

    def setup(ctx):
        ctx.const("mode", mode); ctx.const("element", element); ctx.const("coordkind", coordkind)
        if coordkind == "lonlat":
            c = [ctx.real("c_lon", -180, 180), ctx.real("c_lat", -90, 90)]
        else:
            c = [ctx.real("c_x", -1, 1), ctx.real("c_y", -1, 1), ctx.real("c_z", -1, 1)]
        r = ctx.real("r", 0, 180)
        ctx.assume(sc.z(r) > 0)
        return dict(c=c, r=r, n=ctx.enum("n_res", NRES), prior=ctx.bool("prior_request"), pkind=ctx.enum("prior_kind", c11.KINDS), psys=ctx.enum("prior_system", c11.SYSTEMS),
                    via_data=ctx.bool("via_data"))

    def run(ctx, inp):
        w = world()
        trees = []
        n_res = inp["n"].concrete()

        class Rec(c11.SKTree):
            def __init__(self, *a, **k):
                super().__init__(*a, **k)
                trees.append(self)

            def query_radius(self, X, r, return_distance=False, count_only=False, sort_results=False):
                e = sc.eng()
                ind = [symnp.SArr.new([mk(e.fresh("ind", "Int")) for _ in range(n_res)], (n_res,), None, symnp.int64) for _ in range(X.shape_cap[0])]
                self.queries.append(("radius", X, r, None, ind))
                return ind
        g_ = w.G["uxarray.grid.neighbors"]
        saved = (g_["SKBallTree"], g_["SKKDTree"])
        g_["SKBallTree"], g_["SKKDTree"] = Rec, Rec
        try:
            g = c11._grid()
            if bool(inp["prior"]):
                pk, ps = inp["pkind"].concrete(), inp["psys"].concrete()
                (g.get_ball_tree if coordkind == "lonlat" else g.get_kd_tree)(coordinates=pk, coordinate_system=ps,
                                                                               distance_metric="minkowski" if ps == "cartesian" or coordkind == "xyz" else "haversine")
            captured = []
            g.isel = lambda **kw: (captured.append(kw), "subgrid")[1]
            via = bool(inp["via_data"])
            if via:
                UxDataArray = w.get("uxarray.core.dataarray", "UxDataArray")
                n_el = {"nodes": g.n_node, "edge centers": g.n_edge, "face centers": g.n_face}[element]
                uxda = UxDataArray(symxr.DataArray(C.sarr_1d([float(i) for i in range(n_el)], symnp.float64), dims=[DIM[element]]), uxgrid=g, name="v")
                sliced = []
                uxda._slice_from_grid = lambda sub: (sliced.append(sub), "sliced")[1]
                acc = uxda.subset
            else:
                acc = g.subset
            for t in trees:
                del t.queries[:]
            center = tuple(inp["c"])
            raised = None
            try:
                if mode == "circle":
                    out = acc.bounding_circle(center, inp["r"], element)
                else:
                    out = acc.nearest_neighbor(center, n_res, element)
            except ValueError as e:
                raised = e
            asked = [t for t in trees if t.queries]
            ctx.prove("exactly one tree is queried, once", len(asked) == 1 and len(asked[0].queries) == 1, note=f"{len(asked)} trees queried")
            if len(asked) != 1:
                return
            t = asked[0]
            system = "spherical" if coordkind == "lonlat" else "cartesian"
            ok, why = c11._tree_matches(t, g, element, system, "haversine" if coordkind == "lonlat" else "minkowski")
            ctx.prove(f"the tree queried holds the reference points of the requested element kind ({element}) in the coordinate system of the centre ({system}), whatever tree was requested before",
                      ok, note=why)
            kind, X, arg, d, ind = t.queries[0]
            xs = X.flat_list()
            c = inp["c"]
            if coordkind == "lonlat":
                want = [symnp.deg2rad(c[1]), symnp.deg2rad(c[0])]
            else:
                want = list(c)
            ctx.prove("the query point handed to the tree is the given centre, in the tree's column order and unit", X.shape_cap == (1, len(want)) and
                      z3.And(*[_zr(a) == _zr(b) for a, b in zip(xs, want)]) if X.shape_cap == (1, len(want)) else False)
            if mode == "circle":
                want_r = symnp.deg2rad(inp["r"]) if coordkind == "lonlat" else inp["r"]
                ctx.prove("radius: degrees -> radians for the spherical tree, unchanged for the Cartesian tree", _zr(arg) == _zr(want_r))
                if n_res == 0:
                    ctx.prove("an empty answer is reported by ValueError", raised is not None)
                    return
            else:
                ctx.prove("k handed to the tree", (not isinstance(arg, sc.Sym)) and int(arg) == n_res)
            ctx.prove("no exception when the tree returns elements", raised is None, note=str(raised))
            if raised is not None:
                return
            ctx.prove("one selection, along the dimension of the requested element kind", len(captured) == 1 and list(captured[0]) == [DIM[element]],
                      note=str([list(k) for k in captured]))
            if not (len(captured) == 1 and list(captured[0]) == [DIM[element]]):
                return
            got = symnp.asarray(captured[0][DIM[element]]).flat_list()
            src = ind[0].flat_list() if mode == "circle" else list(ind)
            ctx.prove("the selection is exactly the index set answered by the tree (all of it, nothing else, same order)",
                      len(got) == len(src) and z3.And(*[sc.z(a) == sc.z(b) for a, b in zip(got, src)]) if len(got) == len(src) else False)
            if via:
                ctx.prove("the data variable is sliced with the grid selected that way", sliced == ["subgrid"] and out == "sliced")
            else:
                ctx.prove("the sub-grid is returned", out == "subgrid")
        finally:
            g_["SKBallTree"], g_["SKKDTree"] = saved

    def replay(v):
        """the model's (centre, radius / k) first; the symbolic verdict is about data flow (tree, unit, index hand-over), so a concrete witness is then
        searched among a few more centres / radii on the same history (every one judged on the real library by brute force)"""
        lon, lat = C.default_lonlat(c11.N_NODE)
        if coordkind == "lonlat":
            cands = [((float(v["c_lon"]), float(v["c_lat"])), float(v["r"]))]
            cands += [((lo + 0.3, la - 0.2), r) for lo, la in list(zip(lon, lat))[:3] for r in (0.5, 8.0, 40.0, 100.0)]
        else:
            cands = [((float(v["c_x"]), float(v["c_y"]), float(v["c_z"])), float(v["r"]))]
            for lo, la in list(zip(lon, lat))[:3]:
                a, b = math.radians(lo + 0.3), math.radians(la - 0.2)
                cands += [((math.cos(b) * math.cos(a), math.cos(b) * math.sin(a), math.sin(b)), r) for r in (0.01, 0.2, 0.8, 1.7)]
        for center, r in cands:
            why = _replay_one(v, center, r)
            if why:
                return why
        return None

    def _replay_one(v, center, r):
        import uxarray as ux
        lon, lat = C.default_lonlat(c11.N_NODE)
        g = C.real_grid(c11.ROWS, lon, lat)
        if v.get("prior_request"):
            pk, ps = c11.KINDS[int(v["prior_kind"])], c11.SYSTEMS[int(v["prior_system"])]
            (g.get_ball_tree if coordkind == "lonlat" else g.get_kd_tree)(coordinates=pk, coordinate_system=ps,
                                                                           distance_metric="minkowski" if ps == "cartesian" or coordkind == "xyz" else "haversine")
        p = {"nodes": "node", "edge centers": "edge", "face centers": "face"}[element]
        L, A = np.radians(np.asarray(getattr(g, p + "_lon").values, dtype=float)), np.radians(np.asarray(getattr(g, p + "_lat").values, dtype=float))
        P = np.stack([np.cos(A) * np.cos(L), np.cos(A) * np.sin(L), np.sin(A)], axis=1)
        if coordkind == "lonlat":
            cl, ca = math.radians(center[0]), math.radians(center[1])
            c = np.array([math.cos(ca) * math.cos(cl), math.cos(ca) * math.sin(cl), math.sin(ca)])
            dist = np.degrees(np.arccos(np.clip(P @ c, -1, 1)))
        else:
            c = np.array(center, dtype=float)
            dist = np.linalg.norm(P - c, axis=1)
        k = NRES[int(v["n_res"])]
        if mode == "circle":
            if np.any(np.abs(dist - r) < 1e-7):
                return None
            exp_el = sorted(int(i) for i in np.nonzero(dist < r)[0])
        else:
            o = np.argsort(dist, kind="stable")
            if k < len(dist) and abs(dist[o[k]] - dist[o[k - 1]]) < 1e-9:
                return None
            exp_el = sorted(int(i) for i in o[:k])
        if element == "face centers":
            exp_faces = exp_el
        elif element == "nodes":
            exp_faces = sorted({f for f, row in enumerate(c11.ROWS) for i in exp_el if i in C.face_corners(row)})
        else:
            ef = np.asarray(g.edge_face_connectivity.values)
            exp_faces = sorted({int(f) for e in exp_el for f in ef[e] if int(f) != F})
        call = f"subset.{'bounding_circle' if mode == 'circle' else 'nearest_neighbor'}({center}, {r if mode == 'circle' else k}, '{element}')"
        try:
            if v.get("via_data"):
                n_el = len(dist)
                da = ux.UxDataArray(np.arange(n_el, dtype=float), dims=[DIM[element]], uxgrid=g, name="v")
                sub = (da.subset.bounding_circle(center, r, element) if mode == "circle" else da.subset.nearest_neighbor(center, k, element)).uxgrid
            else:
                sub = g.subset.bounding_circle(center, r, element) if mode == "circle" else g.subset.nearest_neighbor(center, k, element)
        except ValueError as e:
            return None if not exp_el else f"{call} raised {str(e)[:80]!r} although {element} {exp_el} lie within (distances {[round(float(dist[i]), 6) for i in exp_el]})"
        except Exception as e:
            return f"{call} raised {type(e).__name__}: {str(e)[:120]}"
        got = sorted(int(x) for x in np.atleast_1d(sub._ds["subgrid_face_indices"].values))
        if got != exp_faces:
            return (f"{call}{' after an earlier tree request' if v.get('prior_request') else ''}: result holds source faces {got}; the {element} "
                    f"{'within the radius' if mode == 'circle' else 'nearest to the centre'} are {exp_el} (distances {[round(float(x), 6) for x in dist]}), i.e. faces {exp_faces}")
        return None

    return Obligation(oid, f"{'bounding_circle' if mode == 'circle' else 'nearest_neighbor'} on {element}, centre given as {coordkind}", setup, run, replay, exact=False,
                      functions=["GridSubsetAccessor.bounding_circle", "GridSubsetAccessor.nearest_neighbor", "GridSubsetAccessor._get_tree", "GridSubsetAccessor._index_grid",
                                 "DataArraySubsetAccessor.bounding_circle", "DataArraySubsetAccessor.nearest_neighbor", "Grid.get_ball_tree", "Grid.get_kd_tree",
                                 "BallTree/KDTree.query", "BallTree/KDTree.query_radius", "neighbors._prepare_xy_for_query", "neighbors._prepare_xyz_for_query"],
                      stubs=c11.STUBS + ["Grid.isel / UxDataArray._slice_from_grid of the source object -> recorder (their own behaviour: C09.isel.*)"],
                      bounds="5-node / 2-face grid; centre, radius symbolic; the tree answers with 0..2 (circle) / 1..3 (k) arbitrary indices; optional earlier tree request with symbolic (kind, system); "
                             "grid accessor or data-array accessor (symbolic choice). Outside: that sklearn's answer is the true radius / k-nearest set (replays judge it by brute force)",
                      max_paths=4000, timeout_s=900, query_timeout_s=120, tiers=tiers)


def obligations(tier):
    obs = [make_isel("C09.isel.face.1.fresh", "n_face", 1, "fresh"), make_isel("C09.isel.face.2.edges", "n_face", 2, "edges", cost=4),
           make_isel("C09.isel.face.scalar", "n_face", 1, "scalar"), make_isel("C09.isel.node.1.all", "n_node", 1, "all"),
           make_isel("C09.isel.node.2.fresh", "n_node", 2, "fresh", cost=4), make_isel("C09.isel.face.3.all", "n_face", 3, "all", tiers=("thorough",), cost=8),
           make_isel("C09.isel.face.2.dist", "n_face", 2, "dist", cost=4), make_isel("C09.isel.node.1.dist", "n_node", 1, "dist", cost=4),
           make_bbox("C09.bbox.nodes.plain", "nodes", False), make_bbox("C09.bbox.nodes.wrap", "nodes", True, tiers=("thorough",)), make_bbox("C09.bbox.faces.wrap", "face centers", True),
           make_constlat("C09.constlat")]
    for mode in ("circle", "knn"):
        for el, tg in (("nodes", "node"), ("face centers", "face"), ("edge centers", "edge")):
            for ck in ("lonlat", "xyz"):
                obs.append(make_region(f"C09.{mode}.{tg}.{ck}", mode, el, ck))
    return [o for o in obs if tier in o.tiers]
