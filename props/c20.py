"""C20 Grid equality distinguishes any difference in coordinates or connectivity.

Real code executed: Grid.__eq__, Grid.__ne__ (cloned, over symxr datasets built by the cloned
Grid.from_dataset), Grid.copy for the 'a copy equals the grid' clause."""
import z3
import numpy as np
from symex import core as sc, symnp, symxr
from symex.core import mk
from symex.runner import Obligation, world
from . import common as C
from .common import F

SPECS = ["UGRID", "MPAS", "User Defined Topology"]
FUNCS = ["Grid.__eq__", "Grid.__ne__", "Grid.copy", "Grid.node_lon", "Grid.node_lat", "Grid.face_node_connectivity"]


def make(oid, shape1, shape2, shared=False, tiers=("quick", "thorough"), cost=1):
    """shape = (n_node, n_face, n_max)"""
    (nn1, nf1, nm1), (nn2, nf2, nm2) = shape1, shape2

    def setup(ctx):
        ctx.const("shape1", list(shape1))
        ctx.const("shape2", list(shape2))
        ctx.const("shared_ds", shared)
        s1 = ctx.enum("spec1", SPECS)
        s2 = ctx.enum("spec2", SPECS)
        lon1 = [z3.Real(f"lon1_{i}") for i in range(nn1)]
        lat1 = [z3.Real(f"lat1_{i}") for i in range(nn1)]
        fn1, n1 = C.sym_face_table(ctx, nf1, nm1, nn1, prefix="fn1")
        if shared:
            lon2, lat2, fn2, n2 = lon1, lat1, fn1, n1
        else:
            lon2 = [z3.Real(f"lon2_{i}") for i in range(nn2)]
            lat2 = [z3.Real(f"lat2_{i}") for i in range(nn2)]
            fn2, n2 = C.sym_face_table(ctx, nf2, nm2, nn2, prefix="fn2")
        for v in lon1 + lon2:
            ctx.solver.add(v >= -180, v <= 180)
        for v in lat1 + lat2:
            ctx.solver.add(v >= -90, v <= 90)
        ctx.eng.declare("lon1", lon1); ctx.eng.declare("lat1", lat1)
        ctx.eng.declare("lon2", lon2); ctx.eng.declare("lat2", lat2)
        return dict(s1=s1, s2=s2, lon1=lon1, lat1=lat1, fn1=fn1, lon2=lon2, lat2=lat2, fn2=fn2)

    def expected(i):
        same = [i["s1"].e == i["s2"].e]
        if shape1 != shape2:
            return z3.BoolVal(False)
        if shared:
            return same[0]
        for a, b in zip(i["lon1"] + i["lat1"], i["lon2"] + i["lat2"]):
            same.append(a == b)
        for r1, r2 in zip(i["fn1"], i["fn2"]):
            for a, b in zip(r1, r2):
                same.append(a == b)
        return z3.And(*same)

    def run(ctx, i):
        g1 = C.clone_grid(C.sarr_int(i["fn1"]), i["lon1"], i["lat1"], spec=i["s1"])
        if shared:
            Grid = world().get("uxarray.grid.grid", "Grid")
            g2 = Grid(g1._ds, i["s2"], {})
        else:
            g2 = C.clone_grid(C.sarr_int(i["fn2"]), i["lon2"], i["lat2"], spec=i["s2"])
        exp = expected(i)
        eq12 = g1 == g2
        ctx.prove("eq iff same format, lon, lat, connectivity", sc.z(eq12) == exp,
                  regions={"lon_or_lat": _kf_region(i, shape1, shape2, shared)})
        ne12 = g1 != g2
        ctx.prove("ne is the negation of eq", sc.z(ne12) == z3.Not(sc.z(eq12)))
        eq21 = g2 == g1
        ctx.prove("symmetric", sc.z(eq21) == sc.z(eq12))
        ctx.prove("reflexive", sc.and_(g1 == g1, g2 == g2, sc.not_(g1 != g1)))
        ctx.prove("copy equals original", sc.and_(g1.copy() == g1, g1 == g1.copy()))
        ctx.prove("non-Grid compares False", sc.and_(sc.not_(g1 == "grid"), sc.not_(g1 == None), sc.not_(g1 == 0),   # noqa: E711
                                                     g1 != "grid", g1 != None))   # noqa: E711
        if shape1 == shape2:
            ctx.reachable("equal pair", exp)
        ctx.reachable("unequal pair", z3.Not(exp))

    def replay(v):
        def grid(k, ds=None):
            if ds is not None:
                import uxarray as ux
                return ux.Grid(ds, SPECS[v["spec" + k]], {})
            return C.real_grid(v["fn" + k] if "fn" + k in v else v["fn1"], v["lon" + k], v["lat" + k], spec=SPECS[v["spec" + k]])
        g1 = grid("1")
        g2 = grid("2", g1._ds) if v["shared_ds"] else grid("2")
        exp = (v["spec1"] == v["spec2"]) and (v["shared_ds"] or (
            v["shape1"] == v["shape2"] and v["lon1"] == v["lon2"] and v["lat1"] == v["lat2"] and v["fn1"] == v["fn2"]))
        bad = []
        if bool(g1 == g2) != exp:
            bad.append(f"g1 == g2 is {g1 == g2}, expected {exp}")
        if bool(g2 == g1) != bool(g1 == g2):
            bad.append(f"g2 == g1 is {g2 == g1} but g1 == g2 is {g1 == g2}")
        if bool(g1 != g2) == bool(g1 == g2):
            bad.append(f"g1 != g2 is {g1 != g2} and g1 == g2 is {g1 == g2}")
        if not (g1 == g1) or (g1 != g1) or not (g2 == g2):
            bad.append("not reflexive")
        if not (g1.copy() == g1) or not (g1 == g1.copy()):
            bad.append("copy() does not equal the grid")
        if (g1 == "grid") or (g1 == None) or not (g1 != "grid"):   # noqa: E711
            bad.append("comparison with a non-Grid is not False")
        return "; ".join(bad) + f" [spec {v['spec1']},{v['spec2']} lon {v['lon1']} vs {v['lon2']} lat {v['lat1']} vs {v['lat2']} fn {v['fn1']} vs {v.get('fn2')}]" if bad else None

    return Obligation(oid, f"__eq__/__ne__ on grids of shapes (n_node,n_face,n_max)={shape1} vs {shape2}, shared dataset={shared}",
                      setup, run, replay, exact=True, functions=FUNCS,
                      bounds=f"n_node<={max(nn1, nn2)}, table<={max(nf1, nf2)}x{max(nm1, nm2)}, 3 format labels, lon/lat arbitrary reals in range",
                      assumptions=["coordinates are finite (no NaN)"], tiers=tiers, cost=cost, validate=_validate)


def _kf_region(i, shape1, shape2, shared):
    """known-finding region (only used if listed in known_findings.json): grids equal in format, connectivity and in
    one of lon/lat but not the other"""
    if shape1 != shape2 or shared:
        return False
    lon_eq = z3.And(*[a == b for a, b in zip(i["lon1"], i["lon2"])])
    lat_eq = z3.And(*[a == b for a, b in zip(i["lat1"], i["lat2"])])
    return z3.And(i["s1"].e == i["s2"].e, z3.Xor(lon_eq, lat_eq))


def make_derived(oid):
    """'a copy of a grid equals the grid' and 'equal iff lon/lat/connectivity identical' for grids whose compared arrays are DERIVED: node lon/lat computed
    lazily from Cartesian-only sources (read before or after the copy is taken), and a subset selecting every face (same arrays, built by the slicer)"""
    ROWS = [[0, 1, 2, 3], [1, 4, 2, F]]
    N = 5

    def setup(ctx):
        xyz = [[z3.Real(f"{c}_{i}") for i in range(N)] for c in "xyz"]
        for col in xyz:
            for v in col:
                ctx.solver.add(v >= -1, v <= 1)
        for c, col in zip("xyz", xyz):
            ctx.eng.declare("n" + c, col)
        return xyz, ctx.bool("read_before_copy"), ctx.bool("read_lat_first")

    def build(xyz):
        return C.clone_grid_from({"node_x": (["n_node"], xyz[0]), "node_y": (["n_node"], xyz[1]), "node_z": (["n_node"], xyz[2]),
                                  "face_node_connectivity": (["n_face", "n_max_face_nodes"], [list(r) for r in ROWS], dict(C.FN_ATTRS))}, spec="Face Vertices")

    def run(ctx, inp):
        xyz, read_first, lat_first = inp
        sc.NL_UF[0] = True
        old_sqrt, symnp.SQRT_MODE[0] = symnp.SQRT_MODE[0], "uf"
        symnp.TRIG_RANGE[0] = True
        try:
            g = build(xyz)
            if bool(read_first):
                if bool(lat_first):
                    g.node_lat, g.node_lon
                else:
                    g.node_lon, g.node_lat
            c = g.copy()
            ctx.prove("a copy equals the grid (either operand order, != false), whether or not the coordinates were derived before the copy was taken",
                      sc.and_(g == c, c == g, sc.not_(g != c)))
            fresh = build(xyz)
            ctx.prove("a grid on which coordinates were read equals a fresh grid from the same source", sc.and_(g == fresh, fresh == g))
            sub = g.isel(n_face=[0, 1])
            ctx.prove("the subset selecting every face (same node lon/lat and connectivity, same format) equals the grid", sc.and_(sub == g, g == sub, sc.not_(sub != g)))
        finally:
            sc.NL_UF[0] = False
            symnp.SQRT_MODE[0] = old_sqrt
            symnp.TRIG_RANGE[0] = False

    def replay(v):
        import xarray as xr
        import uxarray as ux
        import math

        def build():
            pts = []
            for i in range(N):
                p = np.array([float(v["nx"][i]), float(v["ny"][i]), float(v["nz"][i])])
                if np.linalg.norm(p) < 1e-6 or len({tuple(np.round(q, 9)) for q in pts} | {tuple(np.round(p, 9))}) <= len(pts):
                    lam, phi = math.radians(-160.0 + 37.0 * i), math.radians(-50.0 + 25.0 * i)     # western hemisphere first
                    p = np.array([math.cos(phi) * math.cos(lam), math.cos(phi) * math.sin(lam), math.sin(phi)])
                pts.append(p / np.linalg.norm(p))
            P = np.array(pts)
            ds = xr.Dataset()
            for k, c in enumerate("xyz"):
                ds["node_" + c] = xr.DataArray(P[:, k].copy(), dims=["n_node"])
            ds["face_node_connectivity"] = xr.DataArray(np.array(ROWS, dtype=np.intp), dims=["n_face", "n_max_face_nodes"], attrs=dict(C.FN_ATTRS))
            return ux.Grid.from_dataset(ds, source_grid_spec="Face Vertices")
        for read_first in (bool(v["read_before_copy"]), True, False):
            g = build()
            if read_first:
                if bool(v["read_lat_first"]):
                    g.node_lat, g.node_lon
                else:
                    g.node_lon, g.node_lat
            c = g.copy()
            if not (g == c) or not (c == g) or (g != c):
                return (f"Cartesian-only grid, coordinates {'read before' if read_first else 'not read before'} copy(): g == g.copy() is {g == c}, copy == g is {c == g}; "
                        f"node_lon {np.asarray(g.node_lon.values).round(3).tolist()} vs the copy's {np.asarray(c.node_lon.values).round(3).tolist()}")
            if not (g == build()):
                return "a grid on which node_lon/node_lat were read no longer equals a fresh grid from the same source"
            sub = g.isel(n_face=[0, 1])
            if not (sub == g) or not (g == sub) or (sub != g):
                return (f"the subset selecting every face does not equal the grid although node_lon {np.allclose(sub.node_lon.values, g.node_lon.values)}, "
                        f"node_lat {np.allclose(sub.node_lat.values, g.node_lat.values)} and connectivity {np.array_equal(sub.face_node_connectivity.values, g.face_node_connectivity.values)} are identical")
        return None

    return Obligation(oid, "copy / fresh / full-subset equality on grids whose node lon/lat are derived from Cartesian coordinates", setup, run, replay, exact=False,
                      functions=FUNCS + ["Grid.isel", "coordinates._populate_node_latlon", "coordinates._set_desired_longitude_range"],
                      bounds="2 faces (4+3 corners) over 5 nodes with symbolic Cartesian coordinates; coordinates read before / after the copy, lat or lon first",
                      stubs=["trig / products uninterpreted (coordinates compared as terms)"], max_paths=2000)


def make_extras(oid, how):
    """grids with identical format, node_lon, node_lat and face_node_connectivity but different OTHER content (face centres absent / present / different)
    must compare equal.  how: 'topology' = Grid.from_topology(face_lon=, face_lat=); 'coords' = datasets whose face centres are xarray coordinates
    (what xr.open_dataset makes of a CF `coordinates` attribute)"""
    nn, nf, nm = 4, 2, 3

    def setup(ctx):
        ctx.const("how", how)
        lon = [z3.Real(f"lon_{i}") for i in range(nn)]
        lat = [z3.Real(f"lat_{i}") for i in range(nn)]
        fn, n = C.sym_face_table(ctx, nf, nm, nn, prefix="fn")
        fl = [[z3.Real(f"flon{k}_{i}") for i in range(nf)] for k in (1, 2)]
        fa = [[z3.Real(f"flat{k}_{i}") for i in range(nf)] for k in (1, 2)]
        for v in lon + fl[0] + fl[1]:
            ctx.solver.add(v >= -180, v <= 180)
        for v in lat + fa[0] + fa[1]:
            ctx.solver.add(v >= -90, v <= 90)
        ctx.eng.declare("lon", lon); ctx.eng.declare("lat", lat)
        ctx.eng.declare("flon1", fl[0]); ctx.eng.declare("flon2", fl[1]); ctx.eng.declare("flat1", fa[0]); ctx.eng.declare("flat2", fa[1])
        return dict(lon=lon, lat=lat, fn=fn, fl=fl, fa=fa)

    def grids(lon, lat, fn_arr, fl, fa, Grid, DA, DS, arr_f):
        out = []
        for k in (None, 0, 1):
            if how == "topology":
                kw = {} if k is None else dict(face_lon=arr_f(fl[k]), face_lat=arr_f(fa[k]))
                out.append(Grid.from_topology(arr_f(lon), arr_f(lat), fn_arr(), fill_value=F, **kw))
            else:
                ds = DS()
                ds["node_lon"] = DA(arr_f(lon), dims=["n_node"])
                ds["node_lat"] = DA(arr_f(lat), dims=["n_node"])
                ds["face_node_connectivity"] = DA(fn_arr(), dims=["n_face", "n_max_face_nodes"], attrs=dict(C.FN_ATTRS))
                if k is not None:
                    ds["face_lon"] = DA(arr_f(fl[k]), dims=["n_face"])
                    ds["face_lat"] = DA(arr_f(fa[k]), dims=["n_face"])
                    ds = ds.set_coords(["face_lon", "face_lat"])
                out.append(Grid.from_dataset(ds, source_grid_spec="UGRID"))
        return out

    def run(ctx, i):
        Grid = world().get("uxarray.grid.grid", "Grid")
        gs = grids(i["lon"], i["lat"], lambda: C.sarr_int(i["fn"]), i["fl"], i["fa"], Grid, symxr.DataArray, symxr.Dataset, lambda v: C.sarr_1d(v, symnp.float64))
        names = ["no centres", "centres A", "centres B"]
        for a in range(3):
            for b in range(3):
                if a != b:
                    ctx.prove(f"'{names[a]}' == '{names[b]}': same format, node_lon, node_lat and face_node_connectivity => equal (and != is False)",
                              sc.and_(gs[a] == gs[b], sc.not_(gs[a] != gs[b])))
        ctx.reachable("centres differ", z3.Or(*[x != y for x, y in zip(i["fl"][0] + i["fa"][0], i["fl"][1] + i["fa"][1])]))

    def replay(v):
        import xarray as xr
        import uxarray as ux
        rows = np.array(v["fn"], dtype=np.intp)
        gs = grids(v["lon"], v["lat"], lambda: rows.copy(), [v["flon1"], v["flon2"]], [v["flat1"], v["flat2"]], ux.Grid, xr.DataArray, xr.Dataset, lambda x: np.array(x, dtype=float))
        names = ["no face centres", f"face centres {v['flon1']}/{v['flat1']}", f"face centres {v['flon2']}/{v['flat2']}"]
        for a in range(3):
            for b in range(3):
                if a != b and (not (gs[a] == gs[b]) or (gs[a] != gs[b])):
                    return (f"two grids ({'from_topology' if how == 'topology' else 'UGRID datasets with centres as coordinates'}) with identical format, node_lon {v['lon']}, node_lat {v['lat']} "
                            f"and face_node_connectivity {v['fn']} compare unequal: one has {names[a]}, the other {names[b]}")
        return None

    return Obligation(oid, f"equality ignores everything but format, node_lon, node_lat, face_node_connectivity ({how})", setup, run, replay, exact=True, functions=FUNCS + ["Grid.from_topology", "_topology._read_topology"],
                      bounds="4 nodes, 2 faces <= 3 corners, symbolic coordinates; three grids differing only in their face centres (absent / A / B)", assumptions=["coordinates are finite (no NaN)"])


def _validate():
    n = 0
    rows = [[0, 1, 2, F], [1, 3, 2, 4]]
    lon, lat = C.default_lonlat(5)
    for dl, dla, dfn, spec2 in [(0, 0, 0, "UGRID"), (0, 0, 1, "UGRID"), (0, 0, 0, "MPAS"), (1, 1, 0, "UGRID")]:
        lon2 = list(lon); lat2 = list(lat); rows2 = [list(r) for r in rows]
        lon2[1] += dl; lat2[2] += dla
        if dfn:
            rows2[0][2] = 4
        a = C.clone_grid(symnp.array(rows), lon, lat) == C.clone_grid(symnp.array(rows2), lon2, lat2, spec=spec2)
        b = C.real_grid(rows, lon, lat) == C.real_grid(rows2, lon2, lat2, spec=spec2)
        if bool(a) != bool(b):
            raise AssertionError(f"shim/real disagreement on __eq__: {a} vs {b}")
        n += 1
    return n


def obligations(tier):
    obs = [
        make("C20.eq.same.3n1f3", (3, 1, 3), (3, 1, 3)),
        make("C20.eq.same.4n2f4", (4, 2, 4), (4, 2, 4), cost=3),
        make("C20.eq.shared_ds", (4, 2, 4), (4, 2, 4), shared=True),
        make("C20.eq.more_nodes", (4, 2, 3), (5, 2, 3)),
        make("C20.eq.more_faces", (4, 1, 3), (4, 2, 3)),
        make("C20.eq.wider_table", (4, 2, 3), (4, 2, 4)),
        make("C20.eq.same.5n3f4", (5, 3, 4), (5, 3, 4), tiers=("thorough",), cost=5),
        make_derived("C20.eq.derived"), make_extras("C20.eq.extras.topology", "topology"), make_extras("C20.eq.extras.coords", "coords"),
    ]
    return [o for o in obs if tier in o.tiers]
