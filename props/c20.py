"""C20 Grid equality distinguishes any difference in coordinates or connectivity.

Real code executed: Grid.__eq__, Grid.__ne__ (cloned, over symxr datasets built by the cloned
Grid.from_dataset), Grid.copy for the 'a copy equals the grid' clause."""
import z3
import numpy as np
from symex import core as sc, symnp, symxr
from symex.core import mk
from symex.runner import Obligation, world
from . import common as C
from .common import F

SPECS = ["UGRID", "MPAS", "User Defined Topology"]
FUNCS = ["Grid.__eq__", "Grid.__ne__", "Grid.copy", "Grid.node_lon", "Grid.node_lat", "Grid.face_node_connectivity"]


def make(oid, shape1, shape2, shared=False, tiers=("quick", "thorough"), cost=1):
    """shape = (n_node, n_face, n_max)"""
    (nn1, nf1, nm1), (nn2, nf2, nm2) = shape1, shape2

    def setup(ctx):
        ctx.const("shape1", list(shape1))
        ctx.const("shape2", list(shape2))
        ctx.const("shared_ds", shared)
        s1 = ctx.enum("spec1", SPECS)
        s2 = ctx.enum("spec2", SPECS)
        lon1 = [z3.Real(f"lon1_{i}") for i in range(nn1)]
        lat1 = [z3.Real(f"lat1_{i}") for i in range(nn1)]
        fn1, n1 = C.sym_face_table(ctx, nf1, nm1, nn1, prefix="fn1")
        if shared:
            lon2, lat2, fn2, n2 = lon1, lat1, fn1, n1
        else:
            lon2 = [z3.Real(f"lon2_{i}") for i in range(nn2)]
            lat2 = [z3.Real(f"lat2_{i}") for i in range(nn2)]
            fn2, n2 = C.sym_face_table(ctx, nf2, nm2, nn2, prefix="fn2")
        for v in lon1 + lon2:
            ctx.solver.add(v >= -180, v <= 180)
        for v in lat1 + lat2:
            ctx.solver.add(v >= -90, v <= 90)
        ctx.eng.declare("lon1", lon1); ctx.eng.declare("lat1", lat1)
        ctx.eng.declare("lon2", lon2); ctx.eng.declare("lat2", lat2)
        return dict(s1=s1, s2=s2, lon1=lon1, lat1=lat1, fn1=fn1, lon2=lon2, lat2=lat2, fn2=fn2)

    def expected(i):
        same = [i["s1"].e == i["s2"].e]
        if shape1 != shape2:
            return z3.BoolVal(False)
        if shared:
            return same[0]
        for a, b in zip(i["lon1"] + i["lat1"], i["lon2"] + i["lat2"]):
            same.append(a == b)
        for r1, r2 in zip(i["fn1"], i["fn2"]):
            for a, b in zip(r1, r2):
                same.append(a == b)
        return z3.And(*same)

    def run(ctx, i):
        g1 = C.clone_grid(C.sarr_int(i["fn1"]), i["lon1"], i["lat1"], spec=i["s1"])
        if shared:
            Grid = world().get("uxarray.grid.grid", "Grid")
            g2 = Grid(g1._ds, i["s2"], {})
        else:
            g2 = C.clone_grid(C.sarr_int(i["fn2"]), i["lon2"], i["lat2"], spec=i["s2"])
        exp = expected(i)
        eq12 = g1 == g2
        ctx.prove("eq iff same format, lon, lat, connectivity", sc.z(eq12) == exp,
                  regions={"lon_or_lat": _kf_region(i, shape1, shape2, shared)})
        ne12 = g1 != g2
        ctx.prove("ne is the negation of eq", sc.z(ne12) == z3.Not(sc.z(eq12)))
        eq21 = g2 == g1
        ctx.prove("symmetric", sc.z(eq21) == sc.z(eq12))
        ctx.prove("reflexive", sc.and_(g1 == g1, g2 == g2, sc.not_(g1 != g1)))
        ctx.prove("copy equals original", sc.and_(g1.copy() == g1, g1 == g1.copy()))
        ctx.prove("non-Grid compares False", sc.and_(sc.not_(g1 == "grid"), sc.not_(g1 == None), sc.not_(g1 == 0),   # noqa: E711
                                                     g1 != "grid", g1 != None))   # noqa: E711
        if shape1 == shape2:
            ctx.reachable("equal pair", exp)
        ctx.reachable("unequal pair", z3.Not(exp))

    def replay(v):
        def grid(k, ds=None):
            if ds is not None:
                import uxarray as ux
                return ux.Grid(ds, SPECS[v["spec" + k]], {})
            return C.real_grid(v["fn" + k] if "fn" + k in v else v["fn1"], v["lon" + k], v["lat" + k], spec=SPECS[v["spec" + k]])
        g1 = grid("1")
        g2 = grid("2", g1._ds) if v["shared_ds"] else grid("2")
        exp = (v["spec1"] == v["spec2"]) and (v["shared_ds"] or (
            v["shape1"] == v["shape2"] and v["lon1"] == v["lon2"] and v["lat1"] == v["lat2"] and v["fn1"] == v["fn2"]))
        bad = []
        if bool(g1 == g2) != exp:
            bad.append(f"g1 == g2 is {g1 == g2}, expected {exp}")
        if bool(g2 == g1) != bool(g1 == g2):
            bad.append(f"g2 == g1 is {g2 == g1} but g1 == g2 is {g1 == g2}")
        if bool(g1 != g2) == bool(g1 == g2):
            bad.append(f"g1 != g2 is {g1 != g2} and g1 == g2 is {g1 == g2}")
        if not (g1 == g1) or (g1 != g1) or not (g2 == g2):
            bad.append("not reflexive")
        if not (g1.copy() == g1) or not (g1 == g1.copy()):
            bad.append("copy() does not equal the grid")
        if (g1 == "grid") or (g1 == None) or not (g1 != "grid"):   # noqa: E711
            bad.append("comparison with a non-Grid is not False")
        return "; ".join(bad) + f" [spec {v['spec1']},{v['spec2']} lon {v['lon1']} vs {v['lon2']} lat {v['lat1']} vs {v['lat2']} fn {v['fn1']} vs {v.get('fn2')}]" if bad else None

    return Obligation(oid, f"__eq__/__ne__ on grids of shapes (n_node,n_face,n_max)={shape1} vs {shape2}, shared dataset={shared}",
                      setup, run, replay, exact=True, functions=FUNCS,
                      bounds=f"n_node<={max(nn1, nn2)}, table<={max(nf1, nf2)}x{max(nm1, nm2)}, 3 format labels, lon/lat arbitrary reals in range",
                      assumptions=["coordinates are finite (no NaN)"], tiers=tiers, cost=cost, validate=_validate)


def _kf_region(i, shape1, shape2, shared):
    """known-finding region (only used if listed in known_findings.json): grids equal in format, connectivity and in
    one of lon/lat but not the other"""
    if shape1 != shape2 or shared:
        return False
    lon_eq = z3.And(*[a == b for a, b in zip(i["lon1"], i["lon2"])])
    lat_eq = z3.And(*[a == b for a, b in zip(i["lat1"], i["lat2"])])
    return z3.And(i["s1"].e == i["s2"].e, z3.Xor(lon_eq, lat_eq))


def _validate():
    n = 0
    rows = [[0, 1, 2, F], [1, 3, 2, 4]]
    lon, lat = C.default_lonlat(5)
    for dl, dla, dfn, spec2 in [(0, 0, 0, "UGRID"), (0, 0, 1, "UGRID"), (0, 0, 0, "MPAS"), (1, 1, 0, "UGRID")]:
        lon2 = list(lon); lat2 = list(lat); rows2 = [list(r) for r in rows]
        lon2[1] += dl; lat2[2] += dla
        if dfn:
            rows2[0][2] = 4
        a = C.clone_grid(symnp.array(rows), lon, lat) == C.clone_grid(symnp.array(rows2), lon2, lat2, spec=spec2)
        b = C.real_grid(rows, lon, lat) == C.real_grid(rows2, lon2, lat2, spec=spec2)
        if bool(a) != bool(b):
            raise AssertionError(f"shim/real disagreement on __eq__: {a} vs {b}")
        n += 1
    return n


def obligations(tier):
    obs = [
        make("C20.eq.same.3n1f3", (3, 1, 3), (3, 1, 3)),
        make("C20.eq.same.4n2f4", (4, 2, 4), (4, 2, 4), cost=3),
        make("C20.eq.shared_ds", (4, 2, 4), (4, 2, 4), shared=True),
        make("C20.eq.more_nodes", (4, 2, 3), (5, 2, 3)),
        make("C20.eq.more_faces", (4, 1, 3), (4, 2, 3)),
        make("C20.eq.wider_table", (4, 2, 3), (4, 2, 4)),
        make("C20.eq.same.5n3f4", (5, 3, 4), (5, 3, 4), tiers=("thorough",), cost=5),
    ]
    return [o for o in obs if tier in o.tiers]
