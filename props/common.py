"""Shared harness pieces: symbolic standard-form face tables, cloned Grid construction,
concrete (replay-side) grid construction and pure-Python reference oracles."""
import warnings
import z3
import numpy as np

from symex import core as sc, symnp, symxr
from symex.core import mk
from symex.runner import world

warnings.filterwarnings("ignore")

F = int(np.iinfo(np.intp).min)        # the library's INT_FILL_VALUE (checked against uxarray.constants below)


def _check_fill():
    import uxarray.constants as c
    assert int(c.INT_FILL_VALUE) == F


# ------------------------------------------------------------------ symbolic inputs
def sym_face_table(ctx, n_face, n_max, n_node, prefix="fn", min_size=3, distinct=True, sizes=None):
    """face-node table in standard form: per-face size nf[f] in [min_size, n_max] (symbolic, hence every padding
    layout), node ids in [0, n_node), distinct within a face, FILL exactly after the last corner."""
    fn = [[z3.Int(f"{prefix}_{f}_{j}") for j in range(n_max)] for f in range(n_face)]
    nf = [z3.Int(f"{prefix}_n_{f}") for f in range(n_face)]
    S = ctx.solver
    for f in range(n_face):
        if sizes is not None:
            S.add(nf[f] == sizes[f])
        S.add(nf[f] >= min_size, nf[f] <= n_max)
        for j in range(n_max):
            S.add(z3.If(j < nf[f], z3.And(fn[f][j] >= 0, fn[f][j] < n_node), fn[f][j] == F))
        if distinct:
            for j in range(n_max):
                for k in range(j + 1, n_max):
                    S.add(z3.Implies(k < nf[f], fn[f][j] != fn[f][k]))
    ctx.eng.declare(prefix, fn)
    ctx.eng.declare(prefix + "_n", nf)
    return fn, nf


def manifold_pre(ctx, fn, nf, n_max):
    """each unordered pair of consecutive corners occurs in at most two faces, and at most once per face
    (the latter is implied by distinct corners)"""
    S = ctx.solver
    n_face = len(fn)

    def nxt(f, j):
        return z3.If(j + 1 < nf[f], fn[f][(j + 1) % n_max], fn[f][0])

    def same(f, j, g, k):
        a, b, c, d = fn[f][j], nxt(f, j), fn[g][k], nxt(g, k)
        return z3.And(j < nf[f], k < nf[g], z3.Or(z3.And(a == c, b == d), z3.And(a == d, b == c)))
    for f in range(n_face):
        for g in range(f + 1, n_face):
            for h in range(g + 1, n_face):
                for j in range(n_max):
                    for k in range(n_max):
                        for l in range(n_max):
                            S.add(z3.Not(z3.And(same(f, j, g, k), same(f, j, h, l))))


def sarr_int(rows):
    vals = [mk(x) if z3.is_expr(x) else x for r in rows for x in r]
    return symnp.SArr.new(vals, (len(rows), len(rows[0])), None, symnp.int64)


def sarr_1d(vals, dtype=None):
    vals = [mk(x) if z3.is_expr(x) else x for x in vals]
    return symnp.SArr.new(vals, (len(vals),), None, dtype)


def default_lonlat(n_node):
    lon = [-170.0 + 37.0 * i for i in range(n_node)]
    lat = [-60.0 + 23.0 * i for i in range(n_node)]
    return [((x + 180) % 360) - 180 for x in lon], [max(-85.0, min(85.0, y)) for y in lat]


def clone_grid(fn_arr, lon, lat, spec="UGRID", extra=None):
    """cloned Grid over a symxr dataset (Grid.from_dataset(ds, source_grid_spec=...) path)"""
    w = world()
    ds = symxr.Dataset()
    ds["node_lon"] = symxr.DataArray(sarr_1d(lon, symnp.float64), dims=["n_node"])
    ds["node_lat"] = symxr.DataArray(sarr_1d(lat, symnp.float64), dims=["n_node"])
    ds["face_node_connectivity"] = symxr.DataArray(fn_arr, dims=["n_face", "n_max_face_nodes"],
                                                   attrs={"cf_role": "face_node_connectivity", "_FillValue": F, "start_index": 0})
    for k, v in (extra or {}).items():
        ds[k] = v
    Grid = w.get("uxarray.grid.grid", "Grid")
    return Grid.from_dataset(ds, source_grid_spec=spec)


# ------------------------------------------------------------------ concrete side (replay)
def real_grid(fn_rows, lon, lat, spec="UGRID", extra=None):
    import xarray as xr
    import uxarray as ux
    ds = xr.Dataset()
    ds["node_lon"] = xr.DataArray(np.array(lon, dtype=float), dims=["n_node"])
    ds["node_lat"] = xr.DataArray(np.array(lat, dtype=float), dims=["n_node"])
    ds["face_node_connectivity"] = xr.DataArray(np.array(fn_rows, dtype=np.intp), dims=["n_face", "n_max_face_nodes"],
                                                attrs={"cf_role": "face_node_connectivity", "_FillValue": F, "start_index": 0})
    for k, v in (extra or {}).items():
        ds[k] = v
    return ux.Grid.from_dataset(ds, source_grid_spec=spec)


def face_corners(row):
    return [int(v) for v in row if int(v) != F]


def ref_edges(fn_rows):
    """reference: per face the list of unordered consecutive-corner pairs (cyclic), and the set of all"""
    per_face = []
    for row in fn_rows:
        c = face_corners(row)
        per_face.append([frozenset((c[j], c[(j + 1) % len(c)])) for j in range(len(c))])
    allp = set(p for pf in per_face for p in pf)
    return per_face, allp


def check_edge_tables(fn_rows, edge_node, face_edge, n_edge, nnpf, n_max):
    """pure-Python oracle for C02; returns None or a description of the first discrepancy"""
    per_face, allp = ref_edges(fn_rows)
    en = [[int(a), int(b)] for a, b in np.asarray(edge_node).reshape(-1, 2)]
    if int(n_edge) != len(allp):
        return f"n_edge={int(n_edge)} but the faces have {len(allp)} distinct boundary segments"
    if len(en) != len(allp):
        return f"edge_node_connectivity has {len(en)} rows, expected {len(allp)}"
    seen = set()
    for i, (a, b) in enumerate(en):
        if a == F or b == F:
            return f"edge row {i} contains padding: {[a, b]}"
        p = frozenset((a, b))
        if p not in allp:
            return f"edge row {i}={[a, b]} is not a boundary segment of any face"
        if p in seen:
            return f"edge row {i}={[a, b]} listed twice"
        seen.add(p)
    fe = np.asarray(face_edge)
    if fe.shape != (len(fn_rows), n_max):
        return f"face_edge_connectivity shape {fe.shape}, expected {(len(fn_rows), n_max)}"
    for f, pf in enumerate(per_face):
        if int(np.asarray(nnpf)[f]) != len(pf):
            return f"n_nodes_per_face[{f}]={int(np.asarray(nnpf)[f])}, face has {len(pf)} corners"
        for j in range(n_max):
            e = int(fe[f, j])
            if j < len(pf):
                if not 0 <= e < len(en):
                    return f"face_edge[{f},{j}]={e} out of range"
                if frozenset(en[e]) != pf[j]:
                    return f"face_edge[{f},{j}]={e} -> {en[e]} but corner {j}->{j + 1} of face {f} is {sorted(pf[j])}"
            elif e != F:
                return f"face_edge[{f},{j}]={e} where face {f} has no corner (expected padding)"
    return None


def model_table(vals, prefix="fn"):
    return [[int(x) for x in row] for row in vals[prefix]]


DIMS = {"node": "n_node", "edge": "n_edge", "face": "n_face"}


def clone_grid_from(vars_, spec="UGRID"):
    """cloned Grid over a symxr dataset with exactly the given variables: {name: (dims, list-or-SArr, attrs?)}"""
    w = world()
    ds = symxr.Dataset()
    for k, v in vars_.items():
        dims, data = v[0], v[1]
        attrs = v[2] if len(v) > 2 else {}
        if not isinstance(data, symnp.SArr):
            data = sarr_1d(data, symnp.float64) if not (data and isinstance(data[0], (list, tuple))) else sarr_int(data)
        ds[k] = symxr.DataArray(data, dims=list(dims), attrs=attrs)
    Grid = w.get("uxarray.grid.grid", "Grid")
    return Grid.from_dataset(ds, source_grid_spec=spec)


def real_grid_from(vars_, spec="UGRID"):
    import xarray as xr
    import uxarray as ux
    ds = xr.Dataset()
    for k, v in vars_.items():
        dims, data = v[0], v[1]
        attrs = v[2] if len(v) > 2 else {}
        arr = np.array(data)
        if arr.dtype.kind in "iu":
            arr = arr.astype(np.intp)
        ds[k] = xr.DataArray(arr, dims=list(dims), attrs=attrs)
    return ux.Grid.from_dataset(ds, source_grid_spec=spec)


FN_ATTRS = {"cf_role": "face_node_connectivity", "_FillValue": F, "start_index": 0}
