"""C17 Topological aggregations reduce over exactly each element's nodes.

Real code executed: UxDataArray.topological_<agg> -> aggregation._uxda_grid_aggregate -> _node_to_face_aggregation /
_node_to_edge_aggregation -> _apply_node_to_{face,edge}_aggregation_numpy -> connectivity.get_face_node_partitions,
over a cloned Grid with a symbolic face-node table (node ids are solver variables) and symbolic data.
The ten numpy reductions themselves are trusted and replaced by a recorder H_k(v_1..v_k) (uninterpreted, one function
per operand width), so the claim is about *which operand reaches the reduction and where its result lands*."""
import itertools
import z3
import numpy as np
from symex import core as sc, symnp, symxr
from symex.core import mk
from symex.runner import Obligation, world
from . import common as C
from .common import F

AGGS = ["mean", "max", "min", "prod", "sum", "std", "var", "median", "all", "any"]
FUNCS = ["UxDataArray.topological_*", "aggregation._uxda_grid_aggregate", "aggregation._node_to_face_aggregation",
         "aggregation._apply_node_to_face_aggregation_numpy", "aggregation._node_to_edge_aggregation",
         "aggregation._apply_node_to_edge_aggregation_numpy", "connectivity.get_face_node_partitions"]


def _H(k):
    return z3.Function(f"H{k}", *([z3.RealSort()] * (k + 1)))


def _recorders(log):
    def mkrec(name):
        def rec(operand, axis=None, **kw):
            log.append((name, operand.shape_cap, axis, dict(kw)))
            if axis not in (-1, operand.ndim - 1):
                raise sc.Unsupported(f"reduction along axis {axis}")
            k = operand.shape_cap[-1]
            fl = operand.flat_list()
            rows = [fl[i * k:(i + 1) * k] for i in range(len(fl) // k)] if k else []
            H = _H(k)
            out = [mk(H(*[_r(v) for v in row])) for row in rows]
            shp = operand.shape_cap[:-1]
            if shp == ():
                return out[0]
            r = symnp.SArr.new(out, shp, None, symnp.float64)
            return r
        return rec
    return {a: mkrec(a) for a in AGGS}


def _install(ag, log):
    """recorders in place of the ten numpy reductions of the cloned aggregation module; any OTHER module-level table keyed by the
    original reduction functions (dispatch tables) is re-keyed to the recorders, so a route around the recorder shows as a non-H term"""
    saved = ag["NUMPY_AGGREGATIONS"]
    recs = _recorders(log)
    rekeyed = []
    for nm, obj in list(ag.items()):
        if isinstance(obj, dict) and obj is not saved and any(k is v for k in list(obj) for v in saved.values() if callable(k)):
            new = {(recs[[a for a in saved if saved[a] is k][0]] if any(saved[a] is k for a in saved) else k): v for k, v in obj.items()}
            rekeyed.append((nm, obj))
            ag[nm] = new
    ag["NUMPY_AGGREGATIONS"] = recs

    def undo():
        ag["NUMPY_AGGREGATIONS"] = saved
        for nm, obj in rekeyed:
            ag[nm] = obj
    return undo


def _r(v):
    if isinstance(v, sc.SymInt):
        return z3.ToReal(v.e)
    if isinstance(v, sc.SymBool):
        return z3.If(v.e, z3.RealVal(1), z3.RealVal(0))
    if isinstance(v, sc.Sym):
        return v.e
    if isinstance(v, bool):
        return z3.RealVal(int(v))
    if isinstance(v, int):
        return z3.RealVal(v)
    return sc.lift(v)


def make_face(oid, sizes, n_node, lead, agg_subset=None, tiers=("quick", "thorough"), dtype="float"):
    n_face, n_max = len(sizes), max(sizes)
    lon, lat = C.default_lonlat(n_node)
    shape = tuple(lead) + (n_node,)
    nlead = int(np.prod(lead)) if lead else 1

    def setup(ctx):
        ctx.const("sizes", list(sizes)); ctx.const("lead", list(lead))
        fn, nf = C.sym_face_table(ctx, n_face, n_max, n_node, sizes=sizes)
        ctx.const("dtype", dtype)
        if dtype == "float":
            vals = [z3.Real(f"v_{i}") for i in range(nlead * n_node)]
            for i, v in enumerate(vals):
                ctx.solver.add(v >= -5, v <= 5)
            for i in range(len(vals)):
                for j in range(i + 1, len(vals)):
                    ctx.solver.add(z3.Or(vals[i] - vals[j] >= sc.lift(0.25), vals[j] - vals[i] >= sc.lift(0.25)))   # generic data: a wrong operand changes the value
        elif dtype == "int":
            vals = [z3.Int(f"v_{i}") for i in range(nlead * n_node)]
            for v in vals:
                ctx.solver.add(v >= -20, v <= 20)
            ctx.solver.add(z3.Distinct(*vals))
        else:
            vals = [z3.Bool(f"v_{i}") for i in range(nlead * n_node)]
        ctx.eng.declare("vals", vals)
        agg = ctx.enum("agg", AGGS)
        return fn, nf, vals, agg

    def run(ctx, inp):
        fn, nf, vals, agg = inp
        w = world()
        ag = w.G["uxarray.core.aggregation"]
        log = []
        saved = ag["NUMPY_AGGREGATIONS"]
        ag["NUMPY_AGGREGATIONS"] = _recorders(log)
        try:
            extra = {"n_nodes_per_face": symxr.DataArray(symnp.array(list(sizes)), dims=["n_face"])}
            rows = [[fn[f][j] if j < sizes[f] else F for j in range(n_max)] for f in range(n_face)]
            g = C.clone_grid(C.sarr_int(rows), lon, lat, extra=extra)
            U = w.get("uxarray.core.dataarray", "UxDataArray")
            dims = [f"d{i}" for i in range(len(lead))] + ["n_node"]
            sdt = {"float": symnp.float64, "int": symnp.int64, "bool": symnp.bool_}[dtype]
            da = U(symnp.SArr.new([mk(v) for v in vals], shape, None, sdt), dims=dims, uxgrid=g, name="t")
            name = agg.concrete()                      # forks over the ten reductions
            out = getattr(da, f"topological_{name}")(destination="face")
        finally:
            ag["NUMPY_AGGREGATIONS"] = saved
        ov = out.values
        ctx.prove("result carries n_face in place of n_node, same grid and name, shape",
                  sc.and_(tuple(out.dims) == tuple(dims[:-1]) + ("n_face",), out.uxgrid is g, out.name == "t", ov.shape_cap == tuple(lead) + (n_face,)))
        ctx.prove("only the requested reduction is used", all(c[0] == name for c in log) and len(log) >= 1)
        fl = ov.flat_list()

        rvals = [_r(mk(v)) for v in vals]

        def sel(idx, i):
            t = rvals[i * n_node + n_node - 1]
            for k in range(n_node - 2, -1, -1):
                t = z3.If(idx == k, rvals[i * n_node + k], t)
            return t
        for i in range(nlead):
            cl = []
            for f in range(n_face):
                exp = _H(sizes[f])(*[sel(fn[f][j], i) for j in range(sizes[f])])
                cl.append(_r(fl[i * n_face + f]) == exp)
            ctx.prove(f"leading index {i}: result[f] = the reduction's own value over exactly face f's own corners (no padding, not cast back to the {dtype} source type), for every face", z3.And(*cl))

    def replay(v):
        import uxarray as ux
        rows = [[int(x) for x in r] for r in v["fn"]]
        g = C.real_grid(rows, lon, lat)
        data = np.array(v["vals"], dtype={"float": float, "int": np.int64, "bool": bool}[dtype]).reshape(shape)
        dims = [f"d{i}" for i in range(len(lead))] + ["n_node"]
        for name in ([AGGS[v["agg"]]] + [a for a in AGGS if a != AGGS[v["agg"]]]):
            d = (data > 0 if name in ("all", "any") else data) if dtype != "bool" else data
            da = ux.UxDataArray(d, dims=dims, uxgrid=g, name="t")
            out = getattr(da, f"topological_{name}")(destination="face")
            if tuple(out.dims) != tuple(dims[:-1]) + ("n_face",) or out.uxgrid is not g:
                return f"topological_{name}: dims {out.dims}"
            got = np.asarray(out.values)
            for f, row in enumerate(rows):
                c = C.face_corners(row)
                exp = getattr(np, name)(d[..., c], axis=-1)
                if not np.allclose(np.asarray(got[..., f], dtype=float), np.asarray(exp, dtype=float), rtol=1e-9, atol=1e-12):
                    return f"topological_{name}(face)[..., {f}] = {np.asarray(got[..., f]).tolist()} but {name} over face {f}'s corners {c} is {np.asarray(exp).tolist()} (table {rows})"
        return None

    return Obligation(oid, f"node->face aggregation, face sizes {tuple(sizes)}, nodes < {n_node}, leading dims {tuple(lead)}", setup, run, replay,
                      exact=False, functions=FUNCS,
                      bounds=f"face sizes {tuple(sizes)} in this order, node ids < {n_node} symbolic, data arbitrary (pairwise >= 0.25 apart), all ten reductions",
                      stubs=["the ten numpy reductions -> recorder H_k(operand row) (numpy's own reductions are trusted)",
                             "n_nodes_per_face supplied to the grid (its derivation is C02's subject)"],
                      tiers=tiers, max_paths=5000)


def make_edge(oid, n_edge, n_node, lead, tiers=("quick", "thorough")):
    rows = [[0, 1, 2, 3], [1, 4, 2, F]]
    lon, lat = C.default_lonlat(n_node)
    shape = tuple(lead) + (n_node,)
    nlead = int(np.prod(lead)) if lead else 1

    def setup(ctx):
        en = [[z3.Int(f"en_{e}_{k}") for k in range(2)] for e in range(n_edge)]
        for e in range(n_edge):
            ctx.solver.add(en[e][0] >= 0, en[e][0] < n_node, en[e][1] >= 0, en[e][1] < n_node, en[e][0] != en[e][1])
        ctx.eng.declare("en", en)
        vals = [z3.Real(f"v_{i}") for i in range(nlead * n_node)]
        for i in range(len(vals)):
            ctx.solver.add(vals[i] >= -5, vals[i] <= 5)
            for j in range(i + 1, len(vals)):
                ctx.solver.add(z3.Or(vals[i] - vals[j] >= sc.lift(0.25), vals[j] - vals[i] >= sc.lift(0.25)))
        ctx.eng.declare("vals", vals)
        agg = ctx.enum("agg", AGGS)
        return en, vals, agg

    def run(ctx, inp):
        en, vals, agg = inp
        w = world()
        ag = w.G["uxarray.core.aggregation"]
        log = []
        undo = _install(ag, log)
        try:
            extra = {"edge_node_connectivity": symxr.DataArray(C.sarr_int(en), dims=["n_edge", "two"])}
            g = C.clone_grid(symnp.array(rows), lon, lat, extra=extra)
            U = w.get("uxarray.core.dataarray", "UxDataArray")
            dims = [f"d{i}" for i in range(len(lead))] + ["n_node"]
            da = U(symnp.SArr.new([mk(v) for v in vals], shape, None, symnp.float64), dims=dims, uxgrid=g, name="t")
            name = agg.concrete()
            out = getattr(da, f"topological_{name}")(destination="edge")
        finally:
            undo()
        ov = out.values
        ctx.prove("result carries n_edge in place of n_node, same grid", sc.and_(tuple(out.dims) == tuple(dims[:-1]) + ("n_edge",), out.uxgrid is g,
                                                                                ov.shape_cap == tuple(lead) + (n_edge,)))
        fl = ov.flat_list()

        def sel(idx, i):
            t = vals[i * n_node + n_node - 1]
            for k in range(n_node - 2, -1, -1):
                t = z3.If(idx == k, vals[i * n_node + k], t)
            return t
        for i in range(nlead):
            ctx.prove(f"leading index {i}: result[e] = reduction over edge e's own two nodes",
                      z3.And(*[_r(fl[i * n_edge + e]) == _H(2)(sel(en[e][0], i), sel(en[e][1], i)) for e in range(n_edge)]))

    def replay(v):
        import uxarray as ux
        import xarray as xr
        en = np.array(v["en"], dtype=np.intp)
        g = C.real_grid(rows, lon, lat, extra={"edge_node_connectivity": xr.DataArray(en, dims=["n_edge", "two"])})
        data = np.array(v["vals"], dtype=float).reshape(shape)
        dims = [f"d{i}" for i in range(len(lead))] + ["n_node"]
        # the symbolic claim is about WHICH operand reaches WHICH numpy reduction; a concrete witness is searched over the model's float data and
        # the same data as bool / int8 (numpy's reductions promote: sum of two True is 2, int8 sums accumulate in the platform integer)
        variants = [("float64", data), ("bool", data > 0), ("int8", np.clip(np.round(data * 25), -127, 127).astype(np.int8))]
        for dname, dd in variants:
            for name in AGGS:
                d = dd > 0 if (name in ("all", "any") and dname == "float64") else dd
                out = getattr(ux.UxDataArray(d, dims=dims, uxgrid=g, name="t"), f"topological_{name}")(destination="edge")
                got = np.asarray(out.values)
                for e in range(n_edge):
                    exp = getattr(np, name)(d[..., en[e]], axis=-1)
                    if tuple(out.dims)[-1] != "n_edge" or not np.allclose(np.asarray(got[..., e], dtype=float), np.asarray(exp, dtype=float), rtol=1e-9, atol=1e-12):
                        return (f"topological_{name}(edge)[..., {e}] on {dname} data = {np.asarray(got[..., e]).tolist()} but numpy's {name} over the edge's nodes {en[e].tolist()} "
                                f"(values {np.asarray(d[..., en[e]]).tolist()}) is {np.asarray(exp).tolist()}")
        return None

    return Obligation(oid, f"node->edge aggregation, {n_edge} edges with symbolic end nodes, leading dims {tuple(lead)}", setup, run, replay,
                      exact=False, functions=FUNCS, bounds=f"{n_edge} edges over {n_node} nodes, every assignment of end nodes, all ten reductions",
                      stubs=["the ten numpy reductions -> recorder H_2"], tiers=tiers, max_paths=5000)


def make_errors(oid):
    rows = [[0, 1, 2, 3], [1, 4, 2, F]]
    lon, lat = C.default_lonlat(5)

    def setup(ctx):
        kind = ctx.enum("kind", ["n_face", "n_edge", "n_node"])
        dest = ctx.enum("dest", ["face", "edge", "node", "bogus", None])
        agg = ctx.enum("agg", AGGS)
        return kind, dest, agg

    def run(ctx, inp):
        kind, dest, agg = inp
        w = world()
        ag = w.G["uxarray.core.aggregation"]
        saved = ag["NUMPY_AGGREGATIONS"]
        ag["NUMPY_AGGREGATIONS"] = _recorders([])
        try:
            g = C.clone_grid(symnp.array(rows), lon, lat)
            k = kind.concrete()
            L = {"n_face": 2, "n_node": 5, "n_edge": 6}[k]
            U = w.get("uxarray.core.dataarray", "UxDataArray")
            da = U(symnp.array([float(i) for i in range(L)]), dims=[k], uxgrid=g, name="t")
            d = dest.concrete()
            raised = False
            try:
                getattr(da, f"topological_{agg.concrete()}")(destination=d)
            except Exception:       # noqa: BLE001
                raised = True
        finally:
            ag["NUMPY_AGGREGATIONS"] = saved
        supported = (k == "n_node" and d in ("face", "edge"))
        ctx.prove("unsupported source/destination combinations raise", raised == (not supported))

    def replay(v):
        import uxarray as ux
        g = C.real_grid(rows, lon, lat)
        k = ["n_face", "n_edge", "n_node"][v["kind"]]
        d = ["face", "edge", "node", "bogus", None][v["dest"]]
        L = {"n_face": 2, "n_node": 5, "n_edge": 6}[k]
        da = ux.UxDataArray(np.arange(L, dtype=float), dims=[k], uxgrid=g, name="t")
        try:
            getattr(da, f"topological_{AGGS[v['agg']]}")(destination=d)
            raised = False
        except Exception:       # noqa: BLE001
            raised = True
        supported = (k == "n_node" and d in ("face", "edge"))
        if raised != (not supported):
            return f"topological_{AGGS[v['agg']]} of {k}-centred data to destination {d!r}: raised={raised}"
        return None

    return Obligation(oid, "unsupported source/destination combinations raise instead of returning numbers", setup, run, replay, exact=True,
                      functions=FUNCS, bounds="3 source kinds x 5 destinations x 10 reductions", max_paths=5000)


def obligations(tier):
    obs = []
    layouts3 = list(itertools.product([3, 4, 5], repeat=3))
    for s in layouts3:
        quick = s in [(3, 3, 3), (4, 3, 3), (3, 4, 3), (3, 5, 3), (5, 3, 4), (4, 4, 5), (5, 5, 3), (3, 4, 5), (5, 4, 3), (4, 5, 3)]
        obs.append(make_face(f"C17.face.{''.join(map(str, s))}", s, 6, (), tiers=("quick", "thorough") if quick else ("thorough",)))
    obs += [
        make_face("C17.face.3535.2d", (3, 5, 3, 5), 7, (2,)),
        make_face("C17.face.4335.2d", (4, 3, 3, 5), 7, (2,)),
        make_face("C17.face.6336", (6, 3, 3, 6), 7, ()),
        make_face("C17.face.433.int", (4, 3, 3), 6, (), dtype="int"),
        make_face("C17.face.453.bool", (4, 5, 3), 6, (2,), dtype="bool"),
        make_face("C17.face.53435.3d", (5, 3, 4, 3, 5), 7, (2, 2), tiers=("thorough",)),
        make_edge("C17.edge.4e", 4, 5, ()),
        make_edge("C17.edge.3e.2d", 3, 5, (2,)),
        make_errors("C17.errors"),
    ]
    return [o for o in obs if tier in o.tiers]
