"""C08 Reading from a grid never changes what any grid reports  (DESIGN.md section 2, C08).

Histories are decided pairwise: for every ordered pair (op1, op2) of public read-only operations, op1 is applied to a
cloned Grid with *symbolic node coordinates* (optionally to ANOTHER grid of the same process), then op2 is observed and compared - by
the solver, for all coordinates - with op2 on a freshly built copy of the same source; the library's module-level
constants must equal their import-time snapshot afterwards.  Longer histories of conversions / tree requests / area
computations with symbolic arguments are decided in C15, C11 and C05/C06 (cache obligations) and referenced here.
Real code executed: every lazily computed Grid attribute reachable through the shim, compute_face_areas, to_xarray,
isel, get_dual-free subset, to_polycollection/to_geodataframe/to_linecollection (recording stubs), get_ball_tree/get_kd_tree (recorder)."""
import z3
import numpy as np
from symex import core as sc, symnp, symxr
from symex.core import mk
from symex.runner import Obligation, world
from . import common as C, stubs, c11
from .common import F

ROWS = [[0, 1, 2, 3], [1, 4, 2, F], [2, 4, 5, F]]
N_NODE = 6
ROWS_B = [[0, 1, 2, F], [0, 2, 3, 4]]
N_NODE_B = 5
AREA = z3.Function("A8", z3.IntSort(), z3.IntSort(), z3.IntSort(), z3.RealSort())
RULES = ["triangular", "gaussian"]


def _area_kernel(x, y, z, face_nodes, face_geometry, dim, quadrature_rule="triangular", order=4, coords_type="spherical"):
    n = face_nodes.shape_cap[0]
    r = RULES.index(quadrature_rule)
    ar = [mk(AREA(f, r, int(order))) for f in range(n)]
    for a in ar:
        sc.eng().solver.add(sc.z(a) >= 0)
    return symnp.SArr.new(ar, (n,), None, symnp.float64), symnp.SArr.new(list(ar), (n,), None, symnp.float64)


def _vals(x):
    """flatten an observation into (structure, list of scalar terms)"""
    if x is None:
        return ("none",), []
    if isinstance(x, symxr.DataArray):
        d = x.values
        return ("da", tuple(x.dims), d.shape_cap, d.dtype.kind, None if d.n is None else "varlen"), ([d.shape[0]] if d.n is not None else []) + d.raw().flat_list()
    if isinstance(x, symnp.SArr):
        return ("arr", x.shape_cap, x.dtype.kind), ([x.shape[0]] if x.n is not None else []) + x.raw().flat_list()
    if isinstance(x, symxr.Dataset):
        st, vs = [], []
        for k in sorted(x._vars):
            s, v = _vals(x[k])
            st.append((k, s))
            vs += v
        return ("ds", tuple(st)), vs
    if isinstance(x, (tuple, list)):
        st, vs = [], []
        for e in x:
            s, v = _vals(e)
            st.append(s)
            vs += v
        return ("seq", tuple(st)), vs
    if isinstance(x, stubs.Tag):
        return ("tag", x.kind, getattr(x, "engine", None)), _tagvals(x)
    if isinstance(x, (int, float, str, bool)):
        return ("scalar", x if not isinstance(x, float) else None), ([x] if isinstance(x, float) else [])
    if isinstance(x, sc.Sym):
        return ("sym",), [x]
    if isinstance(x, c11.SKTree):
        return ("sktree", x.coords.shape_cap, x.metric), x.coords.flat_list()
    return ("obj", type(x).__name__), []


def _tagvals(t):
    out = []
    for k in ("shells", "lines", "array"):
        v = getattr(t, k, None)
        if isinstance(v, symnp.SArr):
            out += v.raw().flat_list()
        elif isinstance(v, list):
            for e in v:
                out += symnp.asarray(e).flat_list()
    if hasattr(t, "columns"):
        for k in sorted(t.columns):
            v = t.columns[k]
            if isinstance(v, symnp.SArr):
                out += v.raw().flat_list()
            elif isinstance(v, stubs.GeomArray) and isinstance(v.payload, symnp.SArr):
                out += v.payload.raw().flat_list()
    return out


OPS = {
    "node_xyz": lambda g: (g.node_x, g.node_y, g.node_z),
    "face_lonlat": lambda g: (g.face_lon, g.face_lat),
    "face_xyz": lambda g: (g.face_x, g.face_y, g.face_z),
    "edge_lonlat": lambda g: (g.edge_lon, g.edge_lat),
    "edge_xyz": lambda g: (g.edge_x, g.edge_y, g.edge_z),
    "edge_node_connectivity": lambda g: (g.edge_node_connectivity, g.n_edge),
    "face_edge_connectivity": lambda g: g.face_edge_connectivity,
    "edge_face_connectivity": lambda g: g.edge_face_connectivity,
    "node_face_connectivity": lambda g: g.node_face_connectivity,
    "face_face_connectivity": lambda g: g.face_face_connectivity,
    "n_nodes_per_face": lambda g: g.n_nodes_per_face,
    "hole_edge_indices": lambda g: g.hole_edge_indices,
    "face_areas": lambda g: g.face_areas,
    "compute_face_areas_g8": lambda g: g.compute_face_areas("gaussian", 8),
    "total_area_t1": lambda g: g.calculate_total_face_area("triangular", 1),
    "edge_node_distances": lambda g: g.edge_node_distances,
    "edge_face_distances": lambda g: g.edge_face_distances,
    "to_xarray_ugrid": lambda g: g.to_xarray("ugrid"),
    "isel_face": lambda g: g.isel(n_face=[1])._ds,
    "isel_node": lambda g: g.isel(n_node=[0])._ds,
    "antimeridian_face_indices": lambda g: g.antimeridian_face_indices,
    "to_polycollection": lambda g: g.to_polycollection(),
    "to_geodataframe": lambda g: g.to_geodataframe(),
    "to_linecollection": lambda g: g.to_linecollection(),
    "to_polycollection_P2": lambda g: g.to_polycollection(projection=_P2()),
    "to_geodataframe_P2": lambda g: g.to_geodataframe(projection=_P2(), periodic_elements="ignore"),
    "ball_tree_faces": lambda g: g.get_ball_tree("face centers")._current_tree(),
    "kd_tree_nodes": lambda g: g.get_kd_tree("nodes")._current_tree(),
    "node_lonlat": lambda g: (g.node_lon, g.node_lat),
    "face_node_connectivity": lambda g: g.face_node_connectivity,
    # NB: Grid.dims / sizes / coordinates / connectivity enumerate what is materialised so far (they grow with lazy derivation,
    # exactly like the exported dataset, which the property allows); only the history-independent part is observed here
    "sizes": lambda g: (g.n_node, g.n_face, g.n_max_face_nodes),
}
def _P2():
    return stubs.Projection("P2", 90.0)


OBSERVE = [k for k in OPS]
FUNCS = ["Grid.<every lazily derived attribute>", "Grid.compute_face_areas", "Grid.calculate_total_face_area", "Grid.to_xarray", "Grid.isel", "slice._slice_face_indices",
         "slice._slice_node_indices", "Grid.to_polycollection", "Grid.to_geodataframe", "Grid.to_linecollection", "Grid.get_ball_tree", "Grid.get_kd_tree",
         "connectivity._populate_*", "coordinates._populate_*", "neighbors._populate_edge_*_distances", "_ugrid._encode_ugrid"]


def make(oid, op1, cross, tiers=("quick", "thorough")):
    def setup(ctx):
        ctx.const("op1", op1); ctx.const("cross_grid", cross)
        lon = [z3.Real(f"lon_{i}") for i in range(N_NODE)]
        lat = [z3.Real(f"lat_{i}") for i in range(N_NODE)]
        BASE = [(0, 0), (10, 0), (10, 10), (0, 10), (20, 5), (15, 15)]            # a sane planar layout, each node free in a 4x4 degree box
        for i, (bx, by) in enumerate(BASE):
            ctx.solver.add(lon[i] >= bx - 2, lon[i] <= bx + 2, lat[i] >= by - 2, lat[i] <= by + 2)
        ctx.eng.declare("lon", lon); ctx.eng.declare("lat", lat)
        op2 = ctx.enum("op2", OBSERVE)
        return lon, lat, op2

    def build(lon, lat):
        return C.clone_grid(symnp.array(ROWS), lon, lat)

    def run(ctx, inp):
        lon, lat, op2 = inp
        w = world()
        undo1 = stubs.install(w)
        undo2 = c11._install(w)
        gg = w.G["uxarray.grid.grid"]
        saved = gg["get_all_face_area_from_coords"]
        gg["get_all_face_area_from_coords"] = _area_kernel
        sc.NL_UF[0] = True
        symnp.SQRT_MODE[0] = "uf"
        try:
            name2 = op2.concrete()
            g = build(lon, lat)
            if cross:
                other = C.clone_grid(symnp.array(ROWS_B), *C.default_lonlat(N_NODE_B))
                OPS[op1](other)
            else:
                OPS[op1](g)
            try:
                got = OPS[name2](g)
            except (sc.Unsupported, sc.Inconclusive, sc.PathBudget):
                raise
            except Exception as ex:      # the library's own exception: does the same read succeed on a fresh grid?
                w.restore_constants()
                try:
                    OPS[name2](build(lon, lat))
                    fresh_ok = True
                except (sc.Unsupported, sc.Inconclusive, sc.PathBudget):
                    raise
                except Exception:
                    fresh_ok = False
                ctx.prove(f"{name2} after {op1}{' on another grid' if cross else ''}: works whenever it works on a fresh grid", not fresh_ok,
                          note=f"raised {type(ex).__name__}: {str(ex)[:120]}")
                return
            changed = w.module_constants_changed()
            ctx.prove("no call alters the library's module-level constants", not changed, note=str(changed))
            w.restore_constants()
            fresh = OPS[name2](build(lon, lat))
            s1, v1 = _vals(got)
            s2, v2 = _vals(fresh)
            if name2 == "to_xarray_ugrid" or name2.startswith("isel"):
                ok, extra = _export_compare(got, fresh, g if name2 == "to_xarray_ugrid" else None)
                ctx.prove(f"{name2}: every variable of a fresh grid's result is present with the same value; extra variables are derived ones holding the grid's own value", ok,
                          note=extra)
            else:
                ctx.prove(f"{name2} after {op1}{' on another grid' if cross else ''}: same structure as on a fresh grid", s1 == s2, note=f"{s1} vs {s2}")
                if s1 == s2 and v1:
                    ctx.prove(f"{name2} after {op1}{' on another grid' if cross else ''}: same values as on a fresh grid, for all node coordinates",
                              z3.And(*[_eq(a, b) for a, b in zip(v1, v2)]))
        finally:
            symnp.SQRT_MODE[0] = "witness"
            gg["get_all_face_area_from_coords"] = saved
            undo2()
            undo1()

    def _eq(a, b):
        if isinstance(a, (bool, sc.SymBool)) or isinstance(b, (bool, sc.SymBool)):
            return sc.z(a) == sc.z(b)
        za, zb = sc.z(a), sc.z(b)
        if z3.is_int(za) != z3.is_int(zb):
            za = z3.ToReal(za) if z3.is_int(za) else za
            zb = z3.ToReal(zb) if z3.is_int(zb) else zb
        return za == zb

    def _export_compare(got, fresh, g):
        cl = []
        for k in fresh._vars:
            if k not in got._vars:
                return False, f"variable {k} missing"
            s1, v1 = _vals(got[k])
            s2, v2 = _vals(fresh[k])
            if s1 != s2:
                return False, f"variable {k}: {s1} vs {s2}"
            cl += [_eq(a, b) for a, b in zip(v1, v2)]
            a1 = {kk: vv for kk, vv in got[k].attrs.items() if not isinstance(vv, symnp.SArr)}
            a2 = {kk: vv for kk, vv in fresh[k].attrs.items() if not isinstance(vv, symnp.SArr)}
            if k == "grid_topology":
                # the topology may additionally name derived variables / dimensions that the export contains
                for kk, vv in a2.items():
                    if a1.get(kk) != vv:
                        return False, f"grid_topology attribute {kk}: {a1.get(kk)} vs {vv}"
                for kk, vv in a1.items():
                    if kk not in a2 and not all(n in got._vars or n in got.sizes for n in str(vv).split()):
                        return False, f"grid_topology names {vv!r} under {kk!r}, which the export does not contain"
            elif a1 != a2:
                return False, f"attributes of {k}: {a1} vs {a2}"
        for k in got._vars:
            if k not in fresh._vars and g is not None and k != "grid_topology":
                if not hasattr(g, k):
                    return False, f"unexpected extra variable {k}"
                s1, v1 = _vals(got[k])
                s2, v2 = _vals(getattr(g, k))
                if s1 != s2:
                    return False, f"extra variable {k}: {s1} vs {s2}"
                cl += [_eq(a, b) for a, b in zip(v1, v2)]
        return (z3.And(*cl) if cl else True), ""

    def replay(v):
        """the model's node positions first; a history fault flagged symbolically needs a concrete witness, which may exist only where faces lie across the
        antimeridian of a re-centred projection: the same positions rotated in longitude by multiples of 45 degrees are tried as well"""
        lon0, lat0 = [float(x) for x in v["lon"]], [float(x) for x in v["lat"]]
        for sh in (0, 90, 180, 270, 45, 135, 225, 315):
            r = _replay_one(v, [((x + sh + 180.0) % 360.0) - 180.0 for x in lon0], lat0)
            if r:
                return r + (f" [node longitudes rotated by {sh} deg]" if sh else "")
        return None

    def _replay_one(v, lon, lat):
        import uxarray as ux
        name2 = OBSERVE[v["op2"]]
        g = C.real_grid(ROWS, lon, lat)
        import copy
        import uxarray.conventions.ugrid as U
        import uxarray.conventions.descriptors as D
        snap = {m.__name__ + "." + k: copy.deepcopy(val) for m in (U, D) for k, val in vars(m).items() if k.isupper() and isinstance(val, (dict, list))}
        ROPS = dict(OPS)
        ROPS["ball_tree_faces"] = lambda gr: np.asarray(gr.get_ball_tree("face centers")._current_tree().data)
        ROPS["kd_tree_nodes"] = lambda gr: np.asarray(gr.get_kd_tree("nodes")._current_tree().data)
        ROPS["to_polycollection"] = lambda gr: [np.asarray(p.vertices) for p in gr.to_polycollection().get_paths()]
        ROPS["to_linecollection"] = lambda gr: [np.asarray(s) for s in gr.to_linecollection().get_segments()]
        ROPS["to_geodataframe"] = lambda gr: len(gr.to_geodataframe())
        import cartopy.crs as rccrs
        ROPS["to_polycollection_P2"] = lambda gr: [np.asarray(p.vertices) for p in gr.to_polycollection(projection=rccrs.Robinson(central_longitude=90)).get_paths()]
        ROPS["to_geodataframe_P2"] = lambda gr: len(gr.to_geodataframe(projection=rccrs.Robinson(central_longitude=90), periodic_elements="ignore"))
        try:
            if cross:
                ROPS[op1](C.real_grid(ROWS_B, *C.default_lonlat(N_NODE_B)))
            else:
                ROPS[op1](g)
        except Exception as ex:      # noqa: BLE001
            return f"{op1} raised {ex!r}"
        for k, val in snap.items():
            m, name = k.rsplit(".", 1)
            cur = getattr(U if m.endswith("ugrid") else D, name)
            if repr(cur) != repr(val):
                return f"module-level constant {k} changed by {op1}: {val} -> {cur}"

        def norm(x):
            import xarray as xr
            if isinstance(x, xr.Dataset):
                return {k: norm(x[k]) for k in x.variables}
            if isinstance(x, xr.DataArray):
                return (tuple(x.dims), np.asarray(x.values).tolist())
            if isinstance(x, np.ndarray):
                return x.tolist()
            if isinstance(x, (tuple, list)):
                return [norm(e) for e in x]
            return x

        def close(a, b):
            if isinstance(a, dict):
                return all(k in a and close(a[k], b[k]) for k in b)            # result may contain extra derived variables
            if isinstance(a, (list, tuple)):
                return isinstance(b, (list, tuple)) and len(a) == len(b) and all(close(x, y) for x, y in zip(a, b))
            if isinstance(a, float) or isinstance(b, float):
                return (a != a and b != b) or abs(a - b) <= 1e-9 * max(1.0, abs(b))
            return a == b
        try:
            got = norm(ROPS[name2](g))
        except Exception as ex:      # noqa: BLE001
            got = ("raised", type(ex).__name__)
        try:
            fresh = norm(ROPS[name2](C.real_grid(ROWS, lon, lat)))
        except Exception as ex:      # noqa: BLE001
            fresh = ("raised", type(ex).__name__)
        if not close(got, fresh):
            return f"{name2} after {op1}{' on another grid' if cross else ''} = {str(got)[:300]}, a fresh grid gives {str(fresh)[:300]}"
        return None

    return Obligation(oid, f"after {op1}{' on another grid' if cross else ''}, every observation equals the fresh grid's", setup, run, replay, exact=False, functions=FUNCS,
                      bounds=f"history: {op1} then any one of {len(OBSERVE)} observations; 3 faces (4+3+3 corners) over 6 nodes with symbolic coordinates",
                      stubs=stubs_list(), max_paths=2000, timeout_s=1500, tiers=tiers)


def stubs_list():
    return ["plotting libraries: recording stubs (props/stubs.py)", "sklearn trees: recorder", "area kernel: uninterpreted A(face, rule, order)",
            "sin/cos/arcsin/arctan2/sqrt and products of two non-constant reals uninterpreted (values compared as terms by the solver)"]


def obligations(tier):
    quick_ops = ["edge_node_connectivity", "face_edge_connectivity", "edge_face_connectivity", "face_lonlat", "edge_xyz", "face_areas", "compute_face_areas_g8",
                 "to_xarray_ugrid", "isel_face", "isel_node", "to_polycollection", "to_geodataframe", "to_linecollection", "to_polycollection_P2", "to_geodataframe_P2", "ball_tree_faces", "kd_tree_nodes",
                 "edge_face_distances", "node_face_connectivity", "face_face_connectivity", "total_area_t1", "hole_edge_indices"]
    obs = [make(f"C08.after.{op}", op, False) for op in quick_ops]
    obs += [make(f"C08.cross.{op}", op, True) for op in ("edge_node_connectivity", "to_xarray_ugrid", "face_areas", "to_polycollection", "isel_face", "ball_tree_faces")]
    rest = [op for op in OPS if op not in quick_ops]
    obs += [make(f"C08.after.{op}", op, False, tiers=("thorough",)) for op in rest]
    obs += [make(f"C08.cross.{op}", op, True, tiers=("thorough",)) for op in OPS if op not in ("edge_node_connectivity", "to_xarray_ugrid", "face_areas", "to_polycollection", "isel_face", "ball_tree_faces")]
    return [o for o in obs if tier in o.tiers]
