"""C15 Exported polygons and lines correspond one-to-one with faces  (DESIGN.md section 2, C15).

Real code executed: geometry._pad_closed_face_nodes, _build_polygon_shells, _build_antimeridian_face_indices,
_grid_to_matplotlib_polycollection, _grid_to_polygon_geodataframe, _build_geodataframe_with(out)_antimeridian,
_build_corrected_shapely_polygons, _get_polygons, _grid_to_matplotlib_linecollection, Grid.to_polycollection /
to_geodataframe / to_linecollection (cache logic), Grid.antimeridian_face_indices, UxDataArray.to_polycollection /
to_geodataframe - over recording stubs for matplotlib / shapely / (geo|spatial)pandas / antimeridian / cartopy (props/stubs.py).
Node longitudes are symbolic, so 'which faces cross the antimeridian' is a solver variable; conversion arguments and
call histories are symbolic enums."""
import z3
import numpy as np
from symex import core as sc, symnp, symxr
from symex.core import mk
from symex.runner import Obligation, world
from . import common as C, stubs
from .common import F

ROWS = [[0, 1, 2, 3], [1, 4, 5, 2], [6, 0, 3, F], [2, 5, 7, F]]       # 4 faces (2 quads, 2 triangles) over 8 nodes
N_NODE, N_FACE, N_MAX = 8, 4, 4
LAT = [10.0, 10.0, 20.0, 20.0, 10.0, 20.0, 15.0, 30.0]
LON_FIXED = [160.0, 170.0, 170.0, 160.0, -170.0, -170.0, 150.0, -160.0]     # faces 1 and 3 cross the antimeridian
PE = ["exclude", "ignore", "split"]
FUNCS = ["geometry._pad_closed_face_nodes", "geometry._build_polygon_shells", "geometry._build_antimeridian_face_indices",
         "geometry._grid_to_matplotlib_polycollection", "geometry._grid_to_polygon_geodataframe", "geometry._build_geodataframe_without_antimeridian",
         "geometry._build_geodataframe_with_antimeridian", "geometry._build_corrected_shapely_polygons", "geometry._build_corrected_polygon_shells",
         "geometry._get_polygons", "geometry._grid_to_matplotlib_linecollection", "geometry._correct_central_longitude",
         "Grid.to_polycollection", "Grid.to_geodataframe", "Grid.to_linecollection", "Grid.antimeridian_face_indices",
         "UxDataArray.to_polycollection", "UxDataArray.to_geodataframe"]
STUBS = ["matplotlib PolyCollection/LineCollection, shapely Polygon/polygons, spatialpandas/geopandas GeoDataFrame, PolygonArray, antimeridian.fix_polygon, cartopy projections: recording stubs (pure constructors, uninterpreted transform_points)"]


def _fp(x):
    """cheap structural fingerprint of a (possibly symbolic) scalar: z3 terms are hash-consed, equal terms share an id"""
    if isinstance(x, sc.Sym):
        return ("t", x.e.get_id())
    return x


def _zr(v):
    v = sc.z(v)
    return z3.ToReal(v) if z3.is_int(v) else v


def _sym_lon(ctx):
    lon = [z3.Real(f"lon_{i}") for i in range(N_NODE)]
    for v in lon:
        ctx.solver.add(v >= -180, v <= 180)
    # margin from the decision boundary |dlon| = 180 (float32 shells on the real side)
    for i in range(N_NODE):
        for j in range(i + 1, N_NODE):
            d = lon[i] - lon[j]
            ctx.solver.add(z3.Or(z3.And(d <= sc.lift(179.5), d >= sc.lift(-179.5)), d >= sc.lift(180.5), d <= sc.lift(-180.5)))
    ctx.eng.declare("lon", lon)
    return lon


def _corner(f, j):
    c = C.face_corners(ROWS[f])
    return c[j] if j < len(c) else c[0]


def _am(lon, f):
    """face f has an edge (consecutive shell vertices incl. the closing one) spanning >= 180 degrees of longitude"""
    cs = [_corner(f, j) for j in range(N_MAX + 1)]
    return z3.Or(*[z3.Or(lon[cs[j]] - lon[cs[j + 1]] >= 180, lon[cs[j + 1]] - lon[cs[j]] >= 180) for j in range(N_MAX)])


def _grid(lon, spec="UGRID"):
    return C.clone_grid(symnp.array(ROWS), lon, LAT)


def _with_stubs(fn):
    def wrapped(ctx, inp):
        undo = stubs.install(world())
        try:
            return fn(ctx, inp)
        finally:
            undo()
    return wrapped


def _real_am(lon):
    out = []
    for f in range(N_FACE):
        cs = [_corner(f, j) for j in range(N_MAX + 1)]
        if any(abs(np.float32(lon[cs[j]]) - np.float32(lon[cs[j + 1]])) >= 180 for j in range(N_MAX)):
            out.append(f)
    return out


def _real_shell(lon, f):
    return np.array([[lon[_corner(f, j)], LAT[_corner(f, j)]] for j in range(N_MAX + 1)], dtype=np.float32)


# ------------------------------------------------------------------ single conversion, symbolic longitudes
def make_poly(oid, pe, with_data):
    def setup(ctx):
        ctx.const("pe", pe)
        lon = _sym_lon(ctx)
        data = [z3.Real(f"d_{f}") for f in range(N_FACE)]
        ctx.eng.declare("data", data)
        return lon, data

    @_with_stubs
    def run(ctx, inp):
        lon, data = inp
        g = _grid(lon)
        if with_data:
            U = world().get("uxarray.core.dataarray", "UxDataArray")
            da = U(C.sarr_1d(data, symnp.float64), dims=["n_face"], uxgrid=g, name="v")
            pc, c2o = da.to_polycollection(periodic_elements=pe, return_indices=True)
        else:
            pc, c2o = g.to_polycollection(periodic_elements=pe, return_indices=True)
        am = [_am(lon, f) for f in range(N_FACE)]
        ami = g.antimeridian_face_indices
        amr = ami.raw()
        ctx.prove("antimeridian_face_indices = exactly the faces with an edge spanning >= 180 degrees, ascending",
                  z3.And(*[am[f] == z3.Or(*[z3.And(k < sc.z(ami.shape[0]), sc.z(amr[k]) == f) for k in range(amr.shape_cap[0])]) for f in range(N_FACE)],
                         *[z3.Implies(k + 1 < sc.z(ami.shape[0]), sc.z(amr[k]) < sc.z(amr[k + 1])) for k in range(amr.shape_cap[0] - 1)]))
        shells = pc.shells
        if pe == "exclude":
            sr = shells.raw()
            K = z3.Sum([z3.If(am[f], 0, 1) for f in range(N_FACE)])
            c2 = symnp.asarray(c2o)
            cr = c2.raw()
            cl = [sc.z(shells.shape[0]) == K, sc.z(c2.shape[0]) == K]
            for f in range(N_FACE):
                rank = z3.Sum([z3.If(am[h], 0, 1) for h in range(f)]) if f else z3.IntVal(0)
                for k in range(sr.shape_cap[0]):
                    hit = z3.And(z3.Not(am[f]), rank == k)
                    same = z3.And(sc.z(cr[k]) == f, *[z3.And(_zr(sr[k, j, 0]) == lon[_corner(f, j)], _zr(sr[k, j, 1]) == sc.lift(LAT[_corner(f, j)])) for j in range(N_MAX + 1)])
                    cl.append(z3.Implies(hit, same))
                    if with_data:
                        cl.append(z3.Implies(hit, z3.And(sc.z(pc.array.shape[0]) == K, _zr(pc.array.raw()[k]) == data[f])))
            ctx.prove("'exclude': polygon k is the k-th non-crossing face's corners in order (first corner repeated to the fixed width), corrected_to_original_faces[k] names it"
                      + (", data value k is that face's value" if with_data else ""), z3.And(*cl))
        else:
            n = shells.shape_cap[0] if isinstance(shells, symnp.SArr) else len(shells)
            cl = [z3.BoolVal(n == N_FACE)]
            if n == N_FACE:
                for f in range(N_FACE):
                    sh = shells[f]
                    for j in range(N_MAX + 1):
                        cl.append(z3.And(_zr(sh[j, 0]) == lon[_corner(f, j)], _zr(sh[j, 1]) == sc.lift(LAT[_corner(f, j)])))
                    if with_data:
                        cl.append(_zr(pc.array[f]) == data[f] if pe == "ignore" else _zr(pc.array.raw()[f]) == data[f])
                if pe == "split":
                    cl.append(z3.BoolVal([int(x) for x in c2o] == list(range(N_FACE))))
            ctx.prove(f"'{pe}': one polygon per face in face order with the face's corners in order" + (", data aligned" if with_data else ""), z3.And(*cl))
        ctx.reachable("some face crosses the antimeridian", z3.Or(*am))
        ctx.reachable("no face crosses", z3.Not(z3.Or(*am)))

    def replay(v):
        import uxarray as ux
        lon = [float(x) for x in v["lon"]]
        g = C.real_grid(ROWS, lon, LAT)
        am = _real_am(lon)
        got_am = [int(x) for x in np.atleast_1d(g.antimeridian_face_indices)]
        if got_am != am:
            return f"antimeridian_face_indices={got_am}, faces with an edge spanning >=180 deg are {am} (lon {lon})"
        data = np.array(v["data"], dtype=float)
        if with_data:
            pc, c2o = ux.UxDataArray(data, dims=["n_face"], uxgrid=g, name="v").to_polycollection(periodic_elements=pe, return_indices=True)
        else:
            pc, c2o = g.to_polycollection(periodic_elements=pe, return_indices=True)
        verts = [np.asarray(p.vertices) for p in pc.get_paths()]
        keep = [f for f in range(N_FACE) if f not in am] if pe == "exclude" else (list(range(N_FACE)) if pe == "ignore" else None)
        if keep is None:
            return None          # 'split' geometry is shapely/antimeridian territory (outside); its bookkeeping is covered symbolically
        if len(verts) != len(keep):
            return f"'{pe}': {len(verts)} polygons for {len(keep)} expected faces (crossing faces {am})"
        for k, f in enumerate(keep):
            sh = _real_shell(lon, f)
            if not np.allclose(verts[k][: N_MAX + 1], sh, atol=1e-3):
                return f"'{pe}': polygon {k} has vertices {verts[k].tolist()}, face {f} has corners {sh.tolist()}"
            if pe == "exclude" and int(c2o[k]) != f:
                return f"corrected_to_original_faces[{k}]={int(c2o[k])}, polygon {k} is face {f}"
            if with_data and abs(float(pc.get_array()[k]) - data[f]) > 1e-12:
                return f"'{pe}': data value {k} is {float(pc.get_array()[k])}, the polygon is face {f} whose value is {data[f]}"
        return None

    return Obligation(oid, f"to_polycollection('{pe}'){' with face data' if with_data else ''}: polygons <-> faces, symbolic longitudes", setup, run, replay,
                      exact=False, functions=FUNCS, bounds="4 faces (2 quads, 2 triangles) over 8 nodes, all node longitudes symbolic (0.5 deg margin from |dlon|=180)",
                      stubs=STUBS, max_paths=3000)


def _perturbed_lon(ctx):
    lon = [z3.Real(f"lon_{i}") for i in range(N_NODE)]
    for v, b in zip(lon, LON_FIXED):
        ctx.solver.add(v >= b - 2, v <= b + 2)
    ctx.eng.declare("lon", lon)
    return lon


def make_gdf(oid, pe, engine, with_data):
    def setup(ctx):
        ctx.const("pe", pe); ctx.const("engine", engine)
        lon = _sym_lon(ctx) if pe != "split" else _perturbed_lon(ctx)
        data = [z3.Real(f"d_{f}") for f in range(N_FACE)]
        ctx.eng.declare("data", data)
        return lon, data

    @_with_stubs
    def run(ctx, inp):
        lon, data = inp
        g = _grid(lon)
        if with_data:
            U = world().get("uxarray.core.dataarray", "UxDataArray")
            gdf = U(C.sarr_1d(data, symnp.float64), dims=["n_face"], uxgrid=g, name="v").to_geodataframe(periodic_elements=pe, engine=engine)
        else:
            gdf = g.to_geodataframe(periodic_elements=pe, engine=engine)
        am = [_am(lon, f) for f in range(N_FACE)]
        geom = gdf["geometry"]
        ctx.prove("engine honoured", gdf.engine == engine)
        payload = geom.payload if hasattr(geom, "payload") else geom
        if pe == "split":
            polys = payload
            cl = [z3.BoolVal(len(polys) == N_FACE)]
            for f in range(min(N_FACE, len(polys))):
                P = polys[f]
                cl.append(z3.BoolVal(P.fixed) == am[f])
                sh = P.shell
                cl.append(z3.And(*[z3.And(_zr(sh[j, 0]) == lon[_corner(f, j)], _zr(sh[j, 1]) == sc.lift(LAT[_corner(f, j)])) for j in range(N_MAX + 1)]))
                if with_data:
                    cl.append(_zr(gdf["v"][f]) == data[f])
            ctx.prove("'split': row f is face f's polygon, passed through antimeridian.fix_polygon exactly when the face crosses" + (", data aligned" if with_data else ""), z3.And(*cl))
        else:
            shells = payload if isinstance(payload, symnp.SArr) else (None if isinstance(payload, list) else symnp.asarray(payload))
            if isinstance(payload, list):
                shells = None
            if pe == "ignore":
                src = shells if shells is not None else None
                cl = []
                if src is None:
                    polys = payload
                    cl.append(z3.BoolVal(len(polys) == N_FACE))
                    for f in range(min(N_FACE, len(polys))):
                        sh = polys[f].shell
                        cl.append(z3.And(*[z3.And(_zr(sh[j, 0]) == lon[_corner(f, j)], _zr(sh[j, 1]) == sc.lift(LAT[_corner(f, j)])) for j in range(N_MAX + 1)]))
                else:
                    cl.append(z3.BoolVal(src.shape_cap[0] == N_FACE and src.n is None))
                    for f in range(N_FACE):
                        cl.append(z3.And(*[z3.And(_zr(src[f, j, 0]) == lon[_corner(f, j)], _zr(src[f, j, 1]) == sc.lift(LAT[_corner(f, j)])) for j in range(N_MAX + 1)]))
                if with_data:
                    cl += [_zr(gdf["v"][f]) == data[f] for f in range(N_FACE)]
                ctx.prove("'ignore': one row per face in order" + (", data aligned" if with_data else ""), z3.And(*cl))
            else:
                K = z3.Sum([z3.If(am[f], 0, 1) for f in range(N_FACE)])
                cl = []
                if shells is None:
                    polys = payload            # geopandas engine: list of polygons of the kept shells (length forked)
                    cl.append(K == len(polys))
                    for f in range(N_FACE):
                        rank = z3.Sum([z3.If(am[h], 0, 1) for h in range(f)]) if f else z3.IntVal(0)
                        for k in range(len(polys)):
                            sh = polys[k].shell
                            cl.append(z3.Implies(z3.And(z3.Not(am[f]), rank == k),
                                                 z3.And(*[z3.And(_zr(sh[j, 0]) == lon[_corner(f, j)], _zr(sh[j, 1]) == sc.lift(LAT[_corner(f, j)])) for j in range(N_MAX + 1)])))
                            if with_data:
                                cl.append(z3.Implies(z3.And(z3.Not(am[f]), rank == k), _zr(gdf["v"].raw()[k]) == data[f]))
                else:
                    sr = shells.raw()
                    cl.append(sc.z(shells.shape[0]) == K)
                    for f in range(N_FACE):
                        rank = z3.Sum([z3.If(am[h], 0, 1) for h in range(f)]) if f else z3.IntVal(0)
                        for k in range(sr.shape_cap[0]):
                            hit = z3.And(z3.Not(am[f]), rank == k)
                            cl.append(z3.Implies(hit, z3.And(*[z3.And(_zr(sr[k, j, 0]) == lon[_corner(f, j)], _zr(sr[k, j, 1]) == sc.lift(LAT[_corner(f, j)])) for j in range(N_MAX + 1)])))
                            if with_data:
                                cl.append(z3.Implies(hit, z3.And(sc.z(gdf["v"].shape[0]) == K, _zr(gdf["v"].raw()[k]) == data[f])))
                ctx.prove("'exclude': row k is the k-th non-crossing face" + (", data value k is that face's value" if with_data else ""), z3.And(*cl))
        ctx.reachable("some face crosses the antimeridian", z3.Or(*am))

    def replay(v):
        import uxarray as ux
        lon = [float(x) for x in v["lon"]]
        g = C.real_grid(ROWS, lon, LAT)
        am = _real_am(lon)
        data = np.array(v["data"], dtype=float)
        if with_data:
            gdf = ux.UxDataArray(data, dims=["n_face"], uxgrid=g, name="v").to_geodataframe(periodic_elements=pe, engine=engine)
        else:
            gdf = g.to_geodataframe(periodic_elements=pe, engine=engine)
        if pe == "split" and len(gdf) == N_FACE:
            # each row must be its own face's geometry: compare latitude ranges (cutting along the antimeridian keeps them)
            for f in range(N_FACE):
                geom = gdf["geometry"].iloc[f] if engine == "geopandas" else gdf["geometry"].values[f].to_shapely()
                lo, hi = geom.bounds[1], geom.bounds[3]
                c = C.face_corners(ROWS[f])
                elo, ehi = min(LAT[i] for i in c), max(LAT[i] for i in c)
                if abs(lo - elo) > 0.5 or abs(hi - ehi) > 0.5:
                    return f"'split'/{engine}: row {f} spans latitudes [{lo:.2f},{hi:.2f}] but face {f} spans [{elo},{ehi}] (crossing faces {am})"
        keep = [f for f in range(N_FACE) if f not in am] if pe == "exclude" else list(range(N_FACE))
        if len(gdf) != len(keep):
            return f"'{pe}'/{engine}: {len(gdf)} rows for {len(keep)} expected faces (crossing faces {am}, lon {lon})"
        if with_data:
            got = np.asarray(gdf["v"], dtype=float)
            if not np.allclose(got, data[keep]):
                return f"'{pe}'/{engine}: data column {got.tolist()}, faces kept {keep} have values {data[keep].tolist()}"
        if engine == "geopandas" and pe != "split":
            for k, f in enumerate(keep):
                xy = np.asarray(gdf["geometry"].iloc[k].exterior.coords)[: N_MAX + 1]
                if not np.allclose(xy, _real_shell(lon, f), atol=1e-3):
                    return f"'{pe}'/{engine}: row {k} has vertices {xy.tolist()}, face {f} has {_real_shell(lon, f).tolist()}"
        return None

    return Obligation(oid, f"to_geodataframe('{pe}', engine={engine}){' with face data' if with_data else ''}: rows <-> faces, symbolic longitudes", setup, run, replay,
                      exact=False, functions=FUNCS, bounds="4 faces over 8 nodes, all node longitudes symbolic", stubs=STUBS, max_paths=3000)


def make_gdf_proj(oid, pe, engine, proj, project):
    """UxDataArray.to_geodataframe with a projection: which faces survive and which data value sits in which row (the row <-> face relation is read
    off the data column: the values are distinct unknowns).  proj 'P1': central longitude 0, 'P2': central longitude 90 (the antimeridian moves)."""
    central = 0.0 if proj == "P1" else 90.0

    def setup(ctx):
        ctx.const("pe", pe); ctx.const("engine", engine); ctx.const("proj", proj); ctx.const("project", project)
        lon = _sym_lon(ctx) if pe != "split" else _perturbed_lon(ctx)
        data = [z3.Real(f"d_{f}") for f in range(N_FACE)]
        for i in range(N_FACE):
            for j in range(i):
                ctx.solver.add(data[i] != data[j])
        ctx.eng.declare("data", data)
        return lon, data

    @_with_stubs
    def run(ctx, inp):
        lon, data = inp
        g = _grid(lon)
        P = stubs.Projection(proj, central)
        U = world().get("uxarray.core.dataarray", "UxDataArray")
        gdf = U(C.sarr_1d(data, symnp.float64), dims=["n_face"], uxgrid=g, name="v").to_geodataframe(periodic_elements=pe, engine=engine, projection=P, project=project)
        # longitudes relative to the projection's central meridian: the library's own PlateCarree(central) transform (uninterpreted)
        if central != 0.0:
            fx = z3.Function("proj_x", z3.IntSort(), z3.RealSort(), z3.RealSort(), z3.RealSort(), z3.RealSort())
            xs = [fx(3, sc.lift(central), lon[i], sc.lift(float(LAT[i]))) for i in range(len(lon))]
        else:
            xs = list(lon)
        am = [_am(xs, f) for f in range(N_FACE)]
        col = gdf["v"]
        colr = col.raw() if hasattr(col, "raw") else col
        nrows = col.shape[0] if hasattr(col, "shape") else len(col)
        if pe == "exclude":
            K = z3.Sum([z3.If(am[f], 0, 1) for f in range(N_FACE)])
            cl = [sc.z(nrows) == K]
            cap = colr.shape_cap[0] if hasattr(colr, "shape_cap") else len(colr)
            for f in range(N_FACE):
                rank = z3.Sum([z3.If(am[h], 0, 1) for h in range(f)]) if f else z3.IntVal(0)
                for k in range(cap):
                    cl.append(z3.Implies(z3.And(z3.Not(am[f]), rank == k), _zr(colr[k]) == data[f]))
            ctx.prove("'exclude' with a projection: one row per face not crossing the projection's antimeridian, row k carries the k-th such face's value", z3.And(*cl))
        else:
            cap = colr.shape_cap[0] if hasattr(colr, "shape_cap") else len(colr)
            ctx.prove(f"'{pe}' with a projection: one row per face, row f carries face f's value",
                      z3.And(sc.z(nrows) == N_FACE, *[_zr(colr[f]) == data[f] for f in range(min(cap, N_FACE))]) if cap >= N_FACE else False)
        ctx.reachable("some face crosses the projection's antimeridian", z3.Or(*am))

    def replay(v):
        import uxarray as ux
        import cartopy.crs as rccrs
        lon = [float(x) for x in v["lon"]]
        g = C.real_grid(ROWS, lon, LAT)
        data = np.array(v["data"], dtype=float)
        P = rccrs.Robinson(central_longitude=central)
        try:
            gdf = ux.UxDataArray(data, dims=["n_face"], uxgrid=g, name="v").to_geodataframe(periodic_elements=pe, engine=engine, projection=P, project=project, cache=False)
        except Exception as e:
            return f"to_geodataframe('{pe}', {engine}, Robinson(central_longitude={central}), project={project}) raised {type(e).__name__}: {str(e)[:150]}"
        shifted = [((x - central + 180.0) % 360.0) - 180.0 for x in lon]
        am = _real_am(shifted)
        keep = [f for f in range(N_FACE) if f not in am] if pe == "exclude" else list(range(N_FACE))
        got = np.asarray(gdf["v"], dtype=float)
        if len(gdf) != len(keep) or len(got) != len(keep) or not np.allclose(got, data[keep]):
            return (f"to_geodataframe('{pe}', {engine}, Robinson(central_longitude={central}), project={project}) on node longitudes {lon}: {len(gdf)} rows with data {got.tolist()}, "
                    f"expected the {len(keep)} faces {keep} with values {data[keep].tolist()}")
        return None

    return Obligation(oid, f"UxDataArray.to_geodataframe('{pe}', engine={engine}, projection central longitude {central}, project={project}): rows <-> faces", setup, run, replay,
                      exact=False, functions=FUNCS, bounds="4 faces over 8 nodes, all node longitudes symbolic, distinct data values", stubs=STUBS, max_paths=3000)


# ------------------------------------------------------------------ conversion histories (cache logic), symbolic arguments
def make_history(oid, kind, n_calls=3, tiers=("quick", "thorough"), dom=None):
    """kind in {'poly','gdf','line','poly_data'}: n_calls conversions on one grid with symbolic arguments; each result must be what a
    fresh conversion with its own arguments gives, earlier returned objects stay unaltered, observations of the grid do not change"""
    PROJ = [None, "P1", "P2"]

    def setup(ctx):
        ctx.const("kind", kind)
        calls = []
        for i in range(n_calls):
            c = dict(pe=ctx.enum(f"pe{i}", PE), proj=ctx.enum(f"proj{i}", PROJ), cache=ctx.bool(f"cache{i}"), override=ctx.bool(f"override{i}"),
                     eng=ctx.enum(f"engine{i}", ["spatialpandas", "geopandas"]), data=ctx.bool(f"viadata{i}"))
            d = (dom or {}).get(i, (dom or {}).get("*", {}))
            for key, allowed in d.items():       # restrict the argument domain of call i (stated in the bounds)
                v = c[key]
                if isinstance(v, sc.SymEnum):
                    ctx.assume(z3.Or(*[v.e == v.vals.index(a) for a in allowed]))
                else:
                    ctx.assume(z3.Or(*[sc.z(v) == a for a in allowed]))
            calls.append(c)
        return calls

    def projobj(name):
        return None if name is None else stubs.Projection(name, 0.0 if name == "P1" else 90.0)

    def one_call(g, U, c, idx):
        pe, pr = c["pe"].concrete(), projobj(c["proj"].concrete())
        cache, override = bool(c["cache"]), bool(c["override"])
        if pe == "split" and pr is not None:
            return None, (pe, pr, None)
        if kind == "line":
            return g.to_linecollection(periodic_elements=pe, projection=pr, cache=cache, override=override), (pe, pr, None)
        via = bool(c["data"]) if kind in ("poly_data", "gdf_data") else False
        data = symnp.array([float(10 * idx + f) for f in range(N_FACE)])
        if kind.startswith("poly"):
            if via:
                return U(data, dims=["n_face"], uxgrid=g, name=f"v{idx}").to_polycollection(periodic_elements=pe, projection=pr, cache=cache, override=override), (pe, pr, data)
            return g.to_polycollection(periodic_elements=pe, projection=pr, cache=cache, override=override), (pe, pr, None)
        en = c["eng"].concrete()
        if via:
            return U(data, dims=["n_face"], uxgrid=g, name=f"v{idx}").to_geodataframe(periodic_elements=pe, projection=pr, cache=cache, override=override, engine=en), (pe, pr, data, en)
        return g.to_geodataframe(periodic_elements=pe, projection=pr, cache=cache, override=override, engine=en), (pe, pr, None, en)

    def describe(obj):
        """what a returned object was built from, as a comparable value"""
        if obj is None:
            return None
        if obj.kind == "PolyCollection":
            sh = obj.shells
            shells = [tuple(_fp(x) for x in symnp.asarray(s).flat_list()) for s in ([sh.raw()[i] for i in range(sh.shape_cap[0])] if isinstance(sh, symnp.SArr) else sh)]
            arr = None if obj.array is None else tuple(_fp(x) for x in symnp.asarray(obj.array).flat_list())
            return ("pc", tuple(shells), repr(obj.kwargs.get("transform").name if obj.kwargs.get("transform") is not None else None), arr)
        if obj.kind == "LineCollection":
            lines = tuple(tuple(_fp(x) for x in symnp.asarray(l).flat_list()) for l in obj.lines)
            return ("lc", lines, repr(obj.kwargs.get("transform").name))
        if obj.kind == "GeoDataFrame":
            cols = {}
            for k, v in obj.columns.items():
                cols[k] = _describe_col(v)
            return ("gdf", obj.engine, tuple(sorted(cols.items())))
        return repr(obj)

    def _describe_col(v):
        if isinstance(v, stubs.GeomArray):
            p = v.payload
            if isinstance(p, tuple):
                return (v.kind, _describe_col(p[0]), _describe_col(p[1]))
            return (v.kind, _describe_col(p))
        if isinstance(v, symnp.SArr):
            return tuple(_fp(x) for x in v.flat_list())
        if isinstance(v, tuple) and len(v) == 2:
            return ("sel", _describe_col(v[0]), _describe_col(v[1]))
        if isinstance(v, list):
            return tuple((getattr(P, "fixed", None), tuple(_fp(x) for x in symnp.asarray(P.shell).flat_list())) for P in v)
        return repr(v)

    @_with_stubs
    def run(ctx, calls):
        w = world()
        U = w.get("uxarray.core.dataarray", "UxDataArray")
        g = _grid(LON_FIXED)
        lon_before = [_fp(x) for x in g.node_lon.values.flat_list()]
        returned = []
        for i, c in enumerate(calls):
            try:
                obj, args = one_call(g, U, c, i)
            except ValueError:
                obj, args = None, None
            if obj is None:
                continue
            # reference: the same call on a fresh grid
            fresh_g = _grid(LON_FIXED)
            c2 = dict(c)
            ref, _ = one_call(fresh_g, U, c2, i)
            ctx.prove(f"call {i}: result equals a fresh conversion with the same arguments", describe(obj) == describe(ref),
                      note=f"args {args[:2]} got {str(describe(obj))[:300]} fresh {str(describe(ref))[:300]}",
                      regions={"linecollection_projection_not_cached": kind == "line", "poly_side_tables_written_without_cache": kind.startswith("poly"),
                               "gdf_data_column_added_to_cached_frame": kind.startswith("gdf")})
            for j, (o_prev, d_prev) in enumerate(returned):
                ctx.prove(f"call {i}: the object returned by call {j} is not altered", describe(o_prev) == d_prev,
                          regions={"gdf_data_column_added_to_cached_frame": kind.startswith("gdf"), "linecollection_shared": kind == "line"})
                if kind.startswith("poly"):
                    ctx.prove(f"call {i}: returns an object distinct from the one returned by call {j}", obj is not o_prev)
            returned.append((obj, describe(obj)))
        ctx.prove("node longitudes reported by the grid are unchanged by the conversions", [_fp(x) for x in g.node_lon.values.flat_list()] == lon_before)

    def replay(v):
        import uxarray as ux
        import cartopy.crs as rccrs
        g = C.real_grid(ROWS, LON_FIXED, LAT)
        lon_before = g.node_lon.values.copy()

        def proj(i):
            n = PROJ[v[f"proj{i}"]]
            return None if n is None else (rccrs.Robinson(central_longitude=0) if n == "P1" else rccrs.Robinson(central_longitude=90))

        def call(gr, i):
            pe, pr = PE[v[f"pe{i}"]], proj(i)
            if pe == "split" and pr is not None:
                return None
            kw = dict(periodic_elements=pe, projection=pr, cache=bool(v[f"cache{i}"]), override=bool(v[f"override{i}"]))
            data = np.array([float(10 * i + f) for f in range(N_FACE)])
            via = bool(v[f"viadata{i}"]) and kind in ("poly_data", "gdf_data")
            try:
                if kind == "line":
                    return gr.to_linecollection(**kw)
                if kind.startswith("poly"):
                    return ux.UxDataArray(data, dims=["n_face"], uxgrid=gr, name=f"v{i}").to_polycollection(**kw) if via else gr.to_polycollection(**kw)
                en = ["spatialpandas", "geopandas"][v[f"engine{i}"]]
                return ux.UxDataArray(data, dims=["n_face"], uxgrid=gr, name=f"v{i}").to_geodataframe(engine=en, **kw) if via else gr.to_geodataframe(engine=en, **kw)
            except ValueError:
                return None

        def desc(o):
            if o is None:
                return None
            if kind == "line":
                return ("lc", [np.asarray(s).round(4).tolist() for s in o.get_segments()])
            if kind.startswith("poly"):
                arr = None if o.get_array() is None else np.asarray(o.get_array()).tolist()
                return ("pc", [np.asarray(p.vertices).round(3).tolist() for p in o.get_paths()], arr)
            cols = {c: (np.asarray(o[c]).tolist() if c != "geometry" else len(o)) for c in o.columns}
            return ("gdf", type(o).__module__.split(".")[0], cols)
        returned = []
        for i in range(n_calls):
            o = call(g, i)
            if o is None:
                continue
            ref = call(C.real_grid(ROWS, LON_FIXED, LAT), i)
            if desc(o) != desc(ref):
                return f"{kind} history, call {i}: result differs from a fresh conversion with the same arguments (args pe={PE[v[f'pe{i}']]}, proj={PROJ[v[f'proj{i}']]}, cache={v[f'cache{i}']}, override={v[f'override{i}']}): {str(desc(o))[:200]} vs fresh {str(desc(ref))[:200]}"
            for j, (op, dp) in enumerate(returned):
                if desc(op) != dp:
                    return f"{kind} history: the object returned by call {j} was altered by call {i}: {str(dp)[:160]} -> {str(desc(op))[:160]}"
                if kind.startswith("poly") and o is op:
                    return f"{kind} history: call {i} returned the very object returned by call {j}"
            returned.append((o, desc(o)))
        if not np.array_equal(g.node_lon.values, lon_before):
            return f"conversions changed the grid's node_lon: {lon_before.tolist()} -> {g.node_lon.values.tolist()}"
        return None

    return Obligation(oid, f"{n_calls}-call {kind} conversion history with symbolic arguments on one grid", setup, run, replay, exact=False, functions=FUNCS,
                      bounds=f"{n_calls} calls; periodic_elements x projection in (None, P1 lon_0=0, P2 lon_0=90) x cache x override (x engine / via data variable); fixed 4-face grid with 2 antimeridian faces",
                      stubs=STUBS, tiers=tiers, max_paths=60000, timeout_s=2400, cost=8)


# ------------------------------------------------------------------ shells with a symbolic face table
def make_shells(oid):
    n_face, n_max, n_node = 2, 4, 6

    def setup(ctx):
        fn, nf = C.sym_face_table(ctx, n_face, n_max, n_node)
        lon = [z3.Real(f"lon_{i}") for i in range(n_node)]
        lat = [z3.Real(f"lat_{i}") for i in range(n_node)]
        for v in lon:
            ctx.solver.add(v >= -180, v <= 180)
        for v in lat:
            ctx.solver.add(v >= -90, v <= 90)
        ctx.eng.declare("lon", lon); ctx.eng.declare("lat", lat)
        return fn, nf, lon, lat

    def run(ctx, inp):
        fn, nf, lon, lat = inp
        geo = world().G["uxarray.grid.geometry"]
        nn = symnp.SArr.new([mk(x) for x in nf], (n_face,), None, symnp.int64)
        shells = geo["_build_polygon_shells"](C.sarr_1d(lon, symnp.float64), C.sarr_1d(lat, symnp.float64), C.sarr_int(fn), n_face, n_max, nn)

        def sel(idx, arr):
            t = arr[-1]
            for i in range(len(arr) - 2, -1, -1):
                t = z3.If(idx == i, arr[i], t)
            return t
        cl = [z3.BoolVal(shells.shape_cap == (n_face, n_max + 1, 2))]
        for f in range(n_face):
            for j in range(n_max + 1):
                node = z3.If(j < nf[f], fn[f][min(j, n_max - 1)], fn[f][0])
                cl.append(z3.And(_zr(shells[f, j, 0]) == sel(node, lon), _zr(shells[f, j, 1]) == sel(node, lat)))
        ctx.prove("shell f = (lon, lat) of corners 0..n_f-1 in order, then the first corner repeated up to width n_max+1", z3.And(*cl))

    def replay(v):
        from uxarray.grid.geometry import _build_polygon_shells
        rows = np.array(v["fn"], dtype=np.intp)
        lon, lat = np.array(v["lon"], dtype=float), np.array(v["lat"], dtype=float)
        sh = _build_polygon_shells(lon, lat, rows, n_face, n_max, np.array(v["fn_n"], dtype=np.intp))
        for f in range(n_face):
            c = C.face_corners(rows[f])
            idx = c + [c[0]] * (n_max + 1 - len(c))
            exp = np.stack([lon[idx], lat[idx]], axis=1).astype(np.float32)
            if not np.allclose(sh[f], exp):
                return f"shell {f} = {sh[f].tolist()}, corners of face {f} are {exp.tolist()}"
        return None

    return Obligation(oid, "polygon shells of a symbolic face table", setup, run, replay, exact=True, functions=FUNCS[:3],
                      bounds="2 faces <= 4 corners (all padding layouts), nodes < 6, coordinates symbolic")


def obligations(tier):
    obs = [make_shells("C15.shells.2f4")]
    obs += [make_poly(f"C15.poly.{pe}", pe, False) for pe in PE]
    obs += [make_poly(f"C15.poly.{pe}.data", pe, True) for pe in PE]
    obs += [make_gdf("C15.gdf.exclude.sp.data", "exclude", "spatialpandas", True), make_gdf("C15.gdf.exclude.gp", "exclude", "geopandas", False),
            make_gdf("C15.gdf.split.sp.data", "split", "spatialpandas", True), make_gdf("C15.gdf.split.gp", "split", "geopandas", False),
            make_gdf("C15.gdf.ignore.gp.data", "ignore", "geopandas", True), make_gdf("C15.gdf.ignore.sp", "ignore", "spatialpandas", False)]
    obs += [make_gdf_proj("C15.gdf.proj.exclude.sp.P2", "exclude", "spatialpandas", "P2", True), make_gdf_proj("C15.gdf.proj.exclude.gp.P2.noproject", "exclude", "geopandas", "P2", False),
            make_gdf_proj("C15.gdf.proj.ignore.sp.P1", "ignore", "spatialpandas", "P1", True), make_gdf_proj("C15.gdf.proj.ignore.gp.P2", "ignore", "geopandas", "P2", True)]
    two = {"*": {"pe": ["exclude", "ignore"]}}
    obs += [make_history("C15.history.line", "line", 2, dom={"*": {"pe": ["exclude", "split"], "proj": [None, "P1"]}}), make_history("C15.history.poly", "poly", 2, dom=two),
            make_history("C15.history.poly_data", "poly_data", 3,
                         dom={0: {"pe": ["exclude", "split"], "proj": [None, "P1"], "cache": [True], "override": [False]},
                              1: {"pe": ["exclude", "split"], "proj": [None, "P1"], "override": [False]},
                              2: {"pe": ["exclude", "split"], "proj": [None, "P1"], "cache": [True], "override": [False], "data": [True]}}),
            make_history("C15.history.line3q", "line", 3,
                         dom={0: {"pe": ["exclude", "split"], "proj": [None], "cache": [True], "override": [False]},
                              1: {"pe": ["exclude", "split"], "proj": [None], "override": [False]},
                              2: {"pe": ["exclude", "split"], "proj": [None], "cache": [True], "override": [False]}}),
            make_history("C15.history.gdf", "gdf", 2, dom={"*": {"proj": [None, "P1"]}}),
            make_history("C15.history.gdf_data", "gdf_data", 2, dom={"*": {"proj": [None, "P1"], "eng": ["spatialpandas"], "override": [False]}}),
            make_history("C15.history.line3", "line", 3, tiers=("thorough",), dom={"*": {"proj": [None, "P1"]}}),
            make_history("C15.history.poly3", "poly_data", 3, tiers=("thorough",), dom={"*": {"proj": [None, "P1"], "override": [False]}}),
            make_history("C15.history.gdf_data3", "gdf_data", 3, tiers=("thorough",), dom={"*": {"pe": ["exclude", "split"], "proj": [None, "P1"], "eng": ["spatialpandas"], "override": [False]}})]
    return [o for o in obs if tier in o.tiers]
