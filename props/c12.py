"""C12 Remapping picks true nearest sources and never invents values  (DESIGN.md section 2, C12).

Real code executed: UxDataArray.remap.nearest_neighbor / inverse_distance_weighted -> remap.nearest_neighbor._nearest_neighbor(_uxda),
remap.inverse_distance_weighted._inverse_distance_weighted_remap(_uxda), remap.utils._remap_grid_parse, Grid.get_ball_tree,
BallTree (build + query preparation), over cloned source/destination grids; sklearn's tree is a recorder whose query returns
*symbolic* neighbour indices and (sorted, non-negative) distances.
Outside (stated): that sklearn returns the true nearest neighbours (as C11)."""
import math
import itertools
import z3
import numpy as np
from symex import core as sc, symnp, symxr
from symex.core import mk
from symex.runner import Obligation, world
from . import common as C, c11
from .common import F

GRIDS = {
    "mixed": ([[0, 1, 2, 3], [1, 4, 2, F], [2, 4, 5, F]], 6),            # n_face 3, n_node 6, n_edge 8
    "tetra": ([[0, 1, 2], [0, 3, 1], [1, 3, 2], [2, 3, 0]], 4),          # n_face = n_node = 4, n_edge = 6
}
DEST = ([[0, 1, 2, F], [0, 2, 3, 4]], 5)                                 # destination: n_face 2, n_node 5, n_edge 6
KINDS = {"n_node": "nodes", "n_face": "face centers", "n_edge": "edge centers"}
FUNCS = ["UxDataArray.remap.nearest_neighbor", "UxDataArray.remap.inverse_distance_weighted", "remap.utils._remap_grid_parse",
         "remap.nearest_neighbor._nearest_neighbor", "remap.nearest_neighbor._nearest_neighbor_uxda",
         "remap.inverse_distance_weighted._inverse_distance_weighted_remap(_uxda)", "Grid.get_ball_tree", "neighbors.BallTree"]


def _sizes(rows, n_node):
    _, allp = C.ref_edges(rows)
    return {"n_face": len(rows), "n_node": n_node, "n_edge": len(allp)}


def _lonlat(n, shift=0.0):
    lon, lat = C.default_lonlat(n)
    return [x + shift if -180 <= x + shift <= 180 else x for x in lon], [y + shift / 3 if abs(y + shift / 3) <= 85 else y for y in lat]


class SKTreeNN(c11.SKTree):
    """recorder whose query answers with symbolic in-range indices and ascending non-negative distances"""
    def query(self, X, k=1, return_distance=True, dualtree=False, breadth_first=False, sort_results=True):
        nq = X.shape_cap[0]
        n_el = self.coords.shape_cap[0]
        e = sc.eng()
        idx = [mk(z3.Int(f"nn_{len(self.queries)}_{i}_{j}")) for i in range(nq) for j in range(k)]
        d = [mk(z3.Real(f"dist_{len(self.queries)}_{i}_{j}")) for i in range(nq) for j in range(k)]
        for i in range(nq):
            for j in range(k):
                e.solver.add(sc.z(idx[i * k + j]) >= 0, sc.z(idx[i * k + j]) < n_el, sc.z(d[i * k + j]) >= 0, sc.z(d[i * k + j]) <= 3)
                if j:
                    e.solver.add(sc.z(d[i * k + j]) >= sc.z(d[i * k + j - 1]))
                for j2 in range(j):
                    e.solver.add(sc.z(idx[i * k + j]) != sc.z(idx[i * k + j2]))
        e.inputs[f"nn_{len(self.queries)}"] = idx
        e.inputs[f"dist_{len(self.queries)}"] = d
        self.queries.append(("query", X, k, d, idx))
        D, I = symnp.SArr.new(d, (nq, k), None, symnp.float64), symnp.SArr.new(idx, (nq, k), None, symnp.int64)
        return (D, I) if return_distance else I


def _install(w):
    g = w.G["uxarray.grid.neighbors"]
    saved = (g["SKBallTree"], g["SKKDTree"])
    g["SKBallTree"], g["SKKDTree"] = SKTreeNN, SKTreeNN

    def undo():
        g["SKBallTree"], g["SKKDTree"] = saved
    return undo


def _grids(gname):
    rows, n = GRIDS[gname]
    src = C.clone_grid(symnp.array(rows), *_lonlat(n))
    dst = C.clone_grid(symnp.array(DEST[0]), *_lonlat(DEST[1], 7.0))
    return src, dst


def _real_grids(gname):
    rows, n = GRIDS[gname]
    return C.real_grid(rows, *_lonlat(n)), C.real_grid(DEST[0], *_lonlat(DEST[1], 7.0))


def _brute_nn(src, dst, kind, remap_to):
    """great-circle nearest source element of `kind` for every destination element of `remap_to`"""
    def xyz(g, what):
        p = c11.PFX[what]
        return np.stack([getattr(g, f"{p}_{a}").values for a in "xyz"], axis=-1)
    S, D = xyz(src, kind), xyz(dst, remap_to)
    S = S / np.linalg.norm(S, axis=1, keepdims=True)
    D = D / np.linalg.norm(D, axis=1, keepdims=True)
    ang = np.arccos(np.clip(D @ S.T, -1, 1))
    return ang


def make_nn(oid, gname, kind, remap_to, coord, lead, history=None, tiers=("quick", "thorough"), same_grid=False):
    """same_grid: the destination is the source Grid object itself (data moved between element kinds of one grid)"""
    rows, n_node = GRIDS[gname]
    sizes = _sizes(rows, n_node)
    L = sizes[kind]
    dsz = sizes if same_grid else _sizes(*DEST)
    n_dest = dsz[{"nodes": "n_node", "face centers": "n_face", "edge centers": "n_edge"}[remap_to]]
    shape = tuple(lead) + (L,)
    nlead = int(np.prod(lead)) if lead else 1

    def setup(ctx):
        for k, v in (("grid", gname), ("kind", kind), ("remap_to", remap_to), ("coord", coord), ("lead", list(lead)), ("history", history), ("same_grid", same_grid)):
            ctx.const(k, v)
        vals = [z3.Real(f"v_{i}") for i in range(nlead * L)]
        for i in range(len(vals)):
            ctx.solver.add(vals[i] >= -9, vals[i] <= 9)
            for j in range(i + 1, len(vals)):
                ctx.solver.add(z3.Or(vals[i] - vals[j] >= sc.lift(0.1), vals[j] - vals[i] >= sc.lift(0.1)))
        ctx.eng.declare("vals", vals)
        return vals

    def run(ctx, vals):
        w = world()
        undo = _install(w)
        try:
            src, dst = _grids(gname)
            if same_grid:
                dst = src
            U = w.get("uxarray.core.dataarray", "UxDataArray")
            if history:
                hk = history
                Lh = sizes[hk]
                U(symnp.array([float(i) for i in range(Lh)]), dims=[hk], uxgrid=src, name="h").remap.nearest_neighbor(dst, remap_to=remap_to, coord_type=coord)
            dims = [f"d{i}" for i in range(len(lead))] + [kind]
            da = U(symnp.SArr.new([mk(v) for v in vals], shape, None, symnp.float64), dims=dims, uxgrid=src, name="t")
            out = da.remap.nearest_neighbor(dst, remap_to=remap_to, coord_type=coord)
            try:
                tree = src._ball_tree._current_tree()
                searched = len(tree.queries) > 0
            except Exception:      # noqa: BLE001
                tree, searched = None, False
            ctx.prove("a nearest-neighbour search over the source elements is performed", searched)
            if not searched:
                return
            ok, why = c11._tree_matches(tree, src, KINDS[kind], coord, "haversine" if coord == "spherical" else "minkowski")
            ctx.prove("the source tree is built from the elements the data live on, in the requested coordinate type", ok, note=why,
                      regions={"remap_kind_inferred_from_length": _coincide(sizes, kind)})
            if not ok:
                return
            _, X, k_, d0, idx = tree.queries[-1]
            exp = c11._expected_coords(dst, remap_to, coord)
            Xf = X.flat_list()
            wdt = X.shape_cap[1]
            okq = X.shape_cap == (n_dest, len(exp[0])) and all(abs(float(c11._c(Xf[i * wdt + c])) - float(c11._c(exp[i][c]))) < 1e-9 for i in range(n_dest) for c in range(wdt)) and k_ == 1
            ctx.prove("the query points are the destination elements of remap_to, in the tree's own column order and unit, k = 1", okq)
            ov = out.values
            dd = {"nodes": "n_node", "face centers": "n_face", "edge centers": "n_edge"}[remap_to]
            ctx.prove("output dims = input dims with the element dimension replaced by the destination's; attached to the destination grid; shape",
                      sc.and_(tuple(out.dims) == tuple(dims[:-1]) + (dd,), out.uxgrid is dst, out.name == "t", ov.shape_cap == tuple(lead) + (n_dest,)))
            if ov.shape_cap != tuple(lead) + (n_dest,):
                return
            fl = ov.flat_list()

            def sel(ix, i):
                t = vals[i * L + L - 1]
                for kk in range(L - 2, -1, -1):
                    t = z3.If(sc.z(ix) == kk, vals[i * L + kk], t)
                return t
            for i in range(nlead):
                ctx.prove(f"leading index {i}: dest[..., j] = src[..., nearest(j)] for every destination element j",
                          z3.And(*[c11._zr(fl[i * n_dest + j]) == sel(idx[j], i) for j in range(n_dest)]))
        finally:
            undo()

    def replay(v):
        import uxarray as ux
        src, dst = _real_grids(gname)
        if same_grid:
            dst = src
        if history:
            ux.UxDataArray(np.arange(sizes[history], dtype=float), dims=[history], uxgrid=src, name="h").remap.nearest_neighbor(dst, remap_to=remap_to, coord_type=coord)
        data = np.array(v["vals"], dtype=float).reshape(shape)
        dims = [f"d{i}" for i in range(len(lead))] + [kind]
        out = ux.UxDataArray(data, dims=dims, uxgrid=src, name="t").remap.nearest_neighbor(dst, remap_to=remap_to, coord_type=coord)
        ang = _brute_nn(src, dst, KINDS[kind], remap_to)
        got = np.asarray(out.values, dtype=float)
        if got.shape != tuple(lead) + (n_dest,):
            return f"remapped shape {got.shape}, expected {tuple(lead) + (n_dest,)}"
        for j in range(n_dest):
            best = np.flatnonzero(ang[j] <= ang[j].min() + 1e-9)
            if not any(np.allclose(got[..., j], data[..., b]) for b in best):
                return (f"nearest_neighbor({remap_to},{coord}) of {kind} data on grid '{gname}' {sizes}{' after remapping ' + history + ' data' if history else ''}: destination element {j} got {got[..., j].tolist()}, "
                        f"its great-circle nearest source {KINDS[kind]} element {best.tolist()} holds {data[..., best[0]].tolist()}")
        return None

    return Obligation(oid, f"nearest_neighbor remap of {kind} data on '{gname}' {sizes} to {remap_to} ({coord}), leading dims {tuple(lead)}, history {history}", setup, run, replay,
                      exact=False, functions=FUNCS, bounds=f"source grid '{gname}' {sizes}, destination {dsz}; neighbour indices symbolic in range; data pairwise >= 0.1 apart",
                      stubs=c11.STUBS, tiers=tiers)


def _coincide(sizes, kind):
    """the length-based inference of _remap_grid_parse picks another kind first (order: node, face, edge)"""
    order = ["n_node", "n_face", "n_edge"]
    return any(sizes[o] == sizes[kind] for o in order[:order.index(kind)])


def make_idw(oid, k, power, lead, tiers=("quick", "thorough"), cost=3, dtype="float"):
    gname, kind, remap_to = "mixed", "n_node", "face centers"
    rows, n_node = GRIDS[gname]
    L = n_node
    n_dest = 2
    nlead = int(np.prod(lead)) if lead else 1
    shape = tuple(lead) + (L,)

    def setup(ctx):
        ctx.const("k", k); ctx.const("power", power); ctx.const("lead", list(lead))
        ctx.const("dtype", dtype)
        vals = [(z3.Int if dtype == "int" else z3.Real)(f"v_{i}") for i in range(nlead * L)]
        for x in vals:
            ctx.solver.add(x >= -9, x <= 9)
        ctx.eng.declare("vals", vals)
        return vals

    def run(ctx, vals):
        w = world()
        undo = _install(w)
        try:
            src, dst = _grids(gname)
            U = w.get("uxarray.core.dataarray", "UxDataArray")
            dims = [f"d{i}" for i in range(len(lead))] + [kind]
            da = U(symnp.SArr.new([mk(v) for v in vals], shape, None, symnp.int64 if dtype == "int" else symnp.float64), dims=dims, uxgrid=src, name="t")
            if dtype == "int":
                vals = [z3.ToReal(v) for v in vals]
            out = da.remap.inverse_distance_weighted(dst, remap_to=remap_to, coord_type="spherical", power=power, k=k)
            tree = src._ball_tree._current_tree()
            _, X, k_, d0, idx = tree.queries[-1]
            ctx.prove("k neighbours requested", k_ == k)
            ov = out.values
            ctx.prove("dims/grid/shape", sc.and_(tuple(out.dims) == tuple(dims[:-1]) + ("n_face",), out.uxgrid is dst, ov.shape_cap == tuple(lead) + (n_dest,)))
            fl = ov.flat_list()

            def sel(ix, i):
                t = vals[i * L + L - 1]
                for kk in range(L - 2, -1, -1):
                    t = z3.If(sc.z(ix) == kk, vals[i * L + kk], t)
                return t
            for i in range(nlead):
                for j in range(n_dest):
                    nb = [sel(idx[j * k + m], i) for m in range(k)]
                    r = c11._zr(fl[i * n_dest + j])
                    lo = nb[0]
                    hi = nb[0]
                    for x in nb[1:]:
                        lo = z3.If(x < lo, x, lo)
                        hi = z3.If(x > hi, x, hi)
                    ctx.prove(f"[{i},{j}] result lies between the minimum and maximum of the k neighbour values (convex combination)", z3.And(r >= lo, r <= hi), tactic="qfnra-nlsat")
                    ctx.prove(f"[{i},{j}] constant neighbour values are reproduced", z3.Implies(z3.And(*[x == nb[0] for x in nb[1:]]), r == nb[0]), tactic="qfnra-nlsat")
                    # weights: w_m = (r with indicator data) -- non-negative, sum 1, non-increasing in distance
                    d = [sc.z(d0[j * k + m]) * 180 / sc.lift(symnp.PI_Q) for m in range(k)]     # the spherical tree API reports degrees
                    if k == 2:       # closed form incl. weight monotonicity: decided for k = 2 (nlsat returns unknown for k = 3 after 300 s)
                        ctx.prove(f"[{i},{j}] result = sum of neighbour values weighted by 1/(d^p+1e-6), normalised; weights positive and non-increasing with distance",
                                  _mono_claim(r, nb, d, power, k), tactic="qfnra-nlsat")
        finally:
            undo()

    def _mono_claim(r, nb, d, p, kk):
        # closed form of the property sentence: r * sum(1/(d^p+eps)) = sum(v/(d^p+eps)); it implies convexity; monotone weights follow from d ascending
        eps = sc.lift(1e-6)

        def pw(x):
            t = x
            for _ in range(p - 1):
                t = t * x
            return t
        ws = [1 / (pw(x) + eps) for x in d]
        return z3.And(r * z3.Sum(ws) == z3.Sum([wi * vi for wi, vi in zip(ws, nb)]), *[ws[m] >= ws[m + 1] for m in range(kk - 1)], *[wi > 0 for wi in ws])

    def replay(v):
        # concrete oracle implementing the property sentence on the real library: read the weights back with indicator fields
        import uxarray as ux
        rows, n = GRIDS[gname]
        lon, lat = [10.0 + 0.25 * i + 0.031 * i * i for i in range(n)], [5.0 + 0.2 * ((i * 5) % 7) + 0.017 * i for i in range(n)]      # irregular: no distance ties
        src = C.real_grid(rows, lon, lat)
        for coord in ("spherical", "cartesian"):
            W = np.zeros((n, n))
            for j in range(n):
                e = np.zeros(n); e[j] = 1.0
                W[:, j] = ux.UxDataArray(e, dims=["n_node"], uxgrid=src, name="e").remap.inverse_distance_weighted(src, remap_to="nodes", coord_type=coord, power=power, k=k).values
            ang = _brute_nn(src, src, "nodes", "nodes")
            for i in range(n):
                order = np.argsort(ang[i], kind="stable")[:k]
                if np.any(W[i] < -1e-12) or abs(W[i].sum() - 1) > 1e-9:
                    return f"IDW({coord}, power={power}, k={k}): weights of destination {i} are {W[i].tolist()} (not a convex combination)"
                if set(np.flatnonzero(W[i] > 1e-15)) - set(order.tolist()):
                    return f"IDW({coord}): destination {i} uses sources {np.flatnonzero(W[i] > 1e-15).tolist()}, its {k} nearest are {order.tolist()}"
                ws = W[i][order]
                if np.any(np.diff(ws) > 1e-12):
                    return f"IDW({coord}, power={power}, k={k}): weights {ws.tolist()} of destination {i} increase with distance {ang[i][order].tolist()}"
            c = ux.UxDataArray(np.full(n, 3.5), dims=["n_node"], uxgrid=src, name="c").remap.inverse_distance_weighted(src, remap_to="nodes", coord_type=coord, power=power, k=k).values
            if not np.allclose(c, 3.5):
                return f"IDW({coord}) does not reproduce a constant field: {c.tolist()}"
            if dtype == "int":
                iv = np.array([int(x) for x in v["vals"]][:n], dtype=np.int64)
                for data in (iv, np.full(n, 7, dtype=np.int64), np.arange(n, dtype=np.int32) * 3 - 5):
                    a = np.asarray(ux.UxDataArray(data, dims=["n_node"], uxgrid=src, name="i").remap.inverse_distance_weighted(src, remap_to="nodes", coord_type=coord, power=power, k=k).values, dtype=float)
                    b = np.asarray(ux.UxDataArray(data.astype(float), dims=["n_node"], uxgrid=src, name="f").remap.inverse_distance_weighted(src, remap_to="nodes", coord_type=coord, power=power, k=k).values, dtype=float)
                    if not np.allclose(a, b, rtol=0, atol=1e-9):
                        return f"IDW({coord}, power={power}, k={k}) of integer data {data.tolist()} gives {a.tolist()}, the weighted means are {b.tolist()}"
        return None

    return Obligation(oid, f"inverse_distance_weighted remap, k={k}, power={power}, leading dims {tuple(lead)}: convex combination with weights non-increasing in distance", setup, run, replay,
                      exact=False, functions=FUNCS, bounds=f"k={k}, power={power}; distances symbolic with 0 <= d1 <= ... <= dk <= 3; neighbour indices symbolic",
                      stubs=c11.STUBS + ["z3 nlsat for the rational-function claims"], tiers=tiers, cost=cost, timeout_s=1500, query_timeout_s=300)


def obligations(tier):
    _extra_idw = [make_idw("C12.idw.k2.p1.int", 2, 1, (), dtype="int", cost=3)]
    obs = list(_extra_idw)
    for kind, remap_to, coord, lead in (("n_node", "face centers", "spherical", ()), ("n_face", "nodes", "cartesian", (2,)), ("n_edge", "edge centers", "spherical", ()),
                                        ("n_face", "face centers", "spherical", (2, 2)), ("n_node", "edge centers", "cartesian", ())):
        obs.append(make_nn(f"C12.nn.mixed.{kind[2:]}.{remap_to.split()[0]}.{coord[:3]}", "mixed", kind, remap_to, coord, lead))
    obs += [make_nn("C12.nn.tetra.node", "tetra", "n_node", "nodes", "spherical", ()), make_nn("C12.nn.tetra.face", "tetra", "n_face", "nodes", "spherical", ()),
            make_nn("C12.nn.tetra.edge", "tetra", "n_edge", "face centers", "cartesian", (2,))]
    obs += [make_nn("C12.nn.tetra.same_grid.node_to_face", "tetra", "n_node", "face centers", "spherical", (2,), same_grid=True),
            make_nn("C12.nn.mixed.same_grid.face_to_node", "mixed", "n_face", "nodes", "cartesian", (), same_grid=True)]
    obs += [make_nn("C12.nn.history.face_then_node", "mixed", "n_node", "nodes", "spherical", (), history="n_face"),
            make_nn("C12.nn.history.node_then_edge", "mixed", "n_edge", "nodes", "spherical", (), history="n_node"),
            make_nn("C12.nn.history.edge_then_face", "mixed", "n_face", "face centers", "cartesian", (2,), history="n_edge")]
    obs += [make_idw("C12.idw.k2.p1", 2, 1, ()), make_idw("C12.idw.k2.p2", 2, 2, (2,)), make_idw("C12.idw.k2.p3", 2, 3, ()), make_idw("C12.idw.k3.p1", 3, 1, ())]
    return [o for o in obs if tier in o.tiers]
