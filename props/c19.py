"""C19 A grid shares no mutable state with its inputs, copies or exports.

Real code executed (cloned Grid over reference-faithful symxr objects): the constructors Grid.from_topology /
Grid.from_dataset (UGRID, MPAS) with snapshots of every input buffer and attribute dictionary taken before and compared
after; Grid.copy followed by a public mutator on one side (property setter, normalize_cartesian_coordinates,
construct_face_centers) with observation of the other side; Grid.to_xarray('ugrid') followed by an arbitrary caller edit of
the returned dataset with observation of the grid.  Contents are symbolic, so 'changed' is a satisfiability question."""
import z3
import numpy as np
from symex import core as sc, symnp, symxr
from symex.core import mk
from symex.runner import Obligation, world
from . import common as C
from .common import F

ROWS = [[0, 1, 2, 3], [1, 4, 2, F]]
N_NODE, N_FACE = 5, 2


def _zr(v):
    v = sc.z(v)
    return z3.ToReal(v) if z3.is_int(v) else v


def _same(a, b):
    return z3.And(*[_zr(x) == _zr(y) for x, y in zip(a, b)]) if a else z3.BoolVal(True)


def _reals(ctx, name, n, lo, hi):
    v = [z3.Real(f"{name}_{i}") for i in range(n)]
    for x in v:
        ctx.solver.add(x >= lo, x <= hi)
    ctx.eng.declare(name, v)
    return v


# ------------------------------------------------------------------ inputs: from_topology
def make_inputs_topo(oid, fill_case):
    n_face, n_max, n_node = 2, 4, 6
    fillv = {"none": None, "minus1": -1, "std": F}[fill_case]
    sizes = [4, 4] if fill_case == "none" else None

    def setup(ctx):
        ctx.const("fill_case", fill_case)
        fn, nf = C.sym_face_table(ctx, n_face, n_max, n_node, sizes=sizes)
        b = ctx.int("start_index", 0, 1)
        lon = _reals(ctx, "lon", n_node, 0, 360)
        lat = _reals(ctx, "lat", n_node, -90, 90)
        flon = _reals(ctx, "flon", n_face, 0, 360)
        return fn, nf, b, lon, lat, flon

    def run(ctx, inp):
        fn, nf, b, lon, lat, flon = inp
        src = [[z3.If(j < nf[f], fn[f][j] + sc.z(b), fillv if fillv is not None else 0) for j in range(n_max)] for f in range(n_face)]
        arr, lon_a, lat_a = C.sarr_int(src), C.sarr_1d(lon, symnp.float64), C.sarr_1d(lat, symnp.float64)
        flon_a, flat_a = C.sarr_1d(flon, symnp.float64), symnp.array([10.0, 20.0])
        snaps = [(x, x.flat_list()) for x in (arr, lon_a, lat_a, flon_a, flat_a)]
        Grid = world().get("uxarray.grid.grid", "Grid")
        g = Grid.from_topology(lon_a, lat_a, arr, fill_value=fillv, start_index=b, face_lon=flon_a, face_lat=flat_a)
        g.node_lon, g.face_lon, g.face_node_connectivity, g.n_nodes_per_face, g.node_x
        names = ["face_node_connectivity", "node_lon", "node_lat", "face_lon", "face_lat"]
        for nm, (a, before) in zip(names, snaps):
            ctx.prove(f"the caller's {nm} array is unchanged by building (and using) the grid", _same(a.flat_list(), before))

    def replay(v):
        import uxarray as ux
        b = v["start_index"]
        rows = [[(x + b) if x != F else (fillv if fillv is not None else 0) for x in r] for r in v["fn"]]
        arrs = [np.array(rows, dtype=np.intp), np.array(v["lon"], dtype=float), np.array(v["lat"], dtype=float), np.array(v["flon"], dtype=float), np.array([10.0, 20.0])]
        keep = [a.copy() for a in arrs]
        g = ux.Grid.from_topology(arrs[1], arrs[2], arrs[0], fill_value=fillv, start_index=b, face_lon=arrs[3], face_lat=arrs[4])
        g.node_lon, g.face_lon, g.face_node_connectivity, g.n_nodes_per_face, g.edge_node_connectivity
        for nm, a, k in zip(["face_node_connectivity", "node_lon", "node_lat", "face_lon", "face_lat"], arrs, keep):
            if not np.array_equal(a, k):
                return f"Grid.from_topology(fill_value={fillv}, start_index={b}) modified the caller's {nm} array: {k.tolist()} -> {a.tolist()}"
        return None

    return Obligation(oid, f"from_topology leaves the caller's arrays unchanged (fill dialect {fill_case})", setup, run, replay, exact=True,
                      functions=["Grid.from_topology", "_topology._read_topology", "_topology._process_connectivity", "connectivity._replace_fill_values",
                                 "coordinates._set_desired_longitude_range", "Grid.__init__"],
                      bounds="2 faces <= 4 corners, nodes < 6, lon in [0,360] (wrap branch reachable), start_index in {0,1}")


# ------------------------------------------------------------------ inputs: datasets
def make_inputs_ugrid(oid, dtype, fill_case, si):
    n_face, n_max, n_node = 2, 4, 6
    fillv = {"minus1": -1, "std": F}[fill_case]

    def setup(ctx):
        ctx.const("dtype", dtype); ctx.const("fill_case", fill_case); ctx.const("si", si)
        fn, nf = C.sym_face_table(ctx, n_face, n_max, n_node)
        lon = _reals(ctx, "lon", n_node, 0, 360)
        lat = _reals(ctx, "lat", n_node, -90, 90)
        return fn, nf, lon, lat

    def mkds(fn_rows, lon, lat, DA, DS, arr_i, arr_f):
        ds = DS()
        ds["Mesh2"] = DA(arr_i([0], scalar=True), dims=[], attrs={"cf_role": "mesh_topology", "topology_dimension": 2, "node_coordinates": "nlon nlat",
                                                                  "face_node_connectivity": "fnc"})
        ds["nlon"] = DA(arr_f(lon), dims=["nNodes"], attrs={"units": "degrees_east"})
        ds["nlat"] = DA(arr_f(lat), dims=["nNodes"], attrs={"units": "degrees_north"})
        ds["fnc"] = DA(arr_i(fn_rows), dims=["nFaces", "nMaxNodes"], attrs={"cf_role": "face_node_connectivity", "_FillValue": fillv, "start_index": si})
        ds.attrs["title"] = "source"
        return ds

    def run(ctx, inp):
        fn, nf, lon, lat = inp
        src = [[z3.If(j < nf[f], fn[f][j] + si, fillv) for j in range(n_max)] for f in range(n_face)]
        dt = symnp.int64 if dtype == "int64" else symnp.int32
        ds = mkds(src, lon, lat, symxr.DataArray, symxr.Dataset,
                  lambda rows, scalar=False: symnp.array(0) if scalar else symnp.SArr.new([mk(x) for r in rows for x in r], (n_face, n_max), None, dt),
                  lambda v: C.sarr_1d(v, symnp.float64))
        before = {k: (ds[k].data.flat_list(), dict(ds[k].attrs)) for k in ("nlon", "nlat", "fnc", "Mesh2")}
        names_before = sorted(ds._vars)
        attrs_before = dict(ds.attrs)
        Grid = world().get("uxarray.grid.grid", "Grid")
        g = Grid.from_dataset(ds)
        g.node_lon, g.face_node_connectivity, g.n_nodes_per_face, g.node_x
        for k, (vals, attrs) in before.items():
            ctx.prove(f"input dataset variable '{k}': values unchanged", _same(ds[k].data.flat_list(), vals))
            ctx.prove(f"input dataset variable '{k}': attributes unchanged", dict(ds[k].attrs) == attrs, note=f"{dict(ds[k].attrs)} vs {attrs}")
        ctx.prove("input dataset: variable set and global attributes unchanged", sorted(ds._vars) == names_before and dict(ds.attrs) == attrs_before)

    def replay(v):
        import xarray as xr
        import uxarray as ux
        rows = [[(x + si) if x != F else fillv for x in r] for r in v["fn"]]
        npdt = np.int64 if dtype == "int64" else np.int32
        ds = mkds(rows, v["lon"], v["lat"], xr.DataArray, xr.Dataset, lambda r, scalar=False: 0 if scalar else np.array(r, dtype=npdt), lambda x: np.array(x, dtype=float))
        keep = ds.copy(deep=True)
        g = ux.Grid.from_dataset(ds)
        g.node_lon, g.face_node_connectivity, g.edge_node_connectivity, g.face_lon
        if not ds.identical(keep):
            diffs = [k for k in keep.variables if not ds[k].identical(keep[k])] if set(ds.variables) == set(keep.variables) else "variable set"
            return f"Grid.from_dataset modified its input UGRID dataset ({dtype}, _FillValue={fillv}, start_index={si}): {diffs}"
        return None

    return Obligation(oid, f"from_dataset(UGRID {dtype}, fill {fill_case}, start_index {si}) leaves the input dataset unchanged", setup, run, replay, exact=True,
                      functions=["Grid.from_dataset", "_ugrid._read_ugrid", "_ugrid._standardize_connectivity", "connectivity._replace_fill_values", "Grid.__init__",
                                 "coordinates._set_desired_longitude_range"],
                      bounds="2 faces <= 4 corners, nodes < 6, lon in [0,360]")


def make_inputs_internal(oid, ctor):
    """a dataset already in the internal (UGRID-named) layout handed to Grid.from_dataset(ds, source_grid_spec=...) / Grid(ds, spec):
    neither construction nor later derivation / normalisation may change the caller's dataset"""
    def setup(ctx):
        ctx.const("ctor", ctor)
        lon = _reals(ctx, "lon", N_NODE, 0, 360)
        lat = _reals(ctx, "lat", N_NODE, -90, 90)
        return lon, lat

    def mkds(lon, lat, DA, DS, arr_i, arr_f):
        ds = DS()
        ds["node_lon"] = DA(arr_f(lon), dims=["n_node"], attrs={"units": "degrees_east"})
        ds["node_lat"] = DA(arr_f(lat), dims=["n_node"], attrs={"units": "degrees_north"})
        ds["face_node_connectivity"] = DA(arr_i(ROWS), dims=["n_face", "n_max_face_nodes"], attrs=dict(C.FN_ATTRS))
        ds.attrs["title"] = "source"
        return ds

    def build(Grid, ds):
        return Grid.from_dataset(ds, source_grid_spec="UGRID") if ctor == "from_dataset_spec" else Grid(ds, "UGRID")

    def run(ctx, inp):
        lon, lat = inp
        old = sc.NL_UF[0]
        sc.NL_UF[0] = True
        try:
            ds = mkds(lon, lat, symxr.DataArray, symxr.Dataset, lambda rows: C.sarr_int(rows), lambda v: C.sarr_1d(v, symnp.float64))
            before = {k: (ds[k].data.flat_list(), dict(ds[k].attrs)) for k in list(ds._vars)}
            names_before, attrs_before = sorted(ds._vars), dict(ds.attrs)
            g = build(world().get("uxarray.grid.grid", "Grid"), ds)
            g.node_lon, g.edge_node_connectivity, g.n_nodes_per_face, g.node_x, g.face_lon
            ctx.prove("input dataset: variable set and global attributes unchanged (derived variables do not appear in it)",
                      sorted(ds._vars) == names_before and dict(ds.attrs) == attrs_before, note=f"{sorted(ds._vars)}")
            for k, (vals, attrs) in before.items():
                if k in ds._vars:
                    ctx.prove(f"input dataset variable '{k}': values unchanged", _same(ds[k].data.flat_list(), vals) if len(ds[k].data.flat_list()) == len(vals) else False)
                    ctx.prove(f"input dataset variable '{k}': attributes unchanged", dict(ds[k].attrs) == attrs, note=f"{dict(ds[k].attrs)} vs {attrs}")
        finally:
            sc.NL_UF[0] = old

    def replay(v):
        import xarray as xr
        import uxarray as ux
        ds = mkds(v["lon"], v["lat"], xr.DataArray, xr.Dataset, lambda r: np.array(r, dtype=np.intp), lambda x: np.array(x, dtype=float))
        keep = ds.copy(deep=True)
        g = build(ux.Grid, ds)
        g.node_lon, g.edge_node_connectivity, g.n_nodes_per_face, g.node_x, g.face_lon
        if not ds.identical(keep):
            diffs = [k for k in keep.variables if not ds[k].identical(keep[k])] if set(ds.variables) == set(keep.variables) else f"variable set is now {sorted(ds.variables)}"
            return (f"{'Grid.from_dataset(ds, source_grid_spec=...)' if ctor == 'from_dataset_spec' else 'Grid(ds, spec)'} followed by reading derived quantities modified the "
                    f"caller's dataset: {diffs}; node_lon {np.asarray(ds['node_lon'].values).tolist()} (was {np.asarray(keep['node_lon'].values).tolist()})")
        return None

    return Obligation(oid, f"{ctor}: a dataset in the internal layout is left unchanged by construction and by later derivation", setup, run, replay, exact=False,
                      functions=["Grid.from_dataset", "Grid.__init__", "coordinates._set_desired_longitude_range", "Grid.edge_node_connectivity", "Grid.node_x", "Grid.face_lon"],
                      stubs=["trig / products uninterpreted (only identity of values matters)"], bounds="2 faces over 5 nodes, lon in [0,360] (wrap branch), lat symbolic")


# ------------------------------------------------------------------ copy()
def _first(x):
    return x[0] if isinstance(x, tuple) else x


def make_copy_export(oid, side, what):
    """copy, change one side's node longitudes through the property setter, export that side, then export the other side with the same arguments:
    the other side's export is built from its own (unchanged) coordinates - the two grids share no export cache"""
    from . import stubs

    def setup(ctx):
        ctx.const("side", side); ctx.const("what", what)
        lon = _reals(ctx, "lon", N_NODE, -170, 170)
        lat = _reals(ctx, "lat", N_NODE, -80, 80)
        new = _reals(ctx, "new", N_NODE, -170, 170)
        ctx.assume(z3.Or(*[a != b for a, b in zip(new, lon)]))
        return lon, lat, new

    def build(lon, lat, cl):
        return cl({"node_lon": (["n_node"], lon), "node_lat": (["n_node"], lat), "face_node_connectivity": (["n_face", "n_max_face_nodes"], ROWS, C.FN_ATTRS)})

    def export(g):
        return g.to_linecollection(periodic_elements="ignore") if what == "line" else _first(g.to_polycollection(periodic_elements="ignore"))

    def flat(obj):
        src = obj.lines if what == "line" else obj.shells
        if isinstance(src, symnp.SArr):
            return [_zr(v) for v in src.flat_list()]
        out = []
        for seg in src:
            out += [_zr(v) for v in symnp.asarray(seg).flat_list()]
        return out

    def run(ctx, inp):
        lon, lat, new = inp
        sc.NL_UF[0] = True
        symnp.SQRT_MODE[0] = "uf"
        undo = stubs.install(world())
        try:
            g = build(lon, lat, C.clone_grid_from)
            c = g.copy()
            tgt, other = (g, c) if side == "orig" else (c, g)
            tgt.node_lon = symxr.DataArray(C.sarr_1d(new, symnp.float64), dims=["n_node"])
            e_t = export(tgt)
            e_o = export(other)
            fresh = export(build(lon, lat, C.clone_grid_from))
            ctx.prove("the two exports are distinct objects", e_t is not e_o)
            a, b = flat(e_o), flat(fresh)
            ctx.prove(f"the {'copy' if side == 'orig' else 'original'}'s export is built from its own coordinates (equals the export of a fresh grid with the unchanged coordinates)",
                      z3.And(z3.BoolVal(len(a) == len(b) and len(a) > 0), *[x == y for x, y in zip(a, b)]))
        finally:
            undo()
            symnp.SQRT_MODE[0] = "witness"

    def replay(v):
        import xarray as xr
        g = build(v["lon"], v["lat"], C.real_grid_from)
        c = g.copy()
        tgt, other = (g, c) if side == "orig" else (c, g)
        tgt.node_lon = xr.DataArray(np.array(v["new"], dtype=float), dims=["n_node"])
        get = (lambda gr: [np.asarray(s_) for s_ in gr.to_linecollection(periodic_elements="ignore").get_segments()]) if what == "line" else \
              (lambda gr: [np.asarray(p.vertices) for p in _first(gr.to_polycollection(periodic_elements="ignore")).get_paths()])
        get(tgt)
        got = get(other)
        want = get(build(v["lon"], v["lat"], C.real_grid_from))
        if len(got) != len(want) or any(a.shape != b.shape or not np.allclose(a, b, atol=1e-5) for a, b in zip(got, want)):
            return (f"copy(), node_lon of the {'original' if side == 'orig' else 'copy'} set to {v['new']}, exported, then the other grid exported with the same arguments: "
                    f"its {'line' if what == 'line' else 'polygon'} collection is not the one of its own coordinates (first element {got[0].tolist() if got else None} vs {want[0].tolist() if want else None})")
        return None

    return Obligation(oid, f"copy(): exports ({what} collection) of the two grids are independent after a setter on the {side}", setup, run, replay, exact=False,
                      functions=["Grid.copy", "Grid.node_lon setter", "Grid.to_linecollection", "Grid.to_polycollection"],
                      bounds="2 faces over 5 nodes with symbolic coordinates; periodic_elements='ignore'", stubs=["matplotlib collections -> recording stubs"])


def make_copy(oid, mutator, side):
    """side: which grid is mutated ('orig' or 'copy'); the other one is observed"""
    def setup(ctx):
        ctx.const("mutator", mutator); ctx.const("side", side)
        lon = _reals(ctx, "lon", N_NODE, -180, 180)
        lat = _reals(ctx, "lat", N_NODE, -90, 90)
        new = _reals(ctx, "new", N_NODE, -180, 180)
        r = _reals(ctx, "r", N_NODE, 2, 9)
        flon = _reals(ctx, "flon", N_FACE, -180, 180)
        return lon, lat, new, r, flon

    from fractions import Fraction as Fr
    UN = [(Fr(3, 5), Fr(4, 5), Fr(0)), (Fr(0), Fr(5, 13), Fr(12, 13)), (Fr(2, 3), Fr(1, 3), Fr(2, 3)), (Fr(-2, 7), Fr(3, 7), Fr(6, 7)), (Fr(1, 9), Fr(-4, 9), Fr(8, 9))]

    def build(lon, lat, r, flon, cl, sym):
        vars_ = {"node_lon": (["n_node"], lon), "node_lat": (["n_node"], lat), "face_node_connectivity": (["n_face", "n_max_face_nodes"], ROWS, C.FN_ATTRS)}
        if mutator == "normalize":
            for a, nm in enumerate(("node_x", "node_y", "node_z")):
                vars_[nm] = (["n_node"], [(r[i] * z3.RealVal(str(UN[i][a]))) if sym else float(r[i]) * float(UN[i][a]) for i in range(N_NODE)])
        if mutator == "face_centers":
            vars_["face_lon"] = (["n_face"], flon)
            vars_["face_lat"] = (["n_face"], [5.0, -5.0])
        return cl(vars_)

    def mutate(g, new, DA, arr):
        if mutator == "setter":
            g.node_lon = DA(arr(new), dims=["n_node"])
        elif mutator == "normalize":
            g.normalize_cartesian_coordinates()
        elif mutator == "face_centers":
            g.construct_face_centers()
        elif mutator == "lazy+setter":
            g.edge_node_connectivity
            g.node_lat = DA(arr(new), dims=["n_node"])
        elif mutator == "inplace":
            # writes through the arrays the grid hands out (connectivity entry, one longitude)
            g.face_node_connectivity.values[0, 0] = 4
            g.node_lon.values[1] = new[0] if not isinstance(new[0], z3.ExprRef) else mk(new[0])

    OBS = {"inplace": ["face_node_connectivity", "node_lon"], "setter": ["node_lon", "node_lat"], "normalize": ["node_x", "node_y", "node_z"], "face_centers": ["face_lon", "face_lat"], "lazy+setter": ["node_lat", "node_lon"]}

    def run(ctx, inp):
        lon, lat, new, r, flon = inp
        sc.NL_UF[0] = True            # aliasing question: arithmetic is irrelevant, keep the queries linear
        symnp.SQRT_MODE[0] = "uf"
        try:
            return run_(ctx, lon, lat, new, r, flon)
        finally:
            symnp.SQRT_MODE[0] = "witness"

    def run_(ctx, lon, lat, new, r, flon):
        g = build(lon, lat, r, flon, C.clone_grid_from, True)
        c = g.copy()
        ctx.prove("copy() is a distinct Grid object that equals the original", sc.and_(c is not g, c == g))
        tgt, other = (g, c) if side == "orig" else (c, g)
        before = {n: [_zr(v) for v in getattr(other, n).values.flat_list()] for n in OBS[mutator]}
        mutate(tgt, new, symxr.DataArray, lambda v: C.sarr_1d(v, symnp.float64))
        for n in OBS[mutator]:
            after = [_zr(v) for v in getattr(other, n).values.flat_list()]
            ctx.prove(f"{n} of the {'copy' if side == 'orig' else 'original'} is unchanged after {mutator} on the {'original' if side == 'orig' else 'copy'}",
                      _same(after, before[n]), regions={"copy_shares_dataset": True})

    def replay(v):
        import xarray as xr
        g = build(v["lon"], v["lat"], v["r"], v["flon"], C.real_grid_from, False)
        c = g.copy()
        if c is g or not (c == g):
            return "copy() is not an equal, distinct grid"
        tgt, other = (g, c) if side == "orig" else (c, g)
        before = {n: np.array(getattr(other, n).values, copy=True) for n in OBS[mutator]}
        mutate(tgt, v["new"], xr.DataArray, lambda x: np.array(x, dtype=float))
        for n in OBS[mutator]:
            after = np.asarray(getattr(other, n).values)
            if after.shape != before[n].shape or not np.allclose(after, before[n], rtol=0, atol=1e-12):
                return f"after {mutator} on the {'original' if side == 'orig' else 'copy'}, {n} of the other grid changed: {before[n].tolist()} -> {after.tolist()}"
        return None

    return Obligation(oid, f"copy(): {mutator} applied to the {side} does not change the other grid", setup, run, replay, exact=True,
                      functions=["Grid.copy", "Grid.__init__", "Grid.<property setters>", "Grid.normalize_cartesian_coordinates", "Grid.construct_face_centers",
                                 "coordinates._populate_face_centroids"],
                      bounds="2 faces over 5 nodes, coordinates symbolic", stubs=["sqrt as witness"], timeout_s=900, query_timeout_s=120)


# ------------------------------------------------------------------ exports
def make_export(oid, edit, history):
    def setup(ctx):
        ctx.const("edit", edit); ctx.const("history", history)
        lon = _reals(ctx, "lon", N_NODE, -180, 180)
        lat = _reals(ctx, "lat", N_NODE, -90, 90)
        new = _reals(ctx, "new", 1, -180, 180)
        return lon, lat, new

    def vars_(lon, lat):
        v = {"node_lon": (["n_node"], lon), "node_lat": (["n_node"], lat), "face_node_connectivity": (["n_face", "n_max_face_nodes"], ROWS, C.FN_ATTRS)}
        if history == "with_topology_var":
            v["grid_topology"] = ([], symnp.array(0) if not isinstance(lon[0], float) else 0, {"cf_role": "mesh_topology", "topology_dimension": 2,
                                                                                            "node_coordinates": "node_lon node_lat", "face_node_connectivity": "face_node_connectivity"})
        return v

    def do_edit(out, new, is_sym):
        if edit == "values_inplace":
            out["node_lon"].values[0] = new[0] if not is_sym else mk(new[0])
        elif edit == "drop_var":
            del out["node_lat"]
        elif edit == "attrs":
            out["face_node_connectivity"].attrs["start_index"] = 7
            out.attrs["edited"] = True
        elif edit == "conn_inplace":
            out["face_node_connectivity"].values[0, 0] = 3

    def run(ctx, inp):
        lon, lat, new = inp
        g = C.clone_grid_from(vars_(lon, lat))
        if history == "edges_first":
            g.edge_node_connectivity
        before = ([_zr(x) for x in g.node_lon.values.flat_list()], [sc.z(x) for x in g.face_node_connectivity.values.flat_list()],
                  dict(g.face_node_connectivity.attrs), "node_lat" in g._ds, dict(g._ds.attrs))
        out = g.to_xarray("ugrid")
        do_edit(out, new, True)
        after = ([_zr(x) for x in g.node_lon.values.flat_list()], [sc.z(x) for x in g.face_node_connectivity.values.flat_list()],
                 dict(g.face_node_connectivity.attrs), "node_lat" in g._ds, dict(g._ds.attrs))
        ctx.prove("editing the dataset returned by to_xarray('ugrid') does not change what the Grid reports",
                  sc.and_(_same(after[0], before[0]), z3.And(*[a == b for a, b in zip(after[1], before[1])]), after[2] == before[2], after[3] == before[3], after[4] == before[4]),
                  regions={"to_xarray_returns_internal_dataset": True})

    def replay(v):
        v_ = vars_([float(x) for x in v["lon"]], [float(x) for x in v["lat"]])
        g = C.real_grid_from(v_)
        if history == "edges_first":
            g.edge_node_connectivity
        before = (g.node_lon.values.copy(), g.face_node_connectivity.values.copy(), dict(g.face_node_connectivity.attrs), sorted(g._ds.variables), dict(g._ds.attrs))
        out = g.to_xarray("ugrid")
        do_edit(out, v["new"], False)
        after = (g.node_lon.values, g.face_node_connectivity.values, dict(g.face_node_connectivity.attrs), sorted(g._ds.variables), dict(g._ds.attrs))
        if not (np.array_equal(before[0], after[0]) and np.array_equal(before[1], after[1]) and before[2] == after[2] and ("node_lat" in after[3]) and before[4] == after[4]):
            return f"after the caller edit '{edit}' of the dataset returned by to_xarray('ugrid') (history {history}) the grid reports node_lon {after[0].tolist()} (was {before[0].tolist()}), attrs {after[2]}, variables {after[3]}"
        return None

    return Obligation(oid, f"to_xarray('ugrid') result edited by the caller ({edit}; history {history})", setup, run, replay, exact=True,
                      functions=["Grid.to_xarray", "_ugrid._encode_ugrid"], bounds="2 faces over 5 nodes; edits: in-place value, in-place connectivity, attribute, variable deletion")


def make_export_fmt(oid, fmt, history):
    """to_xarray(<fmt>) followed by an in-place overwrite of EVERY array of the returned dataset (and an attribute edit):
    the Grid must report what it reported before"""
    def setup(ctx):
        ctx.const("fmt", fmt); ctx.const("history", history)
        lon = _reals(ctx, "lon", N_NODE, -180, 180)
        lat = _reals(ctx, "lat", N_NODE, -90, 90)
        area = _reals(ctx, "area", N_FACE, sc.lift(1e-9), 13)
        new = _reals(ctx, "new", 1, -180, 180)
        return lon, lat, area, new

    OBS = ("node_lon", "node_lat", "face_node_connectivity", "face_areas", "node_x", "face_lon", "edge_node_connectivity")

    def observe(g):
        out = {}
        for nm in OBS:
            if nm in g._ds:
                out[nm] = ([_zr(x) for x in g._ds[nm].values.flat_list()], dict(g._ds[nm].attrs))
        return out, sorted(g._ds._vars), dict(g._ds.attrs)

    def run(ctx, inp):
        lon, lat, area, new = inp
        old = sc.NL_UF[0]
        sc.NL_UF[0] = True
        try:
            g = C.clone_grid_from({"node_lon": (["n_node"], lon), "node_lat": (["n_node"], lat), "face_node_connectivity": (["n_face", "n_max_face_nodes"], ROWS, C.FN_ATTRS)})
            g._ds["face_areas"] = symxr.DataArray(C.sarr_1d(area, symnp.float64), dims=["n_face"])      # quadrature is C05's subject
            if history == "derived":
                g.edge_node_connectivity, g.node_x, g.face_lon
            before = observe(g)
            out = g.to_xarray(fmt)
            n_written = 0
            for name in list(out._vars):
                arr = out[name].values
                if isinstance(arr, symnp.SArr) and all(d > 0 for d in arr.shape_cap):
                    flat_idx = (0,) * len(arr.shape_cap)
                    val = 3 if (arr.dtype.kind in "iub") else mk(new[0])
                    if flat_idx:
                        arr[flat_idx] = val
                        n_written += 1
                out[name].attrs["edited_by_caller"] = 1
            out.attrs["edited_by_caller"] = 1
            ctx.prove("harness: the export holds arrays to edit", n_written >= 3)
            after = observe(g)
            cl = [after[1] == before[1], after[2] == before[2], sorted(after[0]) == sorted(before[0])]
            for nm in before[0]:
                if nm in after[0]:
                    cl += [_same(after[0][nm][0], before[0][nm][0]), after[0][nm][1] == before[0][nm][1], len(after[0][nm][0]) == len(before[0][nm][0])]
            ctx.prove(f"overwriting every array and attribute dictionary of the dataset returned by to_xarray('{fmt}') does not change what the Grid reports "
                      "(coordinates, connectivity, face areas, derived variables, attributes)", sc.and_(*cl))
        finally:
            sc.NL_UF[0] = old

    def replay(v):
        import xarray as xr
        lon, lat = [float(x) for x in v["lon"]], [float(x) for x in v["lat"]]
        for use_model in (True, False):
            lo, la = (lon, lat) if use_model else C.default_lonlat(N_NODE)
            g = C.real_grid(ROWS, lo, la)
            g._ds["face_areas"] = xr.DataArray(np.array([float(x) for x in v["area"]]), dims=["n_face"])
            if history == "derived":
                g.edge_node_connectivity, g.node_x, g.face_lon
            names = [nm for nm in ("node_lon", "node_lat", "face_node_connectivity", "face_areas", "node_x", "face_lon", "edge_node_connectivity") if nm in g._ds]
            before = {nm: (np.array(g._ds[nm].values, copy=True), dict(g._ds[nm].attrs)) for nm in names}
            bvars, battrs = sorted(g._ds.variables), dict(g._ds.attrs)
            try:
                out = g.to_xarray(fmt)
            except Exception as e:
                if use_model:
                    continue
                return f"to_xarray('{fmt}') raised {type(e).__name__}: {str(e)[:120]}"
            for name in list(out.variables):
                arr = out[name].values
                if isinstance(arr, np.ndarray) and arr.size and arr.flags.writeable:
                    arr[(0,) * arr.ndim] = 3 if arr.dtype.kind in "iub" else float(v["new"][0])
                out[name].attrs["edited_by_caller"] = 1
            out.attrs["edited_by_caller"] = 1
            if sorted(g._ds.variables) != bvars or dict(g._ds.attrs) != battrs:
                return f"after editing the dataset returned by to_xarray('{fmt}') the grid's variables/attributes changed: {sorted(g._ds.variables)} {dict(g._ds.attrs)}"
            for nm in names:
                now = np.asarray(g._ds[nm].values)
                if now.shape != before[nm][0].shape or not np.array_equal(now, before[nm][0], equal_nan=True) or dict(g._ds[nm].attrs) != before[nm][1]:
                    return (f"the caller overwrote element 0 of every array of the dataset returned by to_xarray('{fmt}') (history {history}): the grid now reports "
                            f"{nm} = {now.tolist()} (was {before[nm][0].tolist()}), attrs {dict(g._ds[nm].attrs)}")
        return None

    return Obligation(oid, f"to_xarray('{fmt}') result overwritten by the caller (history {history})", setup, run, replay, exact=False,
                      functions=["Grid.to_xarray", "_scrip._encode_scrip", "_scrip.grid_center_lat_lon", "_exodus._encode_exodus", "_ugrid._encode_ugrid"],
                      stubs=["face_areas supplied as arbitrary positive reals (C05)", "trig / products uninterpreted (only identity of values matters)"],
                      bounds="2 faces over 5 nodes, all positions and areas symbolic; edit = element 0 of every exported array + an attribute on every exported variable and on the dataset",
                      timeout_s=600, query_timeout_s=200)


def make_export_cached(oid, what):
    """the caller edits the object handed out by to_geodataframe() / to_linecollection(); a later call with the same arguments must not show the edit"""
    from . import stubs
    PE = ["exclude", "split", "ignore"]

    def setup(ctx):
        ctx.const("what", what)
        lon = _reals(ctx, "lon", N_NODE, -170, 170)
        lat = _reals(ctx, "lat", N_NODE, -80, 80)
        return dict(lon=lon, lat=lat, pe=ctx.enum("periodic_elements", PE), cache=ctx.bool("cache_first_call"))

    def call(g, pe):
        return g.to_geodataframe(periodic_elements=pe) if what == "gdf" else g.to_linecollection(periodic_elements=pe)

    def run(ctx, inp):
        w = world()
        undo = stubs.install(w)
        old = sc.NL_UF[0]
        sc.NL_UF[0] = True
        try:
            g = C.clone_grid_from({"node_lon": (["n_node"], inp["lon"]), "node_lat": (["n_node"], inp["lat"]), "face_node_connectivity": (["n_face", "n_max_face_nodes"], ROWS, C.FN_ATTRS)})
            pe = inp["pe"].concrete()
            cache = bool(inp["cache"])
            first = g.to_geodataframe(periodic_elements=pe, cache=cache) if what == "gdf" else g.to_linecollection(periodic_elements=pe, cache=cache)
            if what == "gdf":
                first["caller_column"] = 1
            else:
                first.caller_edit = 1
                first.mutations.append(("caller", "set_linewidth"))
            second = call(g, pe)
            if what == "gdf":
                clean = "caller_column" not in second.columns
            else:
                clean = not hasattr(second, "caller_edit") and ("caller", "set_linewidth") not in second.mutations
            ctx.prove(f"an edit of the object handed out by the first call is not visible in what the next call (same arguments) hands out",
                      clean, regions={"cached_object_handed_out": cache}, note=f"periodic_elements={pe} cache={cache}")
        finally:
            sc.NL_UF[0] = old
            undo()

    def replay(v):
        lon, lat = [float(x) for x in v["lon"]], [float(x) for x in v["lat"]]
        pe, cache = PE[int(v["periodic_elements"])], bool(v["cache_first_call"])
        for lo, la in ((lon, lat), C.default_lonlat(N_NODE)):
            try:
                g = C.real_grid(ROWS, lo, la)
                if what == "gdf":
                    first = g.to_geodataframe(periodic_elements=pe, cache=cache)
                    first["caller_column"] = 1
                    second = g.to_geodataframe(periodic_elements=pe)
                    if "caller_column" in second.columns:
                        return f"to_geodataframe(periodic_elements='{pe}', cache={cache}) handed out the Grid's cached frame: after the caller added a column, the next to_geodataframe() reports columns {list(second.columns)}"
                else:
                    first = g.to_linecollection(periodic_elements=pe, cache=cache)
                    first.set_linewidth(7.5)
                    second = g.to_linecollection(periodic_elements=pe)
                    if list(np.atleast_1d(second.get_linewidth())) == [7.5]:
                        return f"to_linecollection(periodic_elements='{pe}', cache={cache}) handed out the Grid's cached collection: after the caller's set_linewidth(7.5) the next to_linecollection() has linewidth {second.get_linewidth()}"
            except Exception:      # noqa: BLE001  (degenerate model polygons: try the default positions)
                continue
        return None

    return Obligation(oid, f"caller edit of the object returned by {'to_geodataframe' if what == 'gdf' else 'to_linecollection'} vs the next call", setup, run, replay, exact=False,
                      functions=["Grid.to_geodataframe", "Grid.to_linecollection", "geometry._grid_to_polygon_geodataframe", "geometry._grid_to_matplotlib_linecollection"],
                      stubs=["matplotlib / shapely / spatialpandas recording stubs (props/stubs.py)"],
                      bounds="2 faces over 5 nodes, positions symbolic, periodic_elements and the cache flag of the first call symbolic")


def obligations(tier):
    obs = [make_inputs_topo(f"C19.inputs.topo.{c}", c) for c in ("none", "minus1", "std")]
    obs += [make_inputs_ugrid("C19.inputs.ugrid.int64.std.si1", "int64", "std", 1), make_inputs_ugrid("C19.inputs.ugrid.int64.minus1.si0", "int64", "minus1", 0),
            make_inputs_ugrid("C19.inputs.ugrid.int32.minus1.si1", "int32", "minus1", 1)]
    obs += [make_inputs_internal("C19.inputs.internal.from_dataset_spec", "from_dataset_spec"), make_inputs_internal("C19.inputs.internal.init", "init")]
    obs += [make_copy(f"C19.copy.{m.replace('+', '_')}.{s}", m, s) for m in ("setter", "normalize", "face_centers", "lazy+setter", "inplace") for s in ("orig", "copy")]
    obs += [make_copy_export("C19.copy.export.line.orig", "orig", "line"), make_copy_export("C19.copy.export.poly.copy", "copy", "poly")]
    obs += [make_export(f"C19.export.{e}.{h}", e, h) for e in ("values_inplace", "drop_var", "attrs", "conn_inplace") for h in ("fresh", "with_topology_var")]
    obs += [make_export("C19.export.values_inplace.edges_first", "values_inplace", "edges_first")]
    obs += [make_export_cached("C19.export.cached.gdf", "gdf"), make_export_cached("C19.export.cached.line", "line")]
    obs += [make_export_fmt(f"C19.export.{f}.all_arrays.{h}", f, h) for f in ("ugrid", "scrip", "exodus") for h in ("fresh", "derived")]
    return [o for o in obs if tier in o.tiers]
