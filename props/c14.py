"""C14 Arc predicates and intersections agree with exact spherical geometry  (DESIGN.md section 2, C14).

(K2) the real decision logic of arcs._point_within_gca_body (+ in_between, _decide_pole_latitude), executed on symbolic real
(lon, lat) triples with the great-circle plane test as an assumption, against the exact lon/lat characterisation of a
minor arc (generic arcs incl. those wrapping through lon = 0, meridian arcs, arcs through a pole).
(data flow) the real extreme_gca_latitude with products/trig uninterpreted: which endpoint values reach the result, endpoint
vs interior candidate selection; (nlsat) the stationarity identity of the interior candidate in polynomial arithmetic (the
value-level 1-2 parameter formulations did not finish and were dropped).
(data flow) gca_gca_intersection with point_within_gca as an abstract predicate.
Outside (stated): whether float64 rounding keeps the plane test within MACHINE_EPSILON; collinear arcs."""
import math
from fractions import Fraction as Fr
import z3
import numpy as np
from symex import core as sc, symnp
from symex.core import mk
from symex.runner import Obligation, world

PI = math.pi
M = 1e-6
NEAR = 1e-10       # rounding of a computed point's longitude (arctan2 of an intersection point)
FUNCS = ["arcs._point_within_gca_body", "arcs.in_between", "arcs._decide_pole_latitude", "arcs.point_within_gca (replay)", "arcs.extreme_gca_latitude"]


def _body_fn():
    """cloned _point_within_gca_body with the Cartesian plane test abstracted: angle and dot are harness inputs"""
    w = world()
    g = w.G["uxarray.grid.arcs"]
    return g


def _ll_to_xyz(lon, lat):
    return np.array([math.cos(lat) * math.cos(lon), math.cos(lat) * math.sin(lon), math.sin(lat)])


def _exact_on_arc(a, b, p, tol=1e-9):
    """exact-geometry oracle in Cartesian terms (independent of the lon/lat logic): p on the minor arc a-b"""
    n = np.cross(a, b)
    if abs(np.dot(n, p)) > 1e-9:
        return False
    # p between a and b: angles add up
    ang = lambda u, v: math.atan2(np.linalg.norm(np.cross(u, v)), np.dot(u, v))     # noqa: E731
    return abs(ang(a, p) + ang(p, b) - ang(a, b)) < 1e-7


def make_pwg(oid, case, directed=False, tiers=("quick", "thorough")):
    def setup(ctx):
        ctx.const("case", case); ctx.const("directed", directed)
        l0, l1, lp = (ctx.real(n, 0, 2 * PI - 1e-3) for n in ("lon0", "lon1", "lonp"))
        p0, p1, pp = (ctx.real(n, -PI / 2 + 1e-3, PI / 2 - 1e-3) for n in ("lat0", "lat1", "latp"))
        z = sc.z
        dl = z3.If(z(l1) >= z(l0), z(l1) - z(l0), z(l0) - z(l1))
        if case == "generic":
            # not a meridian arc, not through a pole, with margin; the point is not at an endpoint longitude
            ctx.assume(dl > M, z3.Or(dl < PI - M, dl > PI + M))
            for l in (l0, l1):
                ctx.assume(z3.Or(z(lp) - z(l) > M, z(l) - z(lp) > M))
            if directed:
                ctx.assume(dl < PI - M)
        elif case == "meridian":
            ctx.assume(z(l0) == z(l1), z3.Or(z(p0) - z(p1) > M, z(p1) - z(p0) > M))
            # the query longitude is either that of the arc up to rounding of a computed point (1e-10 rad) or clearly different
            ctx.assume(z3.Or(z3.And(z(lp) - z(l0) <= sc.lift(NEAR), z(l0) - z(lp) <= sc.lift(NEAR)), z(lp) - z(l0) > M, z(l0) - z(lp) > M))
            for p in (p0, p1):
                ctx.assume(z3.Or(z(pp) - z(p) > M, z(p) - z(pp) > M))
        elif case == "pole":
            # |dlon| = pi exactly: the arc runs over a pole; the point is on one of the two meridians (plane test) and away from the ends
            ctx.assume(dl == sc.lift(PI), z3.Or(z(lp) == z(l0), z(lp) == z(l1)))
            ctx.assume(z3.Or(z(p0) + z(p1) > M, z(p0) + z(p1) < -M))
            for p in (p0, p1):
                ctx.assume(z3.Or(z(pp) - z(p) > M, z(p) - z(pp) > M))
        return l0, l1, lp, p0, p1, pp

    def spec(l0, l1, lp, p0, p1, pp):
        z = sc.z
        l0, l1, lp, p0, p1, pp = (z(x) for x in (l0, l1, lp, p0, p1, pp))
        lo, hi = z3.If(l0 <= l1, l0, l1), z3.If(l0 <= l1, l1, l0)
        if case == "generic":
            return z3.If(hi - lo < PI, z3.And(lp >= lo, lp <= hi), z3.Or(lp >= hi, lp <= lo))
        if case == "meridian":
            return z3.And(lp - l0 <= sc.lift(NEAR), l0 - lp <= sc.lift(NEAR), z3.Or(z3.And(p0 <= pp, pp <= p1), z3.And(p1 <= pp, pp <= p0)))
        north = p0 + p1 > 0
        return z3.If(north, z3.Or(z3.And(lp == l0, pp >= p0), z3.And(lp == l1, pp >= p1)),
                     z3.Or(z3.And(lp == l0, pp <= p0), z3.And(lp == l1, pp <= p1)))

    def run(ctx, inp):
        l0, l1, lp, p0, p1, pp = inp
        g = _body_fn()
        saved = {k: g[k] for k in ("_angle_of_2_vectors", "cross", "dot")}
        ang = ctx.real("angle", M, PI - M)
        g["_angle_of_2_vectors"] = lambda u, v: ang
        g["cross"] = lambda a, b: symnp.array([0.0, 0.0, 0.0])
        g["dot"] = lambda a, b: 0.0                       # the point is on the arc's great circle (assumption of this obligation)
        try:
            A = lambda a, b: symnp.SArr.new([a, b], (2,), None, symnp.float64)       # noqa: E731
            raised = False
            try:
                out = g["_point_within_gca_body"](None, [symnp.array([1.0, 0, 0]), symnp.array([0, 1.0, 0])], symnp.array([0.0, 0, 1.0]),
                                                  A(l0, p0), A(l1, p1), A(lp, pp), directed)
            except ValueError:
                raised = True
        finally:
            g.update(saved)
        ctx.prove("no exception for arcs shorter than 180 degrees", not raised)
        if raised:
            return
        o = out if isinstance(out, bool) else sc.z(out)
        want = spec(l0, l1, lp, p0, p1, pp)
        ctx.prove("on-arc verdict = exact geometry (point on the great circle is on the minor arc iff it lies between the endpoints)",
                  (z3.BoolVal(o) if isinstance(o, bool) else o) == want, regions={"pole_branch_ignores_meridian": case == "pole"})
        ctx.reachable("a point on the arc", want)
        ctx.reachable("a point off the arc", z3.Not(want))

    def replay(v):
        from uxarray.grid.arcs import point_within_gca
        if case == "meridian" and 0 < abs(v["lonp"] - v["lon0"]) <= 2 * NEAR:
            # a longitude off by rounding only is what a COMPUTED point has: take the intersection of the meridian arc with a crossing arc
            from uxarray.grid.intersections import gca_gca_intersection
            lo_, hi_ = sorted((v["lat0"], v["lat1"]))
            if hi_ - lo_ < 0.05 or max(abs(lo_), abs(hi_)) > 1.3:
                lo_, hi_ = 0.1, 0.3          # a degenerate model span tells nothing about computed points: use an ordinary arc
            for lon in (v["lon0"], math.radians(20.0), math.radians(45.0), math.radians(-100.0) % (2 * PI)):
                for frac in (0.5, 0.25, 0.8):
                    lat = lo_ + frac * (hi_ - lo_)
                    for h in (math.radians(3.0), math.radians(0.3), math.radians(0.003)):
                        if hi_ - lo_ < 4 * M or abs(lat) > 1.4:
                            continue
                        crs = np.array([_ll_to_xyz(lon - h, lat), _ll_to_xyz(lon + h, lat)])
                        for m0, m1 in ((lo_, hi_), (lat - h, lat + h)):          # the model's meridian arc, and a short one around the crossing
                            mer = np.array([_ll_to_xyz(lon, m0), _ll_to_xyz(lon, m1)])
                            got = np.asarray(gca_gca_intersection(mer, crs)).reshape(-1, 3)
                            if len(got) != 1:
                                return (f"meridian arc lon {math.degrees(lon):.4f} lat [{math.degrees(m0):.4f},{math.degrees(m1):.4f}] deg crossed at lat {math.degrees(lat):.4f} by an arc of half-length "
                                        f"{math.degrees(h)} deg: gca_gca_intersection returned {len(got)} points (the computed point's longitude differs from the arc's by rounding only and is rejected)")
            return None
        if case in ("pole", "meridian"):
            # rotate about the polar axis so that the arc lies in the plane y = 0 (replay-friendly: the plane test is then exactly 0
            # in float64); the property holds for the rotated configuration just the same
            def vec(lon_is_first, lat):
                return np.array([(1.0 if lon_is_first else -1.0) * math.cos(lat), 0.0, math.sin(lat)])
            same = lambda x, y: abs(((x - y + PI) % (2 * PI)) - PI) < 1e-9       # noqa: E731
            a = vec(True, v["lat0"])
            b = vec(same(v["lon1"], v["lon0"]), v["lat1"])
            if not (same(v["lonp"], v["lon0"]) or same(v["lonp"], v["lon1"])):
                return None
            p = vec(same(v["lonp"], v["lon0"]), v["latp"])
        else:
            a, b, p = _ll_to_xyz(v["lon0"], v["lat0"]), _ll_to_xyz(v["lon1"], v["lat1"]), None
            n = np.cross(a, b)
            n /= np.linalg.norm(n)
            # realise the model's query longitude on the great circle: intersect its meridian plane with the circle
            m = np.array([-math.sin(v["lonp"]), math.cos(v["lonp"]), 0.0])
            d = np.cross(n, m)
            if np.linalg.norm(d) < 1e-9:
                return None
            d /= np.linalg.norm(d)
            lon_d = math.atan2(d[1], d[0]) % (2 * PI)
            p = d if abs(((lon_d - v["lonp"] + PI) % (2 * PI)) - PI) < 1e-6 else -d
            if abs(np.dot(np.cross(a, b), p)) > 1e-17:
                return None            # rounding puts the point outside the plane test's tolerance: outside the claim
        try:
            got = bool(point_within_gca(p, np.array([a, b]), is_directed=directed))
        except ValueError as ex:
            return f"point_within_gca raised {ex!r} for an arc shorter than 180 degrees"
        exp = _exact_on_arc(a, b, p)
        if got != exp:
            f = lambda x: [round(math.degrees(t), 6) for t in x]        # noqa: E731
            ll = lambda q: [math.atan2(q[1], q[0]) % (2 * PI), math.asin(max(-1, min(1, q[2])))]      # noqa: E731
            return (f"point_within_gca: arc (lon,lat) {f(ll(a))} -> {f(ll(b))}, point on its great circle at {f(ll(p))}: returned {got}, exact geometry says {exp}")
        return None

    return Obligation(oid, f"point_within_gca decision logic, {case} arcs, is_directed={directed}", setup, run, replay, exact=False, functions=FUNCS,
                      bounds="all (lon, lat) of the two endpoints and the query point with a 1e-6 rad margin from every decision boundary; plane test assumed satisfied",
                      stubs=["plane test (cross/dot) and arc angle abstracted to symbolic inputs"], tiers=tiers, max_paths=5000)


# ------------------------------------------------------------------ extreme_gca_latitude
def make_extreme(oid, kind, tiers=("quick", "thorough")):
    """data-flow obligation in algebra-free mode (products/quotients uninterpreted): the interior candidate handed to the
    normalisation is (1-d) n1 + d n2 with d the closed-form parameter, it is evaluated iff 0 < d < 1, and the result is the
    max/min over arcsin(z) of the endpoints and of the candidate.  The value-level statement 'd is the stationary point of the
    latitude along the chord' is the separate NRA obligation C14.extreme.stationary."""
    def setup(ctx):
        ctx.const("kind", kind)
        n = [[ctx.real(f"n{i}_{c}", -1, 1) for c in "xyz"] for i in (1, 2)]
        return n

    def run(ctx, n):
        sc.NL_UF[0] = True
        symnp.SQRT_MODE[0] = "uf"
        g = world().G["uxarray.grid.arcs"]
        n1, n2 = [[sc.z(x) for x in r] for r in n]
        V = lambda v: symnp.SArr.new([mk(x) for x in v], (3,), None, symnp.float64)    # noqa: E731
        normed = []
        saved = g["_normalize_xyz_scalar"], g["_xyz_to_lonlat_rad_scalar"]

        def norm_rec(x, y, zc):
            normed.append([sc.z(x), sc.z(y), sc.z(zc)])
            r = symnp.uf("norm3", 3)(sc.z(x), sc.z(y), sc.z(zc))
            return mk(sc.zdiv(sc.z(x), r)), mk(sc.zdiv(sc.z(y), r)), mk(sc.zdiv(sc.z(zc), r))
        g["_normalize_xyz_scalar"] = norm_rec
        g["_xyz_to_lonlat_rad_scalar"] = lambda x, y, zc, normalize=True: (symnp.arctan2(y, x), symnp.arcsin(zc))
        try:
            out = g["extreme_gca_latitude"]([V(n1), V(n2)], kind)
        finally:
            g["_normalize_xyz_scalar"], g["_xyz_to_lonlat_rad_scalar"] = saved
            symnp.SQRT_MODE[0] = "witness"
        dotn = z3.Sum([sc.zmul(a, b) for a, b in zip(n1, n2)])
        den = sc.zmul(n1[2] + n2[2], dotn - 1)
        d = sc.zdiv(sc.zmul(n1[2], dotn) - n2[2], den)
        tol = sc.lift(1e-8)
        # the library clips d to 0 / 1 when it is within 1e-8 of them
        near0, near1 = z3.And(d >= -tol, d <= tol), z3.And(d - 1 >= -(tol + sc.lift(1e-5)), d - 1 <= tol + sc.lift(1e-5))
        asin = symnp.uf("arcsin")
        lat1, lat2 = asin(n1[2]), asin(n2[2])
        zmax = lambda a, b: z3.If(a >= b, a, b)     # noqa: E731
        zmin = lambda a, b: z3.If(a <= b, a, b)     # noqa: E731
        pick = zmax if kind == "max" else zmin
        if normed:
            cand = [sc.zmul(1 - d, a) + sc.zmul(d, b) for a, b in zip(n1, n2)]
            ctx.prove("the interior candidate is the chord point (1-d) n1 + d n2 at the closed-form parameter d, and is evaluated only for 0 < d < 1",
                      z3.And(*[x == y for x, y in zip(normed[-1], cand)], d > 0, d < 1))
            r = symnp.uf("norm3", 3)(*cand)
            zc = sc.zdiv(cand[2], r)
            clipped = z3.If(zc < -1, z3.RealVal(-1), z3.If(zc > 1, z3.RealVal(1), zc))
            ctx.prove(f"result = {kind} of the latitudes of both endpoints and of the normalised candidate", sc.z(out) == pick(pick(asin(clipped), lat1), lat2))
        else:
            ctx.prove("without an interior candidate (d outside (0,1), up to the 1e-8 snap) the result is the endpoint extreme",
                      z3.And(sc.z(out) == pick(lat1, lat2), z3.Or(d <= tol, d >= 1 - tol - sc.lift(1e-5), near0, near1)))
        ctx.reachable("path")

    def replay(v):
        from uxarray.grid.arcs import extreme_gca_latitude
        # the model's endpoints are arbitrary reals (products are uninterpreted): use well-separated unit vectors derived from them
        def unit(r, fallback):
            a = np.array([float(x) for x in r])
            return a / np.linalg.norm(a) if np.linalg.norm(a) > 1e-3 else np.array(fallback)
        cases = [(unit(v["n1_x"] if False else [v[f"n1_{c}"] for c in "xyz"], [0.6, 0.0, 0.8]), unit([v[f"n2_{c}"] for c in "xyz"], [0.0, 0.6, 0.8]))]
        lat = lambda d: math.radians(d)    # noqa: E731
        for (lo1, la1, lo2, la2) in [(0, 10, 120, 60), (10, 40, 75, 45), (-30, -50, 60, -20), (0, 0, 90, 0), (20, 70, 200, 75), (5, -10, 100, 30)]:
            cases.append((np.array([math.cos(lat(la1)) * math.cos(lat(lo1)), math.cos(lat(la1)) * math.sin(lat(lo1)), math.sin(lat(la1))]),
                          np.array([math.cos(lat(la2)) * math.cos(lat(lo2)), math.cos(lat(la2)) * math.sin(lat(lo2)), math.sin(lat(la2))])))
        for a, b in cases:
            c = float(np.dot(a, b))
            if abs(c) > 0.999 or abs(a[2] + b[2]) < 0.01:
                continue
            got = extreme_gca_latitude(np.array([a, b]), kind)
            ts = np.linspace(0, 1, 20001)
            om = math.acos(max(-1, min(1, c)))
            pts = (np.sin((1 - ts) * om)[:, None] * a + np.sin(ts * om)[:, None] * b) / math.sin(om)
            la = np.arcsin(np.clip(pts[:, 2], -1, 1))
            exp = la.max() if kind == "max" else la.min()
            if abs(got - exp) > 1e-6:
                return f"extreme_gca_latitude({kind}) of arc {a.round(6).tolist()} -> {b.round(6).tolist()} = {math.degrees(got):.6f} deg, the arc's {kind} latitude is {math.degrees(exp):.6f} deg"
        return None

    return Obligation(oid, f"extreme_gca_latitude('{kind}'): which point's latitude is returned (data flow)", setup, run, replay, exact=False, functions=FUNCS,
                      bounds="endpoints symbolic; products/quotients/sqrt/arcsin uninterpreted (term-level claim); candidates judged by dense sampling of real arcs",
                      stubs=["_normalize_xyz_scalar -> recorder; endpoint latitudes = arcsin(z); algebra-free mode"], tiers=tiers, max_paths=400)


def make_stationary(oid):
    """NRA: the closed-form parameter d of extreme_gca_latitude is the stationary point of z(t)/|v(t)|, v(t) = (1-t) n1 + t n2, for unit n1, n2"""
    def setup(ctx):
        n = [[ctx.real(f"n{i}_{c}", -1, 1) for c in "xyz"] for i in (1, 2)]
        return n

    def run(ctx, n):
        n1, n2 = [[sc.z(x) for x in r] for r in n]
        for r in (n1, n2):
            ctx.assume(r[0] * r[0] + r[1] * r[1] + r[2] * r[2] == 1)
        g = world().G["uxarray.grid.arcs"]
        got = {}
        saved = g["isclose"], g["_xyz_to_lonlat_rad_scalar"]

        def spy(a, b, **kw):
            got.setdefault("d", a)
            raise _Stop()
        g["isclose"] = spy
        V = lambda v: symnp.SArr.new([mk(x) for x in v], (3,), None, symnp.float64)    # noqa: E731
        try:
            g["extreme_gca_latitude"]([V(n1), V(n2)], "max")
        except _Stop:
            pass
        finally:
            g["isclose"], g["_xyz_to_lonlat_rad_scalar"] = saved
        d = sc.z(got["d"])
        dot = n1[0] * n2[0] + n1[1] * n2[1] + n1[2] * n2[2]
        ctx.assume(dot < sc.lift(0.999), dot > sc.lift(-0.999), z3.Or(n1[2] + n2[2] > sc.lift(0.01), n1[2] + n2[2] < sc.lift(-0.01)))
        v = [(1 - d) * a + d * b for a, b in zip(n1, n2)]
        dv = [b - a for a, b in zip(n1, n2)]
        vv = v[0] * v[0] + v[1] * v[1] + v[2] * v[2]
        vdv = v[0] * dv[0] + v[1] * dv[1] + v[2] * dv[2]
        ctx.prove("d/dt [ z(t) / |v(t)| ] = 0 at t = d:  z'(d) |v|^2 - z(d) (v . v') = 0", dv[2] * vv - v[2] * vdv == 0, tactic="qfnra-nlsat")

    def replay(v):
        return None

    return Obligation(oid, "the closed-form parameter of extreme_gca_latitude is the stationary point of latitude along the chord (polynomial identity)", setup, run, replay,
                      exact=False, functions=["arcs.extreme_gca_latitude (d_a_max)"], bounds="all unit n1, n2 with |n1.n2| < 0.999 and |z1+z2| > 0.01", stubs=["z3 nlsat"],
                      timeout_s=900, query_timeout_s=300, tactic="qfnra-nlsat")


def make_intersect(oid):
    """gca_gca_intersection with point_within_gca as an abstract predicate W(point, arc) (decided by C14.pwg.*): the returned rows are
    exactly the candidates +-(n1 x n2)/|n1 x n2| that W accepts for BOTH arcs; n1, n2 the arcs' plane normals"""
    PWG = z3.Function("pwg", *([z3.RealSort()] * 9), z3.BoolSort())

    def setup(ctx):
        P = {k: [z3.Real(f"{k}_{c}") for c in "xyz"] for k in ("w0", "w1", "v0", "v1")}
        for k, v in P.items():
            for x in v:
                ctx.solver.add(x >= -1, x <= 1)
            ctx.eng.declare(k, v)
        return P

    def run(ctx, P):
        sc.NL_UF[0] = True
        old_sqrt, symnp.SQRT_MODE[0] = symnp.SQRT_MODE[0], "uf"
        w = world()
        gi = w.G["uxarray.grid.intersections"]
        calls = []

        def pwg_stub(pt, gca_cart, is_directed=False):
            pt_l = [sc.z(x) for x in (pt.flat_list() if hasattr(pt, "flat_list") else list(pt))]
            arc = [sc.z(x) for e in gca_cart for x in (e.flat_list() if hasattr(e, "flat_list") else list(e))]
            t = PWG(*[z3.ToReal(x) if z3.is_int(x) else x for x in pt_l + arc])
            calls.append((pt_l, arc, t))
            return mk(t)
        saved = gi["point_within_gca"]
        gi["point_within_gca"] = pwg_stub
        try:
            V = lambda k: symnp.SArr.new([mk(x) for x in P[k]], (3,), None, symnp.float64)      # noqa: E731
            w0, w1, v0, v1 = V("w0"), V("w1"), V("v0"), V("v1")
            # the kernel's own intermediate terms, rebuilt with the same operations
            n1, n2 = symnp.cross(w0, w1), symnp.cross(v0, v1)
            cn = symnp.cross(n1, n2)
            # exact unit-vector inputs: a cross product is orthogonal to its factors (the accuracy warnings do not fire) ...
            for a, b in ((n1, w0), (n1, w1), (n2, v0), (n2, v1), (cn, n2), (cn, n1)):
                ctx.assume(sc.z(symnp.dot(a, b)) == 0)
            # ... and the arcs lie on different great circles
            c = [sc.z(x) for x in cn.flat_list()]
            ctx.assume(z3.Or(*[z3.Or(x > sc.lift(1e-12), x < -sc.lift(1e-12)) for x in c]))      # short arcs have small normals: only (near-)machine-zero is 'collinear' 
            nrm = symnp.linalg.norm(cn)
            x1 = [sc.z(x) for x in (cn / nrm).flat_list()]
            x2 = [-x for x in x1]
            A1, A2 = [sc.z(x) for k in ("w0", "w1") for x in P[k]], [sc.z(x) for k in ("v0", "v1") for x in P[k]]
            gca1 = symnp.SArr.new([mk(x) for k in ("w0", "w1") for x in P[k]], (2, 3), None, symnp.float64)
            gca2 = symnp.SArr.new([mk(x) for k in ("v0", "v1") for x in P[k]], (2, 3), None, symnp.float64)
            res = gi["gca_gca_intersection"](gca1, gca2)
            rows = res.raw() if hasattr(res, "raw") else res
            nrows = rows.shape_cap[0] if rows.ndim == 2 else 0
            got = [[sc.z(rows[i, k]) for k in range(3)] for i in range(nrows)]
            same = lambda a, b: z3.And(*[z3.simplify(x) == z3.simplify(y) for x, y in zip(a, b)])      # noqa: E731
            ok1 = z3.And(PWG(*x1, *A1), PWG(*x1, *A2))
            ok2 = z3.And(PWG(*x2, *A1), PWG(*x2, *A2))
            exp_n = z3.If(ok1, 1, 0) + z3.If(ok2, 1, 0)
            ctx.prove("as many points are returned as candidates lie on both arcs", exp_n == nrows)
            if nrows == 1:
                ctx.prove("the returned point is the candidate lying on both arcs", z3.Or(z3.And(ok1, same(got[0], x1)), z3.And(ok2, z3.Not(ok1), same(got[0], x2))))
            elif nrows == 2:
                ctx.prove("both candidates returned", z3.And(same(got[0], x1), same(got[1], x2)))
            ctx.prove("every membership test asks about a candidate +-(n1 x n2)/|n1 x n2| and one of the two input arcs",
                      z3.And(*[z3.And(z3.Or(same(pt, x1), same(pt, x2)), z3.Or(same(arc, A1), same(arc, A2))) for pt, arc, _ in calls]) if calls else False)
        finally:
            gi["point_within_gca"] = saved
            sc.NL_UF[0] = False
            symnp.SQRT_MODE[0] = old_sqrt

    def replay(v):
        """the abstract model fixes only the truth values of the membership tests; the candidate is judged on real arcs with a known answer"""
        from uxarray.grid.intersections import gca_gca_intersection
        ll = lambda lon, lat: _ll_to_xyz(math.radians(lon), math.radians(lat))      # noqa: E731
        cases = [(((10, 0), (50, 0)), ((30, -20), (30, 25)), [ll(30, 0)]),                 # crossing
                 (((10, 0), (50, 0)), ((30, 5), (30, 25)), []),                            # great circles cross outside arc 2
                 (((10, 0), (20, 0)), ((30, -20), (30, 25)), []),                          # ... outside arc 1
                 (((10, 0), (20, 0)), ((30, 5), (30, 25)), []),                            # ... outside both
                 (((170, 10), (-170, 10)), ((180, -5), (180, 40)), None),                  # across the antimeridian: one point, on both arcs
                 (((-150, 0), (-110, 0)), ((-130, -20), (-130, 25)), [ll(-130, 0)]),       # the antipode of the first candidate is the answer
                 (((0, 60), (90, 60)), ((45, 50), (45, 89)), None),
                 # two short arcs (1e-4 rad) crossing at right angles: the plane normals are tiny but the great circles differ
                 (((20.0 - 0.003, 10.0), (20.0 + 0.003, 10.0)), ((20.0, 10.0 - 0.003), (20.0, 10.0 + 0.003)), None),
                 (((-100.0 - 0.004, -40.0), (-100.0 + 0.002, -40.0)), ((-100.0, -40.0 - 0.002), (-100.0, -40.0 + 0.004)), None)]
        for a1, a2, want in cases:
            for swap_arcs in (False, True):
                for flip in (False, True):
                    g1 = np.array([ll(*a1[0]), ll(*a1[1])]); g2 = np.array([ll(*a2[0]), ll(*a2[1])])
                    if flip:
                        g1 = g1[::-1].copy()
                    if swap_arcs:
                        g1, g2 = g2, g1
                    got = np.asarray(gca_gca_intersection(g1, g2)).reshape(-1, 3)
                    on_both = all(_exact_on_arc(g1[0], g1[1], p, 1e-7) and _exact_on_arc(g2[0], g2[1], p, 1e-7) for p in got)
                    n_want = 1 if want is None else len(want)
                    if len(got) != n_want or not on_both or (want and not np.allclose(got[0], want[0], atol=1e-9)):
                        return f"gca_gca_intersection(arc {a1}, arc {a2}; arcs swapped={swap_arcs}, endpoints swapped={flip}) returned {got.tolist()}, exact geometry gives {n_want} common point(s)"
        return None

    return Obligation(oid, "gca_gca_intersection returns exactly the candidates lying on both arcs", setup, run, replay, exact=False,
                      functions=["intersections.gca_gca_intersection", "utils.computing.cross/dot/norm/allclose"],
                      bounds="all endpoint vectors in [-1,1]^3 treated as exact unit vectors on two different great circles (some component of n1 x n2 beyond 1e-12, so also short arcs); fma_disabled=True",
                      stubs=["arcs.point_within_gca: abstract predicate W(point, arc) (its exactness is C14.pwg.*)", "products/quotients/sqrt uninterpreted (values compared as terms)"],
                      assumptions=["cross products are orthogonal to their factors (exact arithmetic): the accuracy warnings do not fire"], timeout_s=900)


class _Stop(Exception):
    pass


def obligations(tier):
    obs = [make_pwg("C14.pwg.generic", "generic"), make_pwg("C14.pwg.generic.directed", "generic", True), make_pwg("C14.pwg.meridian", "meridian"),
           make_pwg("C14.pwg.pole", "pole")]
    obs += [make_extreme("C14.extreme.max", "max"), make_extreme("C14.extreme.min", "min"), make_stationary("C14.extreme.stationary"), make_intersect("C14.intersect")]
    return [o for o in obs if tier in o.tiers]
