"""C13 Face latitude-longitude bounds enclose the face and are tight  (DESIGN.md section 2, C13).

(K2) the real box logic geometry._populate_face_latlon_bound + _insert_pt_in_latlonbox + _get_latlonbox_width, executed on
symbolic corner (lon, lat) with every edge replaced by an *abstract arc*: extreme_gca_latitude returns symbolic values
constrained only by what geometry guarantees for a minor arc (max >= both endpoint latitudes, min <= both, at most one of
the two strictly beyond the endpoints); _pole_point_inside_polygon is a harness-level case.  Claims: the box encloses every
corner and every arc extreme, each latitude bound is attained by one of them, the longitude interval (wrapping when
lon_min > lon_max) contains every corner longitude and is bounded by corner longitudes.
(K1) utils._get_cartesian_face_edge_nodes / _get_lonlat_rad_face_edge_nodes: edge j of face f = (corner j, corner j+1 cyclic).
Outside: exactness of the extreme latitude (C14) and of the pole ray casting; shortest-interval tightness beyond 'bounded by corners'."""
import math
import z3
import numpy as np
from symex import core as sc, symnp, symxr
from symex.core import mk
from symex.runner import Obligation, world
from . import common as C
from .common import F

PI = math.pi
SL = 1e-6          # slack granted by the property (1e-6 rad)
FUNCS = ["geometry._populate_face_latlon_bound", "geometry._insert_pt_in_latlonbox", "geometry._get_latlonbox_width", "Grid.bounds (replay)",
         "utils._get_cartesian_face_edge_nodes", "utils._get_lonlat_rad_face_edge_nodes"]


def _width(lo, hi):
    return z3.If(lo <= hi, hi - lo, sc.lift(2 * PI) - lo + hi)


def summary_insert(old, pt):
    """functional summary of geometry._insert_pt_in_latlonbox for a non-pole point (lat, lon in [0, 2pi)) - proven equal to the real
    function for every box and point by obligation C13.insert.contract, then used in place of it by the face-level obligations"""
    lat, lon = pt
    if old is None:
        return (lat, lat, lon, lon)
    a, b, lo, hi = old
    na, nb = z3.If(lat < a, lat, a), z3.If(lat > b, lat, b)
    outside = z3.Or(z3.And(lo > hi, lon < lo, lon > hi), z3.And(lo <= hi, z3.Not(z3.And(lo <= lon, lon <= hi))))
    wa, wb = _width(lon, hi), _width(lo, lon)             # box_a: [pt, hi]   box_b: [lo, pt]
    nlo = z3.If(outside, z3.If(wa < wb, lon, lo), lo)
    nhi = z3.If(outside, z3.If(wa < wb, hi, lon), hi)
    return (na, nb, nlo, nhi)


def make_insert_contract(oid):
    def setup(ctx):
        a, b = ctx.real("lat_lo", -1.5, 1.5), ctx.real("lat_hi", -1.5, 1.5)
        lo, hi = ctx.real("lon_lo", 0, 2 * PI - 1e-3), ctx.real("lon_hi", 0, 2 * PI - 1e-3)
        lat, lon = ctx.real("pt_lat", -1.5, 1.5), ctx.real("pt_lon", 0, 2 * PI - 1e-3)
        ctx.assume(sc.z(a) <= sc.z(b))
        return a, b, lo, hi, lat, lon

    def run(ctx, inp):
        a, b, lo, hi, lat, lon = inp
        g = world().G["uxarray.grid.geometry"]
        old = symnp.SArr.new([a, b, lo, hi], (2, 2), None, symnp.float64)
        keep = old.flat_list()
        new = g["_insert_pt_in_latlonbox"](old, symnp.SArr.new([lat, lon], (2,), None, symnp.float64))
        exp = summary_insert(tuple(sc.z(x) for x in (a, b, lo, hi)), (sc.z(lat), sc.z(lon)))
        got = [sc.z(new[0][0]), sc.z(new[0][1]), sc.z(new[1][0]), sc.z(new[1][1])]
        ctx.prove("_insert_pt_in_latlonbox(box, point) = summary(box, point): latitude hull, and the narrower of the two longitude extensions when the point is outside",
                  z3.And(*[x == y for x, y in zip(got, exp)]))
        ctx.prove("the old box is contained in the new one and the point is inside; width >= 0; the input box is not modified",
                  z3.And(got[0] <= sc.z(a), got[1] >= sc.z(b), got[0] <= sc.z(lat), got[1] >= sc.z(lat), _width(got[2], got[3]) >= 0,
                         *[sc.z(x) == sc.z(y) for x, y in zip(old.flat_list(), keep)]))
        e1 = g["_insert_pt_in_latlonbox"](symnp.full((2, 2), F, dtype=symnp.float64), symnp.SArr.new([lat, lon], (2,), None, symnp.float64))
        ctx.prove("inserting into the empty box gives the degenerate box at the point",
                  z3.And(sc.z(e1[0][0]) == sc.z(lat), sc.z(e1[0][1]) == sc.z(lat), sc.z(e1[1][0]) == sc.z(lon), sc.z(e1[1][1]) == sc.z(lon)))

    def replay(v):
        from uxarray.grid.geometry import _insert_pt_in_latlonbox
        old = np.array([[v["lat_lo"], v["lat_hi"]], [v["lon_lo"], v["lon_hi"]]], dtype=float)
        new = _insert_pt_in_latlonbox(old.copy(), np.array([v["pt_lat"], v["pt_lon"]]))
        lo, hi, lon = v["lon_lo"], v["lon_hi"], v["pt_lon"]
        inside = (lo <= lon <= hi) if lo <= hi else (lon >= lo or lon <= hi)
        wd = lambda x, y: (y - x) if x <= y else (2 * PI - x + y)      # noqa: E731
        if inside:
            exp_lon = [lo, hi]
        else:
            exp_lon = [lon, hi] if wd(lon, hi) < wd(lo, lon) else [lo, lon]
        exp = np.array([[min(v["lat_lo"], v["pt_lat"]), max(v["lat_hi"], v["pt_lat"])], exp_lon])
        if not np.allclose(new, exp, atol=1e-12):
            return f"_insert_pt_in_latlonbox({old.tolist()}, {[v['pt_lat'], v['pt_lon']]}) = {np.asarray(new).tolist()}, expected {exp.tolist()}"
        return None

    return Obligation(oid, "_insert_pt_in_latlonbox from an arbitrary box and point equals its functional summary", setup, run, replay, exact=True,
                      functions=["geometry._insert_pt_in_latlonbox", "geometry._get_latlonbox_width"], bounds="every box (lat_lo <= lat_hi, lon bounds in [0,2pi), wrapping or not) and every non-pole point",
                      max_paths=5000)


def make_box(oid, n, span, tiers=("quick", "thorough"), cost=3):
    """n corners; span: 'plain' (longitudes within [1,2] rad) or 'wrap' (the face straddles lon = 0)"""
    def setup(ctx):
        ctx.const("n", n); ctx.const("span", span)
        lon = [z3.Real(f"lon_{i}") for i in range(n)]
        lat = [z3.Real(f"lat_{i}") for i in range(n)]
        emax = [z3.Real(f"emax_{i}") for i in range(n)]
        emin = [z3.Real(f"emin_{i}") for i in range(n)]
        S = ctx.solver
        zmax = lambda a, b: z3.If(a >= b, a, b)     # noqa: E731
        zmin = lambda a, b: z3.If(a <= b, a, b)     # noqa: E731
        sep = sc.lift(1e-4)
        for i in range(n):
            j = (i + 1) % n
            if span == "plain":
                S.add(lon[i] >= 1, lon[i] <= 2)
            else:
                S.add(z3.Or(z3.And(lon[i] >= 0, lon[i] <= sc.lift(0.5)), z3.And(lon[i] >= sc.lift(2 * PI - 0.5), lon[i] < sc.lift(2 * PI - 1e-3))))
            S.add(lat[i] >= -1, lat[i] <= 1)
            S.add(emax[i] >= zmax(lat[i], lat[j]), emin[i] <= zmin(lat[i], lat[j]), emax[i] <= sc.lift(1.3), emin[i] >= sc.lift(-1.3))
            S.add(z3.Or(emax[i] == zmax(lat[i], lat[j]), emin[i] == zmin(lat[i], lat[j])))               # at most one interior extremum
            S.add(z3.Or(emax[i] == zmax(lat[i], lat[j]), emax[i] >= zmax(lat[i], lat[j]) + sep))          # margin from the 1e-8 isclose boundary
            S.add(z3.Or(emin[i] == zmin(lat[i], lat[j]), emin[i] <= zmin(lat[i], lat[j]) - sep))
        for i in range(n):
            for j in range(i + 1, n):
                S.add(z3.Or(lat[i] == lat[j], lat[i] - lat[j] >= sep, lat[j] - lat[i] >= sep))
                S.add(z3.Or(lon[i] - lon[j] >= sep, lon[j] - lon[i] >= sep))
        if span == "wrap":
            S.add(z3.Or(*[l <= sc.lift(0.5) for l in lon]), z3.Or(*[l >= sc.lift(2 * PI - 0.5) for l in lon]))
        for k, v in (("lon", lon), ("lat", lat), ("emax", emax), ("emin", emin)):
            ctx.eng.declare(k, v)
        return lon, lat, emax, emin

    def run(ctx, inp):
        lon, lat, emax, emin = inp
        w = world()
        g = w.G["uxarray.grid.geometry"]
        cur = {"i": None}
        saved = {k: g[k] for k in ("extreme_gca_latitude", "_pole_point_inside_polygon", "point_within_gca", "_insert_pt_in_latlonbox")}

        def insert_summary(old_box, new_pt, is_lon_periodic=True):
            fl = old_box.flat_list()
            empty = all((not isinstance(x, sc.Sym)) and float(x) == float(F) for x in fl)
            lat_, lon_ = sc.z(new_pt[0]), sc.z(new_pt[1])
            r = summary_insert(None if empty else tuple(sc.z(x) for x in fl), (lat_, lon_))
            return symnp.SArr.new([mk(x) for x in r], (2, 2), None, symnp.float64)
        g["_insert_pt_in_latlonbox"] = insert_summary
        g["extreme_gca_latitude"] = lambda gca, kind: mk(emax[cur["i"]]) if kind == "max" else mk(emin[cur["i"]])
        g["_pole_point_inside_polygon"] = lambda pole, edges: False
        g["point_within_gca"] = lambda *a, **k: False
        cart, ll = [], []
        for i in range(n):
            j = (i + 1) % n
            cart += [1000.0 + i, 0.0, 0.0, 1000.0 + j, 0.0, 0.0]          # opaque Cartesian payload (never FILL); the stubs ignore it
            ll += [mk(lon[i]), mk(lat[i]), mk(lon[j]), mk(lat[j])]
        EC = symnp.SArr.new(cart, (n, 2, 3), None, symnp.float64)
        EL = symnp.SArr.new(ll, (n, 2, 2), None, symnp.float64)
        orig_get = symnp.SArr.__getitem__

        def gi(self, key):
            if self is EC and isinstance(key, int):
                cur["i"] = key
            return orig_get(self, key)
        symnp.SArr.__getitem__ = gi
        try:
            box = g["_populate_face_latlon_bound"](EC, EL)
        finally:
            symnp.SArr.__getitem__ = orig_get
            g.update(saved)
        blo, bhi = sc.z(box[0][0]), sc.z(box[0][1])
        llo, lhi = sc.z(box[1][0]), sc.z(box[1][1])
        sl = sc.lift(SL)
        ctx.prove("latitude bounds enclose every corner and every edge extreme",
                  z3.And(*[z3.And(blo <= lat[i] + sl, blo <= emin[i] + sl, bhi >= lat[i] - sl, bhi >= emax[i] - sl) for i in range(n)]),
                  regions={"start_corner_of_bulging_edge_lost": True})
        ctx.prove("each latitude bound is attained by a corner or an edge extreme (tight)",
                  z3.And(z3.Or(*[z3.Or(_near(blo, lat[i], sl), _near(blo, emin[i], sl)) for i in range(n)]),
                         z3.Or(*[z3.Or(_near(bhi, lat[i], sl), _near(bhi, emax[i], sl)) for i in range(n)])))
        inside = lambda l: z3.If(llo <= lhi, z3.And(llo <= l + sl, l <= lhi + sl), z3.Or(l >= llo - sl, l <= lhi + sl))     # noqa: E731
        ctx.prove("every corner longitude lies in the reported interval (which wraps through 0 when lon_min > lon_max)", z3.And(*[inside(l) for l in lon]),
                  regions={"start_corner_of_bulging_edge_lost": True})
        ctx.prove("both longitude bounds are corner longitudes; the interval wraps exactly when the face straddles lon = 0",
                  z3.And(z3.Or(*[_near(llo, l, sl) for l in lon]), z3.Or(*[_near(lhi, l, sl) for l in lon]), (llo > lhi) == z3.BoolVal(span == "wrap")))
        ctx.reachable("an edge bulging beyond both endpoints", z3.Or(*[emax[i] > z3.If(lat[i] >= lat[(i + 1) % n], lat[i], lat[(i + 1) % n]) for i in range(n)]))

    def replay(v):
        # concretise the abstract counterexample: keep the model's corner latitudes, search a short ladder of longitude spreads for
        # which the real grid reproduces a violation; judged by dense sampling of the real great-circle edges
        lat0 = [float(x) for x in v["lat"]]
        order = np.argsort([float(x) for x in v["lon"]])
        for scale in (1.0, 0.6, 1.4):
            for base_lat_shift in (0.0, 0.45, -0.45, 0.8, -0.8):
                for dlon in (0.35, 0.7, 1.05, 1.4):
                    lat = [max(-1.45, min(1.45, scale * x + base_lat_shift)) for x in lat0]
                    lon = [0.0] * n
                    start = 1.0 if span == "plain" else -0.5 * dlon * (n - 1) / 2
                    for k, idx in enumerate(order):
                        lon[idx] = (start + k * dlon / max(1, n - 1) * (n - 1) / (n - 1 if n > 1 else 1))
                    lon = [(start + list(order).index(i) * dlon) % (2 * PI) for i in range(n)]
                    r = _check_real_face(lon, lat)
                    if r:
                        return r
        return None

    return Obligation(oid, f"lat/lon bounds of a {n}-corner face with abstract arcs, longitudes {span}", setup, run, replay, exact=False, functions=FUNCS,
                      bounds=f"{n} corners, lat in [-1,1] rad, corner latitudes equal or >= 1e-4 apart, arc extremes abstract (<= 1.3 rad), no enclosed pole, slack 1e-6",
                      stubs=["_insert_pt_in_latlonbox -> its functional summary (proven equal to the real function by C13.insert.contract)", "extreme_gca_latitude -> abstract arc (max >= both endpoints, min <= both, at most one strict)", "_pole_point_inside_polygon -> False", "point_within_gca -> False"],
                      tiers=tiers, cost=cost, max_paths=60000, timeout_s=2400)


def _near(a, b, sl):
    return z3.And(a - b <= sl, b - a <= sl)


def _check_real_face(lon, lat):
    """real Grid.bounds of one face with the given corners (radians) against dense sampling of its great-circle edges"""
    import uxarray as ux
    n = len(lon)
    lon_d, lat_d = [math.degrees(x) for x in lon], [math.degrees(x) for x in lat]
    lon_d = [((x + 180) % 360) - 180 for x in lon_d]
    # orient counter-clockwise
    pts = list(zip(lon_d, lat_d))
    try:
        g = ux.Grid.from_topology(np.array(lon_d), np.array(lat_d), np.array([list(range(n))], dtype=np.intp), fill_value=F)
        import warnings
        with warnings.catch_warnings():
            warnings.simplefilter("ignore")
            b = np.asarray(g.bounds.values)[0]
    except Exception:      # noqa: BLE001
        return None
    xyz = [np.array([math.cos(la) * math.cos(lo), math.cos(la) * math.sin(lo), math.sin(la)]) for lo, la in zip(lon, lat)]
    lats, lons = [], []
    for i in range(n):
        a, c = xyz[i], xyz[(i + 1) % n]
        om = math.acos(max(-1, min(1, float(np.dot(a, c)))))
        if om < 1e-9 or om > PI - 1e-3:
            return None
        ts = np.linspace(0, 1, 2001)
        P = (np.sin((1 - ts) * om)[:, None] * a + np.sin(ts * om)[:, None] * c) / math.sin(om)
        lats += list(np.arcsin(np.clip(P[:, 2], -1, 1)))
        lons += list(np.arctan2(P[:, 1], P[:, 0]) % (2 * PI))
    lats, lons = np.array(lats), np.array(lons)
    if max(abs(x) for x in lat) > 1.5 or (lons.max() - lons.min() > PI and not (np.any(lons < 0.6) and np.any(lons > 2 * PI - 0.6))):
        return None
    lo, hi = b[0]
    if lats.min() < lo - 1e-6 or lats.max() > hi + 1e-6:
        return f"Grid.bounds latitude [{lo:.6f}, {hi:.6f}] rad does not enclose the face with corners (lon,lat) deg {[(round(a, 4), round(c, 4)) for a, c in pts]}: boundary latitudes span [{lats.min():.6f}, {lats.max():.6f}]"
    if abs(lats.min() - lo) > 1e-5 or abs(lats.max() - hi) > 1e-5:
        return f"Grid.bounds latitude [{lo:.6f}, {hi:.6f}] rad is not tight for corners {[(round(a, 4), round(c, 4)) for a, c in pts]}: boundary latitudes span [{lats.min():.6f}, {lats.max():.6f}]"
    l0, l1 = b[1]
    ok = ((lons >= l0 - 1e-6) & (lons <= l1 + 1e-6)) if l0 <= l1 else ((lons >= l0 - 1e-6) | (lons <= l1 + 1e-6))
    if not np.all(ok):
        return f"Grid.bounds longitude interval [{l0:.6f}, {l1:.6f}] rad does not contain the boundary of the face with corners {[(round(a, 4), round(c, 4)) for a, c in pts]}"
    return None


# ------------------------------------------------------------------ edge gather helpers
def make_edges(oid, which):
    n_face, n_max, n_node = 2, 4, 6

    def setup(ctx):
        ctx.const("which", which)
        fn, nf = C.sym_face_table(ctx, n_face, n_max, n_node)
        co = [[z3.Real(f"c_{i}_{k}") for k in range(3)] for i in range(n_node)]
        for r in co:
            for x in r:
                ctx.solver.add(x >= -1, x <= 1)
        ctx.eng.declare("coords", co)
        return fn, nf, co

    def run(ctx, inp):
        fn, nf, co = inp
        g = world().G["uxarray.grid.utils"]
        fnode = C.sarr_int(fn)
        fe = None
        X = [C.sarr_1d([r[k] for r in co], symnp.float64) for k in range(3)]
        if which == "cartesian":
            out = g["_get_cartesian_face_edge_nodes"](fnode, n_face, n_max, X[0], X[1], X[2])
            w = 3
        else:
            out = g["_get_lonlat_rad_face_edge_nodes"](fnode, n_face, n_max, X[0], X[1])
            w = 2
        ctx.prove("shape (n_face, n_max, 2, width)", out.shape_cap == (n_face, n_max, 2, w))
        if out.shape_cap != (n_face, n_max, 2, w):
            return

        def sel(idx, k):
            t = co[-1][k]
            for i in range(n_node - 2, -1, -1):
                t = z3.If(idx == i, co[i][k], t)
            return t
        cl = []
        for f in range(n_face):
            for j in range(n_max):
                a = fn[f][j]
                b = z3.If(j + 1 < nf[f], fn[f][(j + 1) % n_max], fn[f][0])
                for k in range(w):
                    ga, gb = sc.z(out[f, j, 0, k]), sc.z(out[f, j, 1, k])
                    ga = z3.ToReal(ga) if z3.is_int(ga) else ga
                    gb = z3.ToReal(gb) if z3.is_int(gb) else gb
                    ea, eb = (sel(a, k), sel(b, k)) if which == "cartesian" else (_ll(sel(a, k), k), _ll(sel(b, k), k))
                    cl.append(z3.If(j < nf[f], z3.And(ga == ea, gb == eb), z3.And(ga == F, gb == F)))
        ctx.prove("edge j of face f = (corner j, corner j+1 cyclic) in order; dummies (fill) exactly where the face has no corner", z3.And(*cl))

    def _ll(deg, k):
        return deg * sc.lift(symnp.PI_Q) / 180 if which != "cartesian" else deg

    def replay(v):
        from uxarray.grid.utils import _get_cartesian_face_edge_nodes, _get_lonlat_rad_face_edge_nodes
        rows = np.array(v["fn"], dtype=np.intp)
        co = np.array(v["coords"], dtype=float)
        if which == "cartesian":
            out = _get_cartesian_face_edge_nodes(rows, n_face, n_max, co[:, 0].copy(), co[:, 1].copy(), co[:, 2].copy())
            ref = co
        else:
            out = _get_lonlat_rad_face_edge_nodes(rows, n_face, n_max, co[:, 0].copy(), co[:, 1].copy())
            ref = np.radians(co[:, :2])
            ref[:, 0] = np.mod(ref[:, 0], 2 * np.pi) if False else ref[:, 0]
        for f in range(n_face):
            c = C.face_corners(rows[f])
            for j in range(n_max):
                if j < len(c):
                    a, b = c[j], c[(j + 1) % len(c)]
                    exp = np.array([ref[a][: out.shape[-1]], ref[b][: out.shape[-1]]])
                    got = out[f, j]
                    if which != "cartesian":
                        got = np.array(got); exp = np.array(exp)
                        if not np.allclose(np.mod(got[:, 0] - exp[:, 0] + np.pi, 2 * np.pi) - np.pi, 0, atol=1e-9) or not np.allclose(got[:, 1], exp[:, 1]):
                            return f"{which} edge {j} of face {f} = {got.tolist()}, corners {a}->{b} are {exp.tolist()}"
                    elif not np.allclose(got, exp):
                        return f"{which} edge {j} of face {f} = {np.asarray(got).tolist()}, corners {a}->{b} are {exp.tolist()}"
                elif not np.all(out[f, j] == F):
                    return f"{which} edge slot {j} of face {f} (which has {len(c)} corners) is not a dummy: {np.asarray(out[f, j]).tolist()}"
        return None

    return Obligation(oid, f"per-face edge gather ({which})", setup, run, replay, exact=False, functions=FUNCS[-2:],
                      bounds="2 faces <= 4 corners (all padding layouts), nodes < 6, coordinates symbolic")


def obligations(tier):
    obs = [make_insert_contract("C13.insert.contract"), make_box("C13.box.3.plain", 3, "plain"), make_box("C13.box.3.wrap", 3, "wrap"),
           make_box("C13.box.4.plain", 4, "plain", tiers=("thorough",), cost=20), make_box("C13.box.4.wrap", 4, "wrap", tiers=("thorough",), cost=20),
           make_edges("C13.edges.cartesian", "cartesian"), make_edges("C13.edges.lonlat", "lonlat")]
    return [o for o in obs if tier in o.tiers]
