"""C13 Face latitude-longitude bounds enclose the face and are tight  (DESIGN.md section 2, C13).

(K2) the real box logic geometry._populate_face_latlon_bound + _insert_pt_in_latlonbox + _get_latlonbox_width, executed on
symbolic corner (lon, lat) with every edge replaced by an *abstract arc*: extreme_gca_latitude returns symbolic values
constrained only by what geometry guarantees for a minor arc (max >= both endpoint latitudes, min <= both, at most one of
the two strictly beyond the endpoints); _pole_point_inside_polygon is a harness-level case.  Claims: the box encloses every
corner and every arc extreme, each latitude bound is attained by one of them, the longitude interval (wrapping when
lon_min > lon_max) contains every corner longitude and is bounded by corner longitudes.
(K1) utils._get_cartesian_face_edge_nodes / _get_lonlat_rad_face_edge_nodes: edge j of face f = (corner j, corner j+1 cyclic).
Outside: exactness of the extreme latitude (C14) and of the pole ray casting; shortest-interval tightness beyond 'bounded by corners'."""
import math
import z3
import numpy as np
from symex import core as sc, symnp, symxr
from symex.core import mk
from symex.runner import Obligation, world
from . import common as C
from .common import F

PI = math.pi
SL = 1e-6          # slack granted by the property (1e-6 rad)
FUNCS = ["geometry._populate_face_latlon_bound", "geometry._insert_pt_in_latlonbox", "geometry._get_latlonbox_width", "Grid.bounds (replay)",
         "utils._get_cartesian_face_edge_nodes", "utils._get_lonlat_rad_face_edge_nodes"]


def _width(lo, hi):
    return z3.If(lo <= hi, hi - lo, sc.lift(2 * PI) - lo + hi)


def summary_insert(old, pt):
    """functional summary of geometry._insert_pt_in_latlonbox for a non-pole point (lat, lon in [0, 2pi)) - proven equal to the real
    function for every box and point by obligation C13.insert.contract, then used in place of it by the face-level obligations"""
    lat, lon = pt
    if old is None:
        return (lat, lat, lon, lon)
    a, b, lo, hi = old
    na, nb = z3.If(lat < a, lat, a), z3.If(lat > b, lat, b)
    outside = z3.Or(z3.And(lo > hi, lon < lo, lon > hi), z3.And(lo <= hi, z3.Not(z3.And(lo <= lon, lon <= hi))))
    wa, wb = _width(lon, hi), _width(lo, lon)             # box_a: [pt, hi]   box_b: [lo, pt]
    nlo = z3.If(outside, z3.If(wa < wb, lon, lo), lo)
    nhi = z3.If(outside, z3.If(wa < wb, hi, lon), hi)
    return (na, nb, nlo, nhi)


def make_insert_contract(oid):
    def setup(ctx):
        a, b = ctx.real("lat_lo", -1.5, 1.5), ctx.real("lat_hi", -1.5, 1.5)
        lo, hi = ctx.real("lon_lo", 0, 2 * PI - 1e-3), ctx.real("lon_hi", 0, 2 * PI - 1e-3)
        lat, lon = ctx.real("pt_lat", -1.5, 1.5), ctx.real("pt_lon", 0, 2 * PI - 1e-3)
        ctx.assume(sc.z(a) <= sc.z(b))
        return a, b, lo, hi, lat, lon

    def run(ctx, inp):
        a, b, lo, hi, lat, lon = inp
        g = world().G["uxarray.grid.geometry"]
        old = symnp.SArr.new([a, b, lo, hi], (2, 2), None, symnp.float64)
        keep = old.flat_list()
        new = g["_insert_pt_in_latlonbox"](old, symnp.SArr.new([lat, lon], (2,), None, symnp.float64))
        exp = summary_insert(tuple(sc.z(x) for x in (a, b, lo, hi)), (sc.z(lat), sc.z(lon)))
        got = [sc.z(new[0][0]), sc.z(new[0][1]), sc.z(new[1][0]), sc.z(new[1][1])]
        ctx.prove("_insert_pt_in_latlonbox(box, point) = summary(box, point): latitude hull, and the narrower of the two longitude extensions when the point is outside",
                  z3.And(*[x == y for x, y in zip(got, exp)]))
        ctx.prove("the old box is contained in the new one and the point is inside; width >= 0; the input box is not modified",
                  z3.And(got[0] <= sc.z(a), got[1] >= sc.z(b), got[0] <= sc.z(lat), got[1] >= sc.z(lat), _width(got[2], got[3]) >= 0,
                         *[sc.z(x) == sc.z(y) for x, y in zip(old.flat_list(), keep)]))
        e1 = g["_insert_pt_in_latlonbox"](symnp.full((2, 2), F, dtype=symnp.float64), symnp.SArr.new([lat, lon], (2,), None, symnp.float64))
        ctx.prove("inserting into the empty box gives the degenerate box at the point",
                  z3.And(sc.z(e1[0][0]) == sc.z(lat), sc.z(e1[0][1]) == sc.z(lat), sc.z(e1[1][0]) == sc.z(lon), sc.z(e1[1][1]) == sc.z(lon)))

    def replay(v):
        from uxarray.grid.geometry import _insert_pt_in_latlonbox
        old = np.array([[v["lat_lo"], v["lat_hi"]], [v["lon_lo"], v["lon_hi"]]], dtype=float)
        new = _insert_pt_in_latlonbox(old.copy(), np.array([v["pt_lat"], v["pt_lon"]]))
        lo, hi, lon = v["lon_lo"], v["lon_hi"], v["pt_lon"]
        inside = (lo <= lon <= hi) if lo <= hi else (lon >= lo or lon <= hi)
        wd = lambda x, y: (y - x) if x <= y else (2 * PI - x + y)      # noqa: E731
        if inside:
            exp_lon = [lo, hi]
        else:
            exp_lon = [lon, hi] if wd(lon, hi) < wd(lo, lon) else [lo, lon]
        exp = np.array([[min(v["lat_lo"], v["pt_lat"]), max(v["lat_hi"], v["pt_lat"])], exp_lon])
        if not np.allclose(new, exp, atol=1e-12):
            return f"_insert_pt_in_latlonbox({old.tolist()}, {[v['pt_lat'], v['pt_lon']]}) = {np.asarray(new).tolist()}, expected {exp.tolist()}"
        return None

    return Obligation(oid, "_insert_pt_in_latlonbox from an arbitrary box and point equals its functional summary", setup, run, replay, exact=True,
                      functions=["geometry._insert_pt_in_latlonbox", "geometry._get_latlonbox_width"], bounds="every box (lat_lo <= lat_hi, lon bounds in [0,2pi), wrapping or not) and every non-pole point",
                      max_paths=5000)


def summary_insert_pole(old, north):
    """functional summary of _insert_pt_in_latlonbox for a pole point (lat = +-pi/2, lon = FILL): only the latitude bound on the pole's
    side moves to the pole - proven equal to the real function by C13.insert.pole"""
    a, b, lo, hi = old
    return (a, sc.lift(PI / 2), lo, hi) if north else (sc.lift(-PI / 2), b, lo, hi)


def make_insert_pole(oid):
    def setup(ctx):
        a, b = ctx.real("lat_lo", -1.5, 1.5), ctx.real("lat_hi", -1.5, 1.5)
        lo, hi = ctx.real("lon_lo", 0, 2 * PI - 1e-3), ctx.real("lon_hi", 0, 2 * PI - 1e-3)
        ctx.assume(sc.z(a) <= sc.z(b))
        north = ctx.bool("north")
        return a, b, lo, hi, north

    def run(ctx, inp):
        a, b, lo, hi, north = inp
        g = world().G["uxarray.grid.geometry"]
        nb = bool(north)
        pt = symnp.array([PI / 2 if nb else -PI / 2, float(F)])
        old = symnp.SArr.new([a, b, lo, hi], (2, 2), None, symnp.float64)
        keep = old.flat_list()
        new = g["_insert_pt_in_latlonbox"](old, pt)
        got = [sc.z(new[0][0]), sc.z(new[0][1]), sc.z(new[1][0]), sc.z(new[1][1])]
        exp = summary_insert_pole(tuple(sc.z(x) for x in (a, b, lo, hi)), nb)
        ctx.prove("inserting a pole point moves only the latitude bound on that pole's side to the pole", z3.And(*[x == y for x, y in zip(got, exp)]))
        ctx.prove("the input box is not modified", z3.And(*[sc.z(x) == sc.z(y) for x, y in zip(old.flat_list(), keep)]))
        # the two partially empty states the pole branch of the face loop can produce
        e1 = g["_insert_pt_in_latlonbox"](symnp.full((2, 2), F, dtype=symnp.float64), pt)
        pv = PI / 2 if nb else -PI / 2
        ctx.prove("a pole point inserted into the empty box starts the latitude range at the pole and leaves the longitude range empty",
                  [float(x) if not isinstance(x, sc.Sym) else None for x in e1.flat_list()] == [pv, pv, float(F), float(F)], note=str(e1.flat_list()))
        lat, lon = ctx.real("pt_lat", -1.5, 1.5), ctx.real("pt_lon", 0, 2 * PI - 1e-3)
        half = symnp.SArr.new([a, b, float(F), float(F)], (2, 2), None, symnp.float64)
        e2 = g["_insert_pt_in_latlonbox"](half, symnp.SArr.new([lat, lon], (2,), None, symnp.float64))
        ctx.prove("an ordinary point inserted into a box with an empty longitude range: latitude hull, longitude range = the point",
                  z3.And(sc.z(e2[0][0]) == z3.If(sc.z(lat) < sc.z(a), sc.z(lat), sc.z(a)), sc.z(e2[0][1]) == z3.If(sc.z(lat) > sc.z(b), sc.z(lat), sc.z(b)),
                         sc.z(e2[1][0]) == sc.z(lon), sc.z(e2[1][1]) == sc.z(lon)))

    def replay(v):
        from uxarray.grid.geometry import _insert_pt_in_latlonbox
        nb = bool(v["north"])
        old = np.array([[v["lat_lo"], v["lat_hi"]], [v["lon_lo"], v["lon_hi"]]], dtype=float)
        new = np.asarray(_insert_pt_in_latlonbox(old.copy(), np.array([PI / 2 if nb else -PI / 2, float(F)])))
        exp = old.copy()
        if nb:
            exp[0, 1] = PI / 2
        else:
            exp[0, 0] = -PI / 2
        if not np.allclose(new, exp, atol=1e-12):
            return f"_insert_pt_in_latlonbox({old.tolist()}, {'north' if nb else 'south'} pole point) = {new.tolist()}, expected {exp.tolist()}"
        return None

    return Obligation(oid, "_insert_pt_in_latlonbox with a pole point equals its functional summary", setup, run, replay, exact=True,
                      functions=["geometry._insert_pt_in_latlonbox"], bounds="every box (lat_lo <= lat_hi, lon bounds in [0,2pi)), north and south pole point")


def make_unique_points(oid, k=3):
    """geometry._unique_points (used to count distinct crossings in the pole-inside-polygon test): greedy de-duplication against ALL kept points"""
    def setup(ctx):
        P = [[z3.Real(f"q{i}_{c}") for c in "xyz"] for i in range(k)]
        for r in P:
            for x in r:
                ctx.solver.add(x >= -1, x <= 1)
        ctx.eng.declare("P", P)
        return P

    def run(ctx, P):
        sc.NL_UF[0] = True
        old_sqrt, symnp.SQRT_MODE[0] = symnp.SQRT_MODE[0], "uf"
        try:
            g = world().G["uxarray.grid.geometry"]
            tol = 1e-6
            A = lambda r: symnp.SArr.new([mk(x) for x in r], (3,), None, symnp.float64)      # noqa: E731

            def radius(p1, p2):     # the kernel's own distance term, rebuilt with the same operations
                num = symnp.sqrt((p1[0] - p2[0]) ** 2 + (p1[1] - p2[1]) ** 2 + (p1[2] - p2[2]) ** 2)
                den = symnp.sqrt(p2[0] ** 2 + p2[1] ** 2 + p2[2] ** 2)
                return sc.z(num / den)
            arrs = [A(r) for r in P]
            near = {(i, j): radius(arrs[i], arrs[j]) < sc.lift(tol) for i in range(k) for j in range(i)}
            out = g["_unique_points"]([A(r) for r in P], tolerance=tol)
            kept_terms = [[sc.z(x) for x in o.flat_list()] for o in out]
            same = lambda a, b: z3.And(*[x == y for x, y in zip(a, b)])      # noqa: E731
            # spec: point i is kept iff it is not near any earlier kept point
            kept = []
            for i in range(k):
                kept.append(z3.Not(z3.Or(*[z3.And(kept[j], near[(i, j)]) for j in range(i)])) if i else z3.BoolVal(True))
            ctx.prove("as many points are kept as the greedy rule 'keep a point unless it is within tolerance of ANY kept point' keeps",
                      z3.Sum([z3.If(c, 1, 0) for c in kept]) == len(out))
            for r, t in enumerate(kept_terms):
                ctx.prove(f"kept point {r} is the {r}-th point the rule keeps",
                          z3.Or(*[z3.And(kept[i], z3.Sum([z3.If(kept[j], 1, 0) for j in range(i)]) == r, same(t, P[i])) for i in range(k)]))
        finally:
            sc.NL_UF[0] = False
            symnp.SQRT_MODE[0] = old_sqrt

    def replay(v):
        from uxarray.grid.geometry import _unique_points
        a, b = np.array([1.0, 0.0, 0.0]), np.array([0.0, 0.6, 0.8])
        for pts, want in (([a, b, a + 1e-9], 2), ([a, a, b, b], 2), ([a, b, a, b, a], 2), ([a, b, np.array([0.0, 0.0, 1.0])], 3)):
            got = _unique_points([p.copy() for p in pts], tolerance=1e-6)
            if len(got) != want:
                return f"_unique_points({[p.tolist() for p in pts]}) kept {len(got)} points, {want} are distinct"
        return None

    return Obligation(oid, "_unique_points keeps exactly the points not within tolerance of an earlier kept point", setup, run, replay, exact=False,
                      functions=["geometry._unique_points"], bounds=f"{k} points with symbolic coordinates; distances abstract",
                      stubs=["products / sqrt / quotients uninterpreted (the distance is an abstract term)"], max_paths=2000)


def _check_real_pole_face(lon_deg, lat_deg, north):
    """real Grid.bounds of a face whose interior contains a pole (corners listed counter-clockwise seen from above the north pole)"""
    import uxarray as ux
    import warnings
    n = len(lon_deg)
    g = ux.Grid.from_topology(np.array(lon_deg, dtype=float), np.array(lat_deg, dtype=float), np.array([list(range(n))], dtype=np.intp), fill_value=F)
    with warnings.catch_warnings():
        warnings.simplefilter("ignore")
        b = np.asarray(g.bounds.values)[0]
    lon, lat = [math.radians(x) for x in lon_deg], [math.radians(x) for x in lat_deg]
    xyz = [np.array([math.cos(la) * math.cos(lo), math.cos(la) * math.sin(lo), math.sin(la)]) for lo, la in zip(lon, lat)]
    lats = []
    for i in range(n):
        a, c = xyz[i], xyz[(i + 1) % n]
        om = math.acos(max(-1, min(1, float(np.dot(a, c)))))
        ts = np.linspace(0, 1, 2001)
        P = (np.sin((1 - ts) * om)[:, None] * a + np.sin(ts * om)[:, None] * c) / math.sin(om)
        lats += list(np.arcsin(np.clip(P[:, 2], -1, 1)))
    lats = np.array(lats)
    want_lat = [lats.min(), PI / 2] if north else [-PI / 2, lats.max()]
    if abs(b[0][0] - want_lat[0]) > 1e-5 or abs(b[0][1] - want_lat[1]) > 1e-5:
        return f"pole-enclosing face with corners (lon,lat) deg {list(zip(lon_deg, lat_deg))}: Grid.bounds latitude {b[0].tolist()} rad, the face spans {want_lat}"
    if abs(b[1][0]) > 1e-9 or abs(b[1][1] - 2 * PI) > 1e-9:
        return f"pole-enclosing face with corners (lon,lat) deg {list(zip(lon_deg, lat_deg))}: Grid.bounds longitude {b[1].tolist()} rad instead of the full circle"
    return None


def make_box_pole(oid, n, north, tiers=("quick", "thorough"), cost=3, corner_at_pole=False):
    """the pole branch of _populate_face_latlon_bound: the face contains the pole (stub of _pole_point_inside_polygon), edges are abstract
    arcs, each edge may or may not pass through the pole (abstract answer of point_within_gca)"""
    sgn = 1 if north else -1

    def setup(ctx):
        ctx.const("n", n); ctx.const("north", north)
        lon = [z3.Real(f"lon_{i}") for i in range(n)]
        lat = [z3.Real(f"lat_{i}") for i in range(n)]
        ext = [z3.Real(f"ext_{i}") for i in range(n)]          # the arc's extreme latitude on the far side from the pole
        thru = [ctx.bool(f"through_pole_{i}") for i in range(n)]
        S = ctx.solver
        sep = sc.lift(1e-4)
        ctx.const("corner_at_pole", corner_at_pole)
        for i in range(n):
            j = (i + 1) % n
            S.add(lon[i] >= 0, lon[i] < sc.lift(2 * PI - 1e-3))
            if corner_at_pole and i == 0:
                S.add(lat[i] == sc.lift(sgn * PI / 2))          # corner 0 sits exactly at the pole; its stored longitude is arbitrary
            else:
                S.add(lat[i] * sgn >= sc.lift(0.2), lat[i] * sgn <= sc.lift(1.5))
            far = z3.If(lat[i] * sgn <= lat[j] * sgn, lat[i], lat[j])
            S.add(z3.Or(ext[i] == far, ext[i] * sgn <= far * sgn - sep), ext[i] * sgn >= sc.lift(0.05))
        for i in range(n):
            for j in range(i + 1, n):
                S.add(z3.Or(lat[i] == lat[j], lat[i] - lat[j] >= sep, lat[j] - lat[i] >= sep))
                S.add(z3.Or(lon[i] - lon[j] >= sep, lon[j] - lon[i] >= sep))
        for k_, v in (("lon", lon), ("lat", lat), ("ext", ext)):
            ctx.eng.declare(k_, v)
        return lon, lat, ext, thru

    def run(ctx, inp):
        lon, lat, ext, thru = inp
        w = world()
        g = w.G["uxarray.grid.geometry"]
        cur = {"i": None}
        saved = {k_: g[k_] for k_ in ("extreme_gca_latitude", "_pole_point_inside_polygon", "point_within_gca", "_insert_pt_in_latlonbox")}

        def insert_summary(old_box, new_pt, is_lon_periodic=True):
            fl = old_box.flat_list()
            isF = lambda x: (not isinstance(x, sc.Sym)) and float(x) == float(F)      # noqa: E731
            lat_empty, lon_empty = isF(fl[0]) and isF(fl[1]), isF(fl[2]) and isF(fl[3])
            lon_v = new_pt[1]
            if isF(lon_v):
                # pole point: an empty latitude range starts at the pole; the longitude range is left as it is (C13.insert.pole)
                a, b = (sc.lift(sgn * PI / 2), sc.lift(sgn * PI / 2)) if lat_empty else (sc.z(fl[0]), sc.z(fl[1]))
                r = list(summary_insert_pole((a, b, None, None), north))[:2] + [fl[2], fl[3]]
                return symnp.SArr.new([mk(x) if z3.is_expr(x) else x for x in r], (2, 2), None, symnp.float64)
            if lat_empty and lon_empty:
                r = summary_insert(None, (sc.z(new_pt[0]), sc.z(lon_v)))
            elif lon_empty:
                # latitude range already started by a pole point, longitude range still empty
                lat_ = sc.z(new_pt[0])
                a, b = sc.z(fl[0]), sc.z(fl[1])
                r = (z3.If(lat_ < a, lat_, a), z3.If(lat_ > b, lat_, b), sc.z(lon_v), sc.z(lon_v))
            else:
                r = summary_insert(tuple(sc.z(x) for x in fl), (sc.z(new_pt[0]), sc.z(lon_v)))
            return symnp.SArr.new([mk(x) for x in r], (2, 2), None, symnp.float64)
        g["_insert_pt_in_latlonbox"] = insert_summary
        # north pole inside: the kernel asks for the arc's minimum; the maximum is irrelevant there (and vice versa)
        g["extreme_gca_latitude"] = lambda gca, kind: mk(ext[cur["i"]]) if kind == ("min" if north else "max") else mk(sc.lift(sgn * 1.55))
        g["_pole_point_inside_polygon"] = lambda pole, edges: (pole == "North") == north
        g["point_within_gca"] = lambda *a, **k_: thru[cur["i"]]
        cart, ll = [], []
        payload = lambda k_: [0.0, 0.0, float(sgn)] if (corner_at_pole and k_ == 0) else [1000.0 + k_, 0.0, 0.0]      # noqa: E731
        for i in range(n):
            j = (i + 1) % n
            cart += payload(i) + payload(j)
            ll += [mk(lon[i]), mk(lat[i]), mk(lon[j]), mk(lat[j])]
        EC = symnp.SArr.new(cart, (n, 2, 3), None, symnp.float64)
        EL = symnp.SArr.new(ll, (n, 2, 2), None, symnp.float64)
        orig_get = symnp.SArr.__getitem__

        def gi(self, key):
            if self is EC and isinstance(key, int):
                cur["i"] = key
            return orig_get(self, key)
        symnp.SArr.__getitem__ = gi
        try:
            box = g["_populate_face_latlon_bound"](EC, EL)
        finally:
            symnp.SArr.__getitem__ = orig_get
            g.update(saved)
        blo, bhi = sc.z(box[0][0]), sc.z(box[0][1])
        llo, lhi = sc.z(box[1][0]), sc.z(box[1][1])
        sl = sc.lift(SL)
        pole_b, far_b = (bhi, blo) if north else (blo, bhi)
        real_corners = [i for i in range(n) if not (corner_at_pole and i == 0)]
        ctx.prove("the latitude bound on the pole's side is the pole", pole_b == sc.lift(sgn * PI / 2))
        ctx.prove("the other latitude bound encloses every corner and every edge extreme",
                  z3.And(*[z3.And(far_b * sgn <= lat[i] * sgn + sl, far_b * sgn <= ext[i] * sgn + sl) for i in real_corners]))
        ctx.prove("and is attained by a corner or an edge extreme (tight)", z3.Or(*[z3.Or(_near(far_b, lat[i], sl), _near(far_b, ext[i], sl)) for i in real_corners]))
        central = z3.And(*[z3.Not(sc.z(t)) for t in thru]) if not corner_at_pole else z3.BoolVal(False)
        inside = lambda l: z3.If(llo <= lhi, z3.And(llo <= l + sl, l <= lhi + sl), z3.Or(l >= llo - sl, l <= lhi + sl))     # noqa: E731
        ctx.prove("a pole strictly inside the face gives the full longitude circle; a pole on the boundary gives an interval containing the longitude of every corner away from the pole",
                  z3.If(central, z3.And(llo == 0, lhi == sc.lift(2 * PI)), z3.And(*[inside(lon[i]) for i in real_corners])))
        ctx.prove("with the pole on the boundary both longitude bounds are longitudes of corners away from the pole (a corner at the pole has no longitude of its own)",
                  z3.Or(central, z3.And(z3.Or(*[_near(llo, lon[i], sl) for i in real_corners]), z3.Or(*[_near(lhi, lon[i], sl) for i in real_corners]))))
        if not corner_at_pole:
            ctx.reachable("pole strictly inside", central)
            ctx.reachable("an edge through the pole", z3.Not(central))

    def replay(v):
        if corner_at_pole:
            import uxarray as ux
            import warnings
            for stored in (200.0, 0.0, -100.0, 30.0):
                for order in (0, 1, 2):
                    pts = [(stored, sgn * 90.0), (10.0, sgn * 80.0), (50.0, sgn * 75.0)] + ([(30.0, sgn * 70.0)] if n == 4 else [])
                    if n == 4:
                        pts = [pts[0], pts[1], pts[3], pts[2]]
                    if not north:
                        pts = [pts[0]] + pts[1:][::-1]
                    pts = pts[order:] + pts[:order]
                    g = ux.Grid.from_topology(np.array([p[0] for p in pts]), np.array([p[1] for p in pts]), np.array([list(range(len(pts)))], dtype=np.intp), fill_value=F)
                    with warnings.catch_warnings():
                        warnings.simplefilter("ignore")
                        b = np.degrees(np.asarray(g.bounds.values)[0])
                    if abs(b[1][0] - 10.0) > 1e-6 or abs(b[1][1] - 50.0) > 1e-6:
                        return f"face with a corner at the pole stored with longitude {stored}: corners {pts}, Grid.bounds longitude {b[1].tolist()} deg, the boundary spans [10, 50]"
            return None
        # concretise: corners on a ring around the pole at the model's latitudes, longitudes spread over the full circle
        lat0 = [abs(float(x)) for x in v["lat"]]
        for shift in (0.0, 17.0, 181.0, 359.0 - 360.0 / n):
            for scale in (1.0, 0.8):
                lats = [sgn * min(88.0, max(20.0, math.degrees(x) * scale)) for x in lat0]
                lons = [((shift + 360.0 * k_ / n + 7.0 * (k_ % 2) + 180) % 360) - 180 for k_ in range(n)]
                if not north:
                    lons = lons[::-1]; lats = lats[::-1]
                r = _check_real_pole_face(lons, lats, north)
                if r:
                    return r
        return None

    return Obligation(oid, f"lat/lon bounds of a {n}-corner face containing the {'north' if north else 'south'} pole (abstract arcs)", setup, run, replay, exact=False, functions=FUNCS,
                      bounds=f"{n} corners with |lat| in [0.2, 1.5] rad on the pole's hemisphere, abstract arc extremes, each edge may pass through the pole; no corner exactly at the pole; slack 1e-6",
                      stubs=["_insert_pt_in_latlonbox -> functional summaries (C13.insert.contract, C13.insert.pole)", "extreme_gca_latitude -> abstract arc", "_pole_point_inside_polygon -> the pole is inside (its crossing count is C13.unique_points + C14.intersect)",
                             "point_within_gca(pole, edge) -> symbolic boolean per edge"],
                      tiers=tiers, cost=cost, max_paths=60000, timeout_s=2400)


# ------------------------------------------------------------------ the pole-inside-polygon test
def _same_terms(a, b):
    return all(z3.simplify(sc.z(x)).eq(z3.simplify(sc.z(y))) for x, y in zip(a, b))


def make_pole_split(oid, n=3):
    """_pole_point_inside_polygon: which edges and which reference arc reach the crossing count (the count itself is C13.pole.count)"""
    def setup(ctx):
        V = [[z3.Real(f"v{k}_{c}") for c in "xyz"] for k in range(n)]
        for r in V:
            for x in r:
                ctx.solver.add(x >= -1, x <= 1)
            ctx.solver.add(z3.Or(r[2] == 0, r[2] >= sc.lift(1e-3), r[2] <= -sc.lift(1e-3)))
        ctx.eng.declare("V", V)
        north_q = ctx.bool("ask_north")
        return V, north_q

    def run(ctx, inp):
        V, north_q = inp
        g = world().G["uxarray.grid.geometry"]
        calls = []
        cnt = [ctx.eng.fresh("cnt", "Int") for _ in range(2)]
        for c in cnt:
            ctx.solver.add(c >= 0, c <= 4)

        def stub(ref_edge, edges):
            e = edges.raw() if hasattr(edges, "raw") else edges
            rows = [[e[i, 0].flat_list(), e[i, 1].flat_list()] for i in range(e.shape_cap[0])]
            calls.append(([float(x) for x in ref_edge.flat_list()], rows, edges.n if getattr(edges, "n", None) is not None else len(rows)))
            return mk(cnt[len(calls) - 1])
        saved = g["_check_intersection"]
        g["_check_intersection"] = stub
        try:
            E = symnp.SArr.new([mk(x) for k in range(n) for x in (V[k] + V[(k + 1) % n])], (n, 2, 3), None, symnp.float64)
            pole = "North" if bool(north_q) else "South"
            res = g["_pole_point_inside_polygon"](pole, E)
        finally:
            g["_check_intersection"] = saved
        zs = [r[2] for r in V]
        all_n, all_s = z3.And(*[z_ > 0 for z_ in zs]), z3.And(*[z_ < 0 for z_ in zs])
        edge_terms = [[V[k], V[(k + 1) % n]] for k in range(n)]
        north_edge = [z3.Or(zs[k] > 0, zs[(k + 1) % n] > 0) for k in range(n)]
        N_ARC, S_ARC = [0.0, 0.0, 1.0, 1.0, 0.0, 0.0], [0.0, 0.0, -1.0, 1.0, 0.0, 0.0]

        def handed(call, want_north):
            """the call received exactly the edges whose 'north' flag is want_north, in face order"""
            ref, rows, nvalid = call
            cl = [sc.z(nvalid) == z3.Sum([z3.If(north_edge[k] == want_north, 1, 0) for k in range(n)])]
            for k in range(n):
                pos = z3.Sum([z3.If(north_edge[j] == want_north, 1, 0) for j in range(k)]) if k else z3.IntVal(0)
                for r in range(len(rows)):
                    eq = z3.And(*[sc.z(a) == b for a, b in zip(rows[r][0] + rows[r][1], edge_terms[k][0] + edge_terms[k][1])])
                    cl.append(z3.Implies(z3.And(north_edge[k] == want_north, pos == r), eq))
            return z3.And(*cl)
        rz = sc.z(res) if isinstance(res, sc.Sym) else z3.BoolVal(bool(res))
        if len(calls) == 2:
            ctx.prove("a face touching or straddling the equator: the northern arc is counted against the edges with a northern endpoint, the southern arc against the others (every edge once)",
                      z3.And(z3.Not(all_n), z3.Not(all_s), z3.BoolVal(calls[0][0] == N_ARC and calls[1][0] == S_ARC), handed(calls[0], True), handed(calls[1], False)))
            ctx.prove("... and the answer is the parity of the two counts", rz == ((cnt[0] + cnt[1]) % 2 == 1))
        elif len(calls) == 1:
            want = N_ARC if pole == "North" else S_ARC
            ctx.prove("a face inside the queried pole's hemisphere: that pole's arc against all edges, answer = parity",
                      z3.And(all_n if pole == "North" else all_s, z3.BoolVal(calls[0][0] == want), handed(calls[0], True) if pole == "North" else handed(calls[0], False),
                             rz == (cnt[0] % 2 == 1)))
        else:
            ctx.prove("a face inside the other hemisphere cannot contain the queried pole", z3.And(all_s if pole == "North" else all_n, z3.Not(rz)))
        ctx.reachable("equator branch", len(calls) == 2)

    def replay(v):
        # faces at the equator / prime meridian with known answers, judged on the real Grid.bounds
        for pts in ([(-5, -5), (5, -5), (5, 5), (-5, 5)], [(-5, 0), (5, 0), (5, 5), (-5, 5)], [(-5, -5), (5, -5), (0, 5)], [(-5, 0), (5, 0), (2, 5)], [(0, -5), (5, 0), (0, 5), (-5, 0)],
                    [(-5, -5), (5, -5), (5, 0), (-5, 0)]):
            r = _check_real_face([math.radians(p[0]) % (2 * PI) for p in pts], [math.radians(p[1]) for p in pts])
            if r:
                return r
        return None

    return Obligation(oid, "_pole_point_inside_polygon hands every edge to the count of its own hemisphere's reference arc", setup, run, replay, exact=False,
                      functions=["geometry._pole_point_inside_polygon", "geometry._classify_polygon_location"],
                      bounds=f"{n} corners with symbolic coordinates (z = 0 or |z| >= 1e-3), both pole queries", stubs=["_check_intersection -> recorder returning an abstract count"], max_paths=4000)


def make_pole_count(oid, n=3):
    """_check_intersection: the crossing count of the reference arc pole -> (1,0,0) with the boundary of a face on the pole's hemisphere has the parity of
    the true number of crossings (interior crossings + corners at which the boundary changes sides)"""
    def setup(ctx):
        V = [[z3.Real(f"v{k}_{c}") for c in "xyz"] for k in range(n)]
        X = [[z3.Real(f"x{k}_{c}") for c in "xyz"] for k in range(n)]
        kind = [ctx.int(f"kind_{k}", 0, 3) for k in range(n)]       # 0 none, 1 interior point, 2 at the edge's start corner, 3 at its end corner
        S = ctx.solver
        m = sc.lift(1e-3)
        for k in range(n):
            v, x = V[k], X[k]
            S.add(v[2] >= sc.lift(0.1), v[2] <= sc.lift(0.95), v[0] >= -1, v[0] <= 1, v[1] >= -1, v[1] <= 1, z3.Or(v[1] == 0, v[1] >= m, v[1] <= -m))
            S.add(x[1] == 0, x[0] >= sc.lift(0.05), x[0] <= 1, x[2] >= sc.lift(0.05), x[2] <= sc.lift(0.95))
            for j in range(n):
                S.add(z3.Or(x[0] - V[j][0] >= m, V[j][0] - x[0] >= m))
                if j < k:
                    S.add(z3.Or(x[0] - X[j][0] >= m, X[j][0] - x[0] >= m), z3.Or(v[0] - V[j][0] >= m, V[j][0] - v[0] >= m))
        kz = [sc.z(k_) for k_ in kind]
        y = [V[k][1] for k in range(n)]
        opp = lambda a, b: z3.Or(z3.And(a > 0, b < 0), z3.And(a < 0, b > 0))     # noqa: E731
        for k in range(n):
            k1, k2 = (k + 1) % n, (k + 2) % n
            S.add(z3.Implies(kz[k] == 2, y[k] == 0), z3.Implies(kz[k] == 3, y[k1] == 0), (kz[k] == 3) == (kz[k1] == 2))
            S.add(z3.Implies(kz[k] == 1, opp(y[k], y[k1])))
            S.add(z3.Implies(kz[k] == 3, z3.And(y[k] != 0, y[k2] != 0)))          # no edge along the reference meridian
        hits = z3.Sum([z3.If(kz[k] == 1, 1, 0) + z3.If(kz[k] == 3, 1, 0) for k in range(n)])
        S.add(hits <= 2)                                                          # a great circle meets the boundary of a convex face at most twice ...
        S.add(z3.Implies(hits == 2, z3.And(*[z3.Implies(kz[k] == 3, opp(y[k], y[(k + 2) % n])) for k in range(n)])))   # ... and then passes through it
        ctx.eng.declare("V", V); ctx.eng.declare("X", X)
        return V, X, kind

    def run(ctx, inp):
        V, X, kind = inp
        sc.NL_UF[0] = True
        sc.NL_SIGN[0] = True
        g = world().G["uxarray.grid.geometry"]
        saved = g["gca_gca_intersection"], g["_unique_points"]
        A = lambda r: symnp.SArr.new([mk(x) for x in r], (3,), None, symnp.float64)      # noqa: E731
        kc = [sc.concretize(k_) for k_ in kind]

        def inter(ref_edge, edge):
            a = edge[0].flat_list()
            k = [i for i in range(n) if _same_terms(a, V[i])][0]
            if kc[k] == 0:
                return symnp.array([])
            pt = X[k] if kc[k] == 1 else (V[k] if kc[k] == 2 else V[(k + 1) % n])
            return symnp.SArr.new([mk(x) for x in pt], (1, 3), None, symnp.float64)

        def uniq(points, tolerance=None):
            out = []
            for p in points:
                if not any(_same_terms(p.flat_list(), q.flat_list()) for q in out):
                    out.append(p)
            return out
        g["gca_gca_intersection"], g["_unique_points"] = inter, uniq
        try:
            E = symnp.SArr.new([mk(x) for k in range(n) for x in (V[k] + V[(k + 1) % n])], (n, 2, 3), None, symnp.float64)
            ref = symnp.array([[0.0, 0.0, 1.0], [1.0, 0.0, 0.0]])
            res = g["_check_intersection"](ref, E)
        finally:
            g["gca_gca_intersection"], g["_unique_points"] = saved
            sc.NL_UF[0] = False
            sc.NL_SIGN[0] = False
        y = [V[k][1] for k in range(n)]
        opp = lambda a, b: z3.Or(z3.And(a > 0, b < 0), z3.And(a < 0, b > 0))     # noqa: E731
        truth = sum(1 for k in range(n) if kc[k] == 1)
        vertex_terms = [opp(y[k], y[(k + 2) % n]) for k in range(n) if kc[k] == 3]
        true_cnt = truth + z3.Sum([z3.If(t, 1, 0) for t in vertex_terms]) if vertex_terms else z3.IntVal(truth)
        rz = sc.z(res) if isinstance(res, sc.Sym) else z3.IntVal(int(res))
        ctx.prove("the count has the parity of the true number of boundary crossings (a corner counts iff its neighbours lie on opposite sides of the reference meridian)",
                  (rz % 2) == (true_cnt % 2), note=f"kinds {kc}")
        ctx.reachable("a single intersection in a corner", sum(1 for k_ in kc if k_ == 3) == 1 and truth == 0)

    def replay(v):
        # polar caps and near-pole faces with a corner exactly on longitude 0, both kinds (the meridian passes through / only touches the face)
        for pts, north in (([(0, 60), (90, 60), (180, 60), (-90, 60)], True), ([(0, 70), (120, 65), (-120, 75)], True), ([(0, -60), (-90, -60), (180, -60), (90, -60)], False)):
            r = _check_real_pole_face([p[0] for p in pts], [p[1] for p in pts], north)
            if r:
                return r
        for pts in ([(0, 60), (20, 50), (30, 70)], [(0, 40), (-25, 50), (-10, 65)], [(0, 10), (10, 12), (5, 20), (-5, 15)]):
            r = _check_real_face([math.radians(p[0]) % (2 * PI) for p in pts], [math.radians(p[1]) for p in pts])
            if r:
                return r
        return None

    return Obligation(oid, "_check_intersection: parity of the reference-arc crossing count, incl. intersections in corners", setup, run, replay, exact=False,
                      functions=["geometry._check_intersection"],
                      bounds=f"{n}-corner face on the pole's hemisphere; per edge an abstract intersection (none / interior point / start corner / end corner), at most two distinct intersection points (convexity)",
                      stubs=["gca_gca_intersection -> abstract answer per edge (its correctness is C14.intersect + C14.pwg)", "_unique_points -> de-duplication of identical points (C13.unique_points)",
                             "products of unknowns uninterpreted with the sign rule"],
                      assumptions=["geometric consistency of the abstract answers: a corner on the arc is seen by both incident edges; an interior intersection means the end corners lie on opposite sides; no edge along the meridian"],
                      max_paths=4000)


def make_box(oid, n, span, tiers=("quick", "thorough"), cost=3):
    """n corners; span: 'plain' (longitudes within [1,2] rad) or 'wrap' (the face straddles lon = 0)"""
    def setup(ctx):
        ctx.const("n", n); ctx.const("span", span)
        lon = [z3.Real(f"lon_{i}") for i in range(n)]
        lat = [z3.Real(f"lat_{i}") for i in range(n)]
        emax = [z3.Real(f"emax_{i}") for i in range(n)]
        emin = [z3.Real(f"emin_{i}") for i in range(n)]
        S = ctx.solver
        zmax = lambda a, b: z3.If(a >= b, a, b)     # noqa: E731
        zmin = lambda a, b: z3.If(a <= b, a, b)     # noqa: E731
        sep = sc.lift(1e-4)
        for i in range(n):
            j = (i + 1) % n
            if span == "plain":
                S.add(lon[i] >= 1, lon[i] <= 2)
            else:
                S.add(z3.Or(z3.And(lon[i] >= 0, lon[i] <= sc.lift(0.5)), z3.And(lon[i] >= sc.lift(2 * PI - 0.5), lon[i] < sc.lift(2 * PI - 1e-3))))
            S.add(lat[i] >= -1, lat[i] <= 1)
            S.add(emax[i] >= zmax(lat[i], lat[j]), emin[i] <= zmin(lat[i], lat[j]), emax[i] <= sc.lift(1.3), emin[i] >= sc.lift(-1.3))
            S.add(z3.Or(emax[i] == zmax(lat[i], lat[j]), emin[i] == zmin(lat[i], lat[j])))               # at most one interior extremum
            S.add(z3.Or(emax[i] == zmax(lat[i], lat[j]), emax[i] >= zmax(lat[i], lat[j]) + sep))          # margin from the 1e-8 isclose boundary
            S.add(z3.Or(emin[i] == zmin(lat[i], lat[j]), emin[i] <= zmin(lat[i], lat[j]) - sep))
        for i in range(n):
            for j in range(i + 1, n):
                S.add(z3.Or(lat[i] == lat[j], lat[i] - lat[j] >= sep, lat[j] - lat[i] >= sep))
                S.add(z3.Or(lon[i] - lon[j] >= sep, lon[j] - lon[i] >= sep))
        if span == "wrap":
            S.add(z3.Or(*[l <= sc.lift(0.5) for l in lon]), z3.Or(*[l >= sc.lift(2 * PI - 0.5) for l in lon]))
        for k, v in (("lon", lon), ("lat", lat), ("emax", emax), ("emin", emin)):
            ctx.eng.declare(k, v)
        return lon, lat, emax, emin

    def run(ctx, inp):
        lon, lat, emax, emin = inp
        w = world()
        g = w.G["uxarray.grid.geometry"]
        cur = {"i": None}
        saved = {k: g[k] for k in ("extreme_gca_latitude", "_pole_point_inside_polygon", "point_within_gca", "_insert_pt_in_latlonbox")}

        def insert_summary(old_box, new_pt, is_lon_periodic=True):
            fl = old_box.flat_list()
            empty = all((not isinstance(x, sc.Sym)) and float(x) == float(F) for x in fl)
            lat_, lon_ = sc.z(new_pt[0]), sc.z(new_pt[1])
            r = summary_insert(None if empty else tuple(sc.z(x) for x in fl), (lat_, lon_))
            return symnp.SArr.new([mk(x) for x in r], (2, 2), None, symnp.float64)
        g["_insert_pt_in_latlonbox"] = insert_summary
        g["extreme_gca_latitude"] = lambda gca, kind: mk(emax[cur["i"]]) if kind == "max" else mk(emin[cur["i"]])
        g["_pole_point_inside_polygon"] = lambda pole, edges: False
        g["point_within_gca"] = lambda *a, **k: False
        cart, ll = [], []
        for i in range(n):
            j = (i + 1) % n
            cart += [1000.0 + i, 0.0, 0.0, 1000.0 + j, 0.0, 0.0]          # opaque Cartesian payload (never FILL); the stubs ignore it
            ll += [mk(lon[i]), mk(lat[i]), mk(lon[j]), mk(lat[j])]
        EC = symnp.SArr.new(cart, (n, 2, 3), None, symnp.float64)
        EL = symnp.SArr.new(ll, (n, 2, 2), None, symnp.float64)
        orig_get = symnp.SArr.__getitem__

        def gi(self, key):
            if self is EC and isinstance(key, int):
                cur["i"] = key
            return orig_get(self, key)
        symnp.SArr.__getitem__ = gi
        try:
            box = g["_populate_face_latlon_bound"](EC, EL)
        finally:
            symnp.SArr.__getitem__ = orig_get
            g.update(saved)
        blo, bhi = sc.z(box[0][0]), sc.z(box[0][1])
        llo, lhi = sc.z(box[1][0]), sc.z(box[1][1])
        sl = sc.lift(SL)
        ctx.prove("latitude bounds enclose every corner and every edge extreme",
                  z3.And(*[z3.And(blo <= lat[i] + sl, blo <= emin[i] + sl, bhi >= lat[i] - sl, bhi >= emax[i] - sl) for i in range(n)]),
                  regions={"start_corner_of_bulging_edge_lost": True})
        ctx.prove("each latitude bound is attained by a corner or an edge extreme (tight)",
                  z3.And(z3.Or(*[z3.Or(_near(blo, lat[i], sl), _near(blo, emin[i], sl)) for i in range(n)]),
                         z3.Or(*[z3.Or(_near(bhi, lat[i], sl), _near(bhi, emax[i], sl)) for i in range(n)])))
        inside = lambda l: z3.If(llo <= lhi, z3.And(llo <= l + sl, l <= lhi + sl), z3.Or(l >= llo - sl, l <= lhi + sl))     # noqa: E731
        ctx.prove("every corner longitude lies in the reported interval (which wraps through 0 when lon_min > lon_max)", z3.And(*[inside(l) for l in lon]),
                  regions={"start_corner_of_bulging_edge_lost": True})
        ctx.prove("both longitude bounds are corner longitudes; the interval wraps exactly when the face straddles lon = 0",
                  z3.And(z3.Or(*[_near(llo, l, sl) for l in lon]), z3.Or(*[_near(lhi, l, sl) for l in lon]), (llo > lhi) == z3.BoolVal(span == "wrap")))
        ctx.reachable("an edge bulging beyond both endpoints", z3.Or(*[emax[i] > z3.If(lat[i] >= lat[(i + 1) % n], lat[i], lat[(i + 1) % n]) for i in range(n)]))

    def replay(v):
        # concretise the abstract counterexample: keep the model's corner latitudes, search a short ladder of longitude spreads for
        # which the real grid reproduces a violation; judged by dense sampling of the real great-circle edges
        lat0 = [float(x) for x in v["lat"]]
        order = np.argsort([float(x) for x in v["lon"]])
        for scale in (1.0, 0.6, 1.4):
            for base_lat_shift in (0.0, 0.45, -0.45, 0.8, -0.8):
                for dlon in (0.35, 0.7, 1.05, 1.4):
                    lat = [max(-1.45, min(1.45, scale * x + base_lat_shift)) for x in lat0]
                    lon = [0.0] * n
                    start = 1.0 if span == "plain" else -0.5 * dlon * (n - 1) / 2
                    for k, idx in enumerate(order):
                        lon[idx] = (start + k * dlon / max(1, n - 1) * (n - 1) / (n - 1 if n > 1 else 1))
                    lon = [(start + list(order).index(i) * dlon) % (2 * PI) for i in range(n)]
                    r = _check_real_face(lon, lat)
                    if r:
                        return r
        return None

    return Obligation(oid, f"lat/lon bounds of a {n}-corner face with abstract arcs, longitudes {span}", setup, run, replay, exact=False, functions=FUNCS,
                      bounds=f"{n} corners, lat in [-1,1] rad, corner latitudes equal or >= 1e-4 apart, arc extremes abstract (<= 1.3 rad), no enclosed pole, slack 1e-6",
                      stubs=["_insert_pt_in_latlonbox -> its functional summary (proven equal to the real function by C13.insert.contract)", "extreme_gca_latitude -> abstract arc (max >= both endpoints, min <= both, at most one strict)", "_pole_point_inside_polygon -> False", "point_within_gca -> False"],
                      tiers=tiers, cost=cost, max_paths=60000, timeout_s=2400)


def _near(a, b, sl):
    return z3.And(a - b <= sl, b - a <= sl)


def _check_real_face(lon, lat):
    """real Grid.bounds of one face with the given corners (radians) against dense sampling of its great-circle edges"""
    import uxarray as ux
    n = len(lon)
    lon_d, lat_d = [math.degrees(x) for x in lon], [math.degrees(x) for x in lat]
    lon_d = [((x + 180) % 360) - 180 for x in lon_d]
    # orient counter-clockwise
    pts = list(zip(lon_d, lat_d))
    try:
        g = ux.Grid.from_topology(np.array(lon_d), np.array(lat_d), np.array([list(range(n))], dtype=np.intp), fill_value=F)
        import warnings
        with warnings.catch_warnings():
            warnings.simplefilter("ignore")
            b = np.asarray(g.bounds.values)[0]
    except Exception:      # noqa: BLE001
        return None
    xyz = [np.array([math.cos(la) * math.cos(lo), math.cos(la) * math.sin(lo), math.sin(la)]) for lo, la in zip(lon, lat)]
    lats, lons = [], []
    for i in range(n):
        a, c = xyz[i], xyz[(i + 1) % n]
        om = math.acos(max(-1, min(1, float(np.dot(a, c)))))
        if om < 1e-9 or om > PI - 1e-3:
            return None
        ts = np.linspace(0, 1, 2001)
        P = (np.sin((1 - ts) * om)[:, None] * a + np.sin(ts * om)[:, None] * c) / math.sin(om)
        lats += list(np.arcsin(np.clip(P[:, 2], -1, 1)))
        lons += list(np.arctan2(P[:, 1], P[:, 0]) % (2 * PI))
    lats, lons = np.array(lats), np.array(lons)
    if max(abs(x) for x in lat) > 1.5 or (lons.max() - lons.min() > PI and not (np.any(lons < 0.6) and np.any(lons > 2 * PI - 0.6))):
        return None
    lo, hi = b[0]
    if lats.min() < lo - 1e-6 or lats.max() > hi + 1e-6:
        return f"Grid.bounds latitude [{lo:.6f}, {hi:.6f}] rad does not enclose the face with corners (lon,lat) deg {[(round(a, 4), round(c, 4)) for a, c in pts]}: boundary latitudes span [{lats.min():.6f}, {lats.max():.6f}]"
    if abs(lats.min() - lo) > 1e-5 or abs(lats.max() - hi) > 1e-5:
        return f"Grid.bounds latitude [{lo:.6f}, {hi:.6f}] rad is not tight for corners {[(round(a, 4), round(c, 4)) for a, c in pts]}: boundary latitudes span [{lats.min():.6f}, {lats.max():.6f}]"
    l0, l1 = b[1]
    ok = ((lons >= l0 - 1e-6) & (lons <= l1 + 1e-6)) if l0 <= l1 else ((lons >= l0 - 1e-6) | (lons <= l1 + 1e-6))
    if not np.all(ok):
        return f"Grid.bounds longitude interval [{l0:.6f}, {l1:.6f}] rad does not contain the boundary of the face with corners {[(round(a, 4), round(c, 4)) for a, c in pts]}"
    return None


# ------------------------------------------------------------------ edge gather helpers
def make_edges(oid, which):
    n_face, n_max, n_node = 2, 4, 6

    def setup(ctx):
        ctx.const("which", which)
        fn, nf = C.sym_face_table(ctx, n_face, n_max, n_node)
        co = [[z3.Real(f"c_{i}_{k}") for k in range(3)] for i in range(n_node)]
        for r in co:
            for x in r:
                ctx.solver.add(x >= -1, x <= 1)
        ctx.eng.declare("coords", co)
        return fn, nf, co

    def run(ctx, inp):
        fn, nf, co = inp
        g = world().G["uxarray.grid.utils"]
        fnode = C.sarr_int(fn)
        fe = None
        X = [C.sarr_1d([r[k] for r in co], symnp.float64) for k in range(3)]
        if which == "cartesian":
            out = g["_get_cartesian_face_edge_nodes"](fnode, n_face, n_max, X[0], X[1], X[2])
            w = 3
        else:
            out = g["_get_lonlat_rad_face_edge_nodes"](fnode, n_face, n_max, X[0], X[1])
            w = 2
        ctx.prove("shape (n_face, n_max, 2, width)", out.shape_cap == (n_face, n_max, 2, w))
        if out.shape_cap != (n_face, n_max, 2, w):
            return

        def sel(idx, k):
            t = co[-1][k]
            for i in range(n_node - 2, -1, -1):
                t = z3.If(idx == i, co[i][k], t)
            return t
        cl = []
        for f in range(n_face):
            for j in range(n_max):
                a = fn[f][j]
                b = z3.If(j + 1 < nf[f], fn[f][(j + 1) % n_max], fn[f][0])
                for k in range(w):
                    ga, gb = sc.z(out[f, j, 0, k]), sc.z(out[f, j, 1, k])
                    ga = z3.ToReal(ga) if z3.is_int(ga) else ga
                    gb = z3.ToReal(gb) if z3.is_int(gb) else gb
                    ea, eb = (sel(a, k), sel(b, k)) if which == "cartesian" else (_ll(sel(a, k), k), _ll(sel(b, k), k))
                    cl.append(z3.If(j < nf[f], z3.And(ga == ea, gb == eb), z3.And(ga == F, gb == F)))
        ctx.prove("edge j of face f = (corner j, corner j+1 cyclic) in order; dummies (fill) exactly where the face has no corner", z3.And(*cl))

    def _ll(deg, k):
        return deg * sc.lift(symnp.PI_Q) / 180 if which != "cartesian" else deg

    def replay(v):
        from uxarray.grid.utils import _get_cartesian_face_edge_nodes, _get_lonlat_rad_face_edge_nodes
        rows = np.array(v["fn"], dtype=np.intp)
        co = np.array(v["coords"], dtype=float)
        if which == "cartesian":
            out = _get_cartesian_face_edge_nodes(rows, n_face, n_max, co[:, 0].copy(), co[:, 1].copy(), co[:, 2].copy())
            ref = co
        else:
            out = _get_lonlat_rad_face_edge_nodes(rows, n_face, n_max, co[:, 0].copy(), co[:, 1].copy())
            ref = np.radians(co[:, :2])
            ref[:, 0] = np.mod(ref[:, 0], 2 * np.pi) if False else ref[:, 0]
        for f in range(n_face):
            c = C.face_corners(rows[f])
            for j in range(n_max):
                if j < len(c):
                    a, b = c[j], c[(j + 1) % len(c)]
                    exp = np.array([ref[a][: out.shape[-1]], ref[b][: out.shape[-1]]])
                    got = out[f, j]
                    if which != "cartesian":
                        got = np.array(got); exp = np.array(exp)
                        if not np.allclose(np.mod(got[:, 0] - exp[:, 0] + np.pi, 2 * np.pi) - np.pi, 0, atol=1e-9) or not np.allclose(got[:, 1], exp[:, 1]):
                            return f"{which} edge {j} of face {f} = {got.tolist()}, corners {a}->{b} are {exp.tolist()}"
                    elif not np.allclose(got, exp):
                        return f"{which} edge {j} of face {f} = {np.asarray(got).tolist()}, corners {a}->{b} are {exp.tolist()}"
                elif not np.all(out[f, j] == F):
                    return f"{which} edge slot {j} of face {f} (which has {len(c)} corners) is not a dummy: {np.asarray(out[f, j]).tolist()}"
        return None

    return Obligation(oid, f"per-face edge gather ({which})", setup, run, replay, exact=False, functions=FUNCS[-2:],
                      bounds="2 faces <= 4 corners (all padding layouts), nodes < 6, coordinates symbolic")


def obligations(tier):
    obs = [make_insert_contract("C13.insert.contract"), make_insert_pole("C13.insert.pole"), make_unique_points("C13.unique_points"), make_pole_split("C13.pole.split"), make_pole_count("C13.pole.count.3"),
           make_pole_count("C13.pole.count.4", 4),
           make_box_pole("C13.box.pole.north.3", 3, True), make_box_pole("C13.box.pole.south.3", 3, False),
           make_box_pole("C13.box.pole.north.4", 4, True, tiers=("thorough",), cost=20),
           make_box_pole("C13.box.polecorner.north.3", 3, True, corner_at_pole=True), make_box_pole("C13.box.polecorner.south.3", 3, False, corner_at_pole=True), make_box("C13.box.3.plain", 3, "plain"), make_box("C13.box.3.wrap", 3, "wrap"),
           make_box("C13.box.4.plain", 4, "plain", tiers=("thorough",), cost=20), make_box("C13.box.4.wrap", 4, "wrap", tiers=("thorough",), cost=20),
           make_edges("C13.edges.cartesian", "cartesian"), make_edges("C13.edges.lonlat", "lonlat")]
    return [o for o in obs if tier in o.tiers]
