#!/bin/bash
# Builds the overlay venv the checks run in: /venv's interpreter + /venv's site-packages (uxarray from /repo) + z3-solver from the offline wheelhouse.
set -e
cd "$(dirname "$0")"
V=.venv
if [ ! -x $V/bin/python ] || ! $V/bin/python -c 'import z3, uxarray' >/dev/null 2>&1; then
  rm -rf $V
  /venv/bin/python -m venv $V
  SP=$($V/bin/python -c 'import sysconfig; print(sysconfig.get_paths()["purelib"])')
  echo "import site; site.addsitedir('/venv/lib/python3.12/site-packages')" > "$SP/_overlay.pth"
  PIP_NO_INDEX=1 $V/bin/pip install -q --no-index --find-links /opt/veriftools/wheels z3-solver >/dev/null
  $V/bin/python -c 'import z3, uxarray; print("overlay venv ok: z3", z3.get_version_string(), "uxarray from", uxarray.__file__)'
fi
