#!/bin/bash
# usage: tools/round3.sh <seed id> : confirm a sub-agent's change from /tmp/seed3/<id> (kept as seeded/<id> when confirmed) and run the seed matrix on it
id=$1
/verif/tools/confirm_seed.sh /tmp/seed3/$id $id 2>&1 | tail -2
[ -d /verif/seeded/$id ] && /verif/tools/seed_matrix.sh $id
