#!/bin/bash
# usage: tools/try_seed.sh <patch.diff> <PROP> [extra vv args]
# applies a seeded change to a scratch worktree of /repo HEAD and runs the check against that worktree (VERIF_REPO)
P=$1; ID=$2; shift 2
WT=$(mktemp -d /tmp/ts_XXXXXX); rmdir $WT
git -C /repo worktree add -q --detach $WT HEAD || exit 9
trap "git -C /repo worktree remove --force $WT" EXIT
( cd $WT && (git apply --3way "$P" 2>/dev/null || git apply "$P") ) || { echo "PATCH DOES NOT APPLY"; exit 9; }
git -C $WT diff HEAD --stat | tail -1
cd /verif && VERIF_REPO=$WT VERIF_EVIDENCE_DIR=/tmp/ts_evidence VERIF_PROGRESS=0 timeout 3000 ./vv check $ID "$@" 2>&1 | grep -E "VIOLATION|KNOWN|HARNESS|rc=|note:" | grep -v Traceback | cut -c1-260 | head -14
