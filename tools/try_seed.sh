#!/bin/bash
# usage: tools/try_seed.sh <patch.diff> <PROP> [extra vv args]  -- applies a seeded change to /repo, runs the quick check, reverts
P=$1; ID=$2; shift 2
cd /repo && git apply --3way "$P" 2>/dev/null || git apply "$P" || { echo "PATCH DOES NOT APPLY"; exit 9; }
git -C /repo diff --stat | tail -1
cd /verif && timeout 3000 ./vv check $ID "$@" 2>&1 | grep -E "VIOLATION|KNOWN|HARNESS|rc=|note:" | head -12
cd /repo && git reset -q && git checkout -q -- . && git status --short | grep -v '^??'
