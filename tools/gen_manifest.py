#!/usr/bin/env python3
"""Regenerates MANIFEST.json from the table below (single source of truth for the interface)."""
import json, os
HERE = os.path.dirname(os.path.dirname(os.path.abspath(__file__)))
TECH = "bounded symbolic execution of the real uxarray code objects (clone world, numpy/xarray shims) + z3 SMT queries per path; every counterexample replayed on the unmodified library"
BASE = "cd /repo && /venv/bin/python -m pytest -ra -q -p no:cacheprovider --timeout=900 --continue-on-collection-errors"

# id -> (claimed, level text, level note, design ref)
P = {
 "C02": (True,
  "For every face-node table inside the bound (all node numberings, start corners and padding layouts at once) z3 shows that the edge tables produced by the real Grid properties are exactly the boundary segments: unsat of the negated set-form spec on every symbolic path; counterexamples are concrete tables replayed on the real library.",
  "Bounds: 1 face <=6 corners; 2 faces <=4 (quick) / <=5 (thorough) corners; 3 triangles; tetrahedron and triangular prism with symbolic numbering. Larger meshes are outside the claim. Trusted: symnp/symxr shims (differentially validated on the repo's own test tables each run), np.unique modelled by its documented contract (functional encoding cross-checked in the thorough tier), z3.",
  "DESIGN.md §2 C02, §1.10"),
 "C20": (True,
  "One query per path decides, for every pair of grids inside the bound, that == holds exactly when format label, all longitudes, all latitudes and the whole connectivity table coincide, that != is its negation, symmetry, reflexivity, copy-equality and non-Grid comparison.",
  "Bounds: <=5 nodes, tables <=3x4, three format labels, coordinates arbitrary reals in range (no NaN); pairs with equal shapes, different node/face counts, different table widths, and two grids sharing one dataset object. Trusted: symxr.DataArray.equals as a model of xarray's, z3.",
  "DESIGN.md §2 C20"),
 "C06": (True,
  "The real UxDataArray.integrate runs over a real (cloned) Grid whose compute_face_areas executes for real; only the quadrature kernel is an uninterpreted non-negative area function A(face, rule, order). z3 shows, for every data array in the bound and every rule/order, that the result is sum_f A(f,rule,order)*v[...,f] with exactly the face dimension removed, same name and grid; that node- and edge-centred data are rejected even when element counts coincide; and that an earlier area computation with other arguments on the same grid (history) does not change the result.",
  "Bounds: 3 fixed small grids (incl. n_face=n_node and n_face=n_node=n_edge), 0..3 leading dims of length 2, rules {triangular,gaussian} x orders {1,4,8}, float data arbitrary reals, int data in [-3,3]. Abstracted obligation: sat models are candidates judged by a concrete replay against the low-level area kernel. Trusted: symnp.einsum (validated against numpy each run), z3.",
  "DESIGN.md §2 C06"),
 "C16": (True,
  "edge_node/edge_face tables, face centres and data are symbolic, so 'which node/face does entry e refer to' is a solver variable: z3 shows that the real distance kernels apply the great-circle formula (trig uninterpreted, degrees converted exactly once) to edge e's own two nodes / the centres of its own two faces, 0 on boundary edges, source-supplied distances passed through; and that difference/gradient equal |v[a]-v[b]| (/distance) per leading index, 0 on boundary edges, unit norm when normalised, on edge-dimensioned results of the same grid.",
  "Bounds: 5 nodes, 3 faces, 3-5 edges with arbitrary end nodes/adjacent faces, leading dims up to (2,2), float and int data, coordinates pairwise >=3 degrees apart (genericity), optional source-supplied xyz on a sphere of arbitrary radius. Distance obligations are abstracted (UF trig): sat models are candidates judged by a replay against an independent chord-length oracle (1e-6). Trusted: shim masked/fancy indexing (validated against numpy each run), z3 NRA for the normalisation clause.",
  "DESIGN.md §2 C16"),
 "C03": (True,
  "One symbolic run through the real edge construction and the real incidence builders (njit loops via their Python bodies): for every manifold face table in the bound z3 shows that edge_face[e] lists exactly the faces bounded by e (padding iff boundary edge), hole_edge_indices are exactly the single-face edges, face_face[f] holds the other-side faces once per shared edge with padding at the end, node_face[n] lists exactly the faces with corner n; all in the standard integer dtype; source-supplied edge_face is carried unchanged.",
  "Bounds: quick 2 triangles, 2 faces with sizes (3,4)/(4,3), node ids < 4..5; thorough every padding layout of 2 faces <= 4 corners and 3 triangles. node_face's dict-keyed builder forks over node ids (solver-driven value enumeration, stated in the evidence). Manifold precondition assumed. Trusted: shim (validated on the repo's test tables each run), relational np.unique contract, z3.",
  "DESIGN.md §2 C03"),
 "C05": (True,
  "(i) every literal quadrature table of the real code integrates every polynomial of the rule's degree (symbolic coefficients, LRA) with positive weights and interior points; (ii) the real Jacobian routines, executed symbolically in the quadrature point, equal the area element |det[F,Fa,Fb]|/|F|^3 of the radial projection on 4 rational triangles (polynomial identity, z3 nlsat); (iii) the real calculate_face_area is exactly the weight x Jacobian sum over the fan triangles (0,j+1,j+2), each once, from lon/lat or xyz, and is >= 0; (iv) the real Grid.compute_face_areas hands each face its own corners in order, unpadded, in the requested coordinate system with the requested rule/order, total area is their sum; (v) face_areas is the default-rule result regardless of earlier computations.",
  "Outside the claim (transcendental, no SMT theory here bounds it): agreement with the exact spherical excess, the 1e-2/1e-4/1e-6 accuracy ladder, convergence, rotation/start-corner/coordinate invariance of the value, additivity under subdivision; the Jacobian identity for symbolic node vectors (nlsat unknown after 300 s with 3 symbolic components). Bounds: rules gaussian 1..10 / triangular 1,4,8,10,12; faces of 3..8 corners; 2 faces <= 4 corners for the gather. Trusted: shim, z3 (LRA, nlsat).",
  "DESIGN.md §2 C05"),
 "C17": (True,
  "The real aggregation code (partitioning by face size, fancy gather, scatter of the per-partition results) runs on a symbolic face-node table and symbolic data; the ten numpy reductions are replaced by a recorder H_k(operand row). z3 shows that, for every node numbering, the operand handed to the reduction for face f (edge e) is exactly that element's own corner values, in order, with no padding, that the result lands at position f, for every leading index and every reduction; dims/grid/name of the result; unsupported source/destination combinations raise.",
  "Bounds: 3 faces with every size layout in {3,4,5}^3 (10 layouts quick, all 27 thorough), 4-5 face layouts with size gaps (3,5,3,5), (4,3,3,5), (6,3,3,6), node ids < 6-7, leading dims up to (2,2), edges with symbolic end nodes. n_nodes_per_face is supplied to the grid (its derivation is C02's subject). numpy's reductions themselves are trusted. Abstracted obligation: sat models are candidates judged by a concrete replay with all ten real reductions.",
  "DESIGN.md §2 C17"),
 "C04": (True,
  "Data-flow / unit / range / provenance check of the real coordinate code with uninterpreted trigonometry: for every node position and every provenance (lon/lat only incl. 0..360 longitudes, centres supplied as lon/lat or derived, xyz only) and several first-access orders z3 shows that node/edge/face x,y,z are the unit vectors of the reported degrees (exactly one deg->rad conversion), centres not supplied are the normalised mean of the element's own corner vectors, derived lon/lat are rad2deg of arctan2(y,x)/arcsin(z) of the reported xyz with the pole snap taking the sign of z, all longitudes are reported in [-180,180] congruent to the source mod 360; normalize_cartesian_coordinates leaves every node and face-centre triple with unit length and unchanged direction.",
  "Floats as reals; sin/cos/arcsin/arctan2/sqrt uninterpreted with the listed axioms (ranges of the inverse functions, sqrt(1)=1); products/quotients of two non-constant reals are uninterpreted in the data-flow obligations ('algebra-free' mode, commutativity and unit lemmas instantiated), so value-level identities such as sin^2+cos^2=1 are not used; rounding and the accuracy of numpy's trig are outside. Bounds: 2 faces (4+3 corners) over 5 nodes, 7-8 first accesses, 3 access orders; the normalisation obligation fixes 7 rational directions and keeps lengths symbolic. Abstracted obligations: sat models are candidates judged by a concrete replay (same direction within 1e-6).",
  "DESIGN.md §2 C04"),
 "C01": (True,
  "For each reader the in-memory source's contents AND dialect are symbolic (index base, declared fill value, integer width / float storage, padding by zeros, repeats or garbage, arbitrary variable/dimension names, 0..360 longitudes); z3 shows that the Grid built by the real reader through the public constructors (incl. format sniffing) has the source's faces in order with the source's corner indices shifted to zero base, padding only at the row end in the single standard fill value and platform integer type, longitudes in [-180,180] congruent mod 360, and that shipped connectivity / centres / distances / areas are carried with the same meaning (MPAS primal and dual role swap).",
  "Readers covered: explicit topology arrays, UGRID, ESMF, MPAS primal+dual, Exodus (single block; coord and coordx/y/z layouts), the shared _replace_fill_values kernel, format sniffing. Not covered in this round (no obligation, a change there is not detected): SCRIP, GEOS-CS, ICON, shapefile/GeoJSON, from_face_vertices, multi-block Exodus, reading bytes from files (C libraries). Bounds: 2 faces <= 4 corners (all padding layouts), node ids < 6, MPAS 2 cells/4 vertices/3 edges. Trusted: symxr as a model of xarray (rename/filter_by_attrs/isel/attrs fall-through), z3.",
  "DESIGN.md §2 C01"),
 "C19": (True,
  "Aliasing decided on reference-faithful dataset/array stand-ins with symbolic contents: (i) after Grid.from_topology / Grid.from_dataset(UGRID) and first use, every input buffer, attribute dictionary and the input dataset's variable set equal their snapshots; (ii) after copy(), a public mutator on either side (coordinate setter, normalize_cartesian_coordinates, construct_face_centers, lazy derivation + setter) leaves every observation on the other side unchanged; (iii) after an arbitrary caller edit of the dataset returned by to_xarray('ugrid') (in-place value / connectivity edit, attribute edit, variable deletion) the Grid reports what it reported before.",
  "Bounds: 2 faces <= 4 corners, nodes < 6, lon in [0,360] (wrap branch), start_index in {0,1}, fill dialects none/-1/standard, int32/int64. Not covered here: chunk() (dask), to_geodataframe/to_polycollection/to_linecollection objects (see C15), list/tuple inputs. Trusted: symxr's sharing semantics (variables shared between a Dataset and the DataArrays it hands out, shallow-copied attrs on assignment, copy-on-assign Dataset.attrs) as a model of xarray's; every model is replayed on real numpy/xarray objects.",
  "DESIGN.md §2 C19"),
 "C15": (True,
  "The real shell/antimeridian/collection/frame builders and the cache logic of Grid.to_polycollection / to_geodataframe / to_linecollection and of the UxDataArray wrappers run over recording stubs of matplotlib, shapely, (geo|spatial)pandas, antimeridian and cartopy. With all node longitudes symbolic, z3 shows: antimeridian_face_indices are exactly the faces with an edge spanning >= 180 deg; under 'exclude' polygon/row k is the k-th non-crossing face (corners in order, first corner repeated) and corrected_to_original_faces / the data value k belong to it; under 'ignore'/'split' one polygon per face in order, 'split' passes exactly the crossing faces through fix_polygon, paired with their own face; data stay aligned for both engines. With conversion arguments and 2-3 call histories symbolic: every result equals a fresh conversion with its own arguments, objects handed out earlier are not altered, polycollections are distinct objects, the grid's node_lon is unchanged.",
  "Outside: what shapely / antimeridian.fix_polygon / cartopy compute (pure-function stubs), float32 rounding of shells (0.5 deg margin from |dlon|=180), 'split' piece geometry. Bounds: 4 faces (2 quads + 2 triangles, padding present) over 8 nodes; histories over periodic_elements x projection in {None, lon_0=0, lon_0=90} x cache x override (x engine, x via-data), argument domains per obligation in the evidence. Abstracted: candidates are replayed on the real libraries (matplotlib, spatialpandas, geopandas, cartopy Robinson).",
  "DESIGN.md §2 C15"),
 "C11": (True,
  "sklearn's trees are replaced by a recorder. (i) Over 2-3 call histories of get_ball_tree / get_kd_tree with symbolic (element kind, coordinate system, metric, reconstruct) the tree handed back was built from the requested element kind's arrays in the requested system ((lat,lon) radians or xyz) with the requested metric. (ii) With symbolic query points, k and radius: the columns handed to sklearn are the query point in the order and unit of the tree's own columns, the radius is converted to radians exactly when the tree is spherical and in_radians=False, returned distances are converted back likewise, row i answers query i (squeeze for single points), k outside 1..n and negative radii raise.",
  "Outside the claim: that sklearn's search returns the true k nearest / radius set (compiled code) - and with it the antimeridian/pole clause, which follows from the metric being haversine/chord if sklearn is right. Candidates are replayed on the real sklearn trees and judged by a brute-force search under the tree's metric. Bounds: 5-node grid, 1-2 query points, k in 0..7, 4 tree configurations.",
  "DESIGN.md §2 C11"),
 "C12": (True,
  "sklearn's tree is a recorder returning symbolic neighbour indices and ascending non-negative distances. For nearest-neighbour remapping z3 shows that the source tree is built from the element kind the data live on (also on grids where n_node = n_face, and after an earlier remap of another kind with the same options), in the requested coordinate type; that the query points are the destination elements of remap_to; that dest[..., j] = src[..., nearest(j)] for every leading index; output dims and grid. For inverse-distance weighting (real code, symbolic distances): the result lies between min and max of the k neighbours, constants are reproduced, and for k = 2 the result is the 1/(d^p+1e-6)-weighted normalised sum with positive weights non-increasing in distance (z3 nlsat).",
  "Outside: that sklearn's query returns the true nearest sources (as C11). Weight monotonicity in closed form is decided for k = 2, powers 1..3; for k = 3 (power 1) only convexity and constants (nlsat unknown beyond). Candidates are judged by a replay on real grids with a tie-tolerant brute-force great-circle search, and for IDW by reading the weights back with indicator fields. Bounds: source grids 'mixed' (3 faces/6 nodes/8 edges) and 'tetra' (n_face = n_node), destination 2 faces/5 nodes/6 edges, leading dims up to (2,2).",
  "DESIGN.md §2 C12"),
 "C08": (True,
  "Histories are decided pairwise on a cloned Grid with symbolic node coordinates: for every ordered pair (op1, op2) drawn from 29 public read-only operations - op1 applied to the same grid or to another grid of the process - the solver shows that op2's result (structure and every value, as terms over the coordinates) equals op2 on a freshly built grid, that exports contain every fresh variable with the same value plus only derived variables holding the grid's own values (topology attributes naming only what the export contains), and that no module-level constant of uxarray.conventions differs from its import-time snapshot. Longer histories with symbolic arguments over the caches (plot conversions, search trees, face areas) are decided by the C15/C11/C05/C06 cache obligations.",
  "Bounds: histories of length 2 (op1; op2) - sound for longer histories only together with the cache obligations of C15/C11/C05, not an induction proof; 3 faces (4+3+3 corners) over 6 nodes away from the antimeridian; Grid.dims/sizes/coordinates/connectivity (which by design enumerate what is materialised) are observed only in their history-independent part. Outside: chunk() (dask), bounds, get_dual, numba/dask caches, JIT on/off (exercised only in replays). Stubs as C15/C11/C05; trig and products uninterpreted (values compared as terms).",
  "DESIGN.md §2 C08"),
 "C14": (True,
  "(i) The real decision logic of point_within_gca (incl. in_between, _decide_pole_latitude) is executed on symbolic real (lon, lat) of both endpoints and the query point, the plane test assumed satisfied; z3 shows the verdict equals exact geometry: generic arcs (incl. arcs wrapping through lon = 0, directed and undirected) - on the arc iff the longitude lies in the shorter closed interval; meridian arcs - same meridian and latitude between; arcs through a pole - on the leg of the point's own meridian between its endpoint and the pole the minor arc passes. Swapping endpoints and rotating about the polar axis are covered because the spec is symmetric and rotation-invariant and holds for all inputs. (ii) extreme_gca_latitude: the closed-form parameter is the stationary point of latitude along the chord for ALL unit endpoints (polynomial identity, z3 nlsat), the interior candidate is the chord point at that parameter, evaluated iff 0 < d < 1, and the result is the max/min over the endpoints' and the candidate's latitude (term-level data flow).",
  "All with a 1e-6 rad margin from every decision boundary. Outside: whether float64 rounding keeps the plane test within MACHINE_EPSILON (QF_FP with ~30 multiplications, a sqrt and a division does not finish); gca_gca_intersection (no obligation in this round); value-level correctness of extreme_gca_latitude beyond the stationarity identity (the 2-parameter rational formulation did not finish in nlsat - candidates are judged by dense sampling of real arcs). Replays of pole/meridian cases are rotated into the plane y = 0 so that the float64 plane test is exactly 0.",
  "DESIGN.md §2 C14"),
}
NA = {
 "C10": "Quantifies over arbitrary compositions of xarray's own operations; whether the grid survives is decided inside xarray/numpy C-level dispatch which symbolic values cannot cross, and there is no bounded uxarray kernel to encode (DESIGN.md §4).",
}
PENDING = "check not built yet in this round (planned, see DESIGN.md §5); not claimed until its obligations run"

ids = [json.loads(l)["id"] for l in open(os.path.join(HERE, "properties.jsonl"))]
checks, na = [], []
for i in ids:
    if i in P and P[i][0]:
        _, text, note, ref = P[i]
        checks.append({
            "property_id": i,
            "quick_cmd": f"./vv check {i} --tier quick",
            "thorough_cmd": f"./vv check {i} --tier thorough",
            "evidence_file": f"/verif/evidence/{i}.json",
            "replay_cmd_template": "./vv replay {path}",
            "engine": "symex",
            "level_claimed": {"category": "model_checking", "text": text, "design_ref": ref},
            "level_note": note,
            "technique": TECH,
        })
    else:
        na.append({"property_id": i, "reason": NA.get(i, PENDING)})
m = {
 "version": 1,
 "setup_cmd": "./setup.sh",
 "hooks": {"guard": "UXARRAY_VERIF", "enable": "no source hooks are needed: the checks clone the code objects of /repo's working tree at run time (UXARRAY_VERIF is reserved and unused)",
           "baseline_off_cmd": BASE, "source_commits": [], "add_only": True},
 "engines": [{"name": "symex", "path": "/verif/symex", "serves_properties": [c["property_id"] for c in checks],
              "kind_free_text": "path-forking symbolic executor for Python bytecode of the real library over z3 (Int/Real), with symbolic numpy/xarray shims"}],
 "checks": checks,
 "not_applicable": na,
 "notes": "Exit codes: 0 all obligations discharged; 1 + VIOLATION line = replayed counterexample not listed in known_findings.json; 3 = harness inconclusive (never a VIOLATION). Fix commits in /repo are listed in known_findings.json under 'fixed'.",
}
json.dump(m, open(os.path.join(HERE, "MANIFEST.json"), "w"), indent=1)
print("claimed:", [c["property_id"] for c in checks], "not claimed:", [x["property_id"] for x in na])
