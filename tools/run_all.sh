#!/bin/bash
# runs every claimed check at the given tier against /repo, sequentially; prints one line per check
# usage: tools/run_all.sh [quick|thorough] [per-check timeout in seconds]
TIER=${1:-quick}
CAP=${2:-7200}
cd /verif
for id in $(python3 -c "import json;print(' '.join(c['property_id'] for c in json.load(open('MANIFEST.json'))['checks']))"); do
  s=$(date +%s); VERIF_PROGRESS=0 timeout $CAP ./vv check $id --tier $TIER > /tmp/runall_${TIER}_$id.log 2>&1; rc=$?; e=$(date +%s)
  echo "$id tier=$TIER rc=$rc wall=$((e-s))s violations=$(grep -c VIOLATION /tmp/runall_${TIER}_$id.log) $(grep -oE 'obligations=[0-9]+ discharged=[0-9]+' /tmp/runall_${TIER}_$id.log | tail -1)"
done
