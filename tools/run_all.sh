#!/bin/bash
# runs every claimed check at the given tier against /repo, sequentially; prints one line per check
TIER=${1:-quick}
cd /verif
for id in $(python3 -c "import json;print(' '.join(c['property_id'] for c in json.load(open('MANIFEST.json'))['checks']))"); do
  s=$(date +%s); VERIF_PROGRESS=0 ./vv check $id --tier $TIER > /tmp/runall_$id.log 2>&1; rc=$?; e=$(date +%s)
  echo "$id rc=$rc wall=$((e-s))s $(grep -c VIOLATION /tmp/runall_$id.log) violations"
done
