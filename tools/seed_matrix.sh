#!/bin/bash
# usage: tools/seed_matrix.sh [seed ids...]   - runs the quick check of each seed's property (plus listed extra properties)
# against a scratch worktree carrying the seeded change and records which obligations report a violation.
cd /verif
OUT=/verif/seeded/results.tsv
[ $# -eq 0 ] && set -- $(ls seeded | grep -E '^C[0-9]+[a-z]$')
declare -A EXTRA=( [C03b]="C01" [C19b]="C15" [C13b]="C14" [C18d]="C04" [C03d]="C01" [C03c]="C08" [C19c]="C01" [C08c]="C11" [C08d]="C07" [C02e]="C09" [C16e]="C02" [C17f]="C01" [C12e]="C11" [C09e]="C02" [C08f]="C04" [C08e]="C15" [C19e]="C01" [C19f]="C15" [C20e]="C19" [C06e]="C05" [C06f]="C05" [C07f]="C01" [C07e]="C19" [C16f]="C04" [C18f]="C08" )
for s in "$@"; do
  P=${s:0:3}
  for prop in $P ${EXTRA[$s]}; do
    WT=$(mktemp -d /tmp/sm_XXXXXX); rmdir $WT
    git -C /repo worktree add -q --detach $WT HEAD || continue
    if ( cd $WT && (git apply --3way /verif/seeded/$s/patch.diff 2>/dev/null || git apply /verif/seeded/$s/patch.diff) ) 2>/dev/null; then
      t0=$(date +%s)
      res=$(VERIF_REPO=$WT VERIF_EVIDENCE_DIR=/tmp/ts_evidence VERIF_PROGRESS=0 timeout 3000 ./vv check $prop 2>&1)
      rc=$(echo "$res" | grep -oE "rc=[0-9]+" | tail -1)
      obs=$(echo "$res" | grep -oE "replay=/verif/replays/${prop}_[A-Za-z0-9_.]+_[0-9a-f]{10}" | sed -E "s#replay=/verif/replays/${prop}_##; s#_[0-9a-f]{10}\$##" | sort -u | tr '\n' ' ')
      echo -e "$s\t$prop\t$rc\t$(( $(date +%s) - t0 ))s\t$obs" | tee -a $OUT
    else
      echo -e "$s\t$prop\tPATCH-DOES-NOT-APPLY\t\t" | tee -a $OUT
    fi
    git -C /repo worktree remove --force $WT
  done
done
