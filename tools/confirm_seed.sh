#!/bin/bash
# usage: tools/confirm_seed.sh <seed dir with patch.diff demo.py meta.json> <name e.g. C20a>
# Confirms in a scratch worktree of /repo HEAD: demo passes unpatched, fails patched, stable test-suite still passes patched.
D=$1; N=$2; WT=/tmp/cs_$N
git -C /repo worktree add -q --detach $WT HEAD || exit 9
trap "git -C /repo worktree remove --force $WT" EXIT
cd $WT
PYTHONPATH=$WT /venv/bin/python $D/demo.py >/dev/null 2>&1; r0=$?
git apply --3way $D/patch.diff >/dev/null 2>&1 || git apply $D/patch.diff || { echo "$N: PATCH DOES NOT APPLY to HEAD"; exit 8; }
PYTHONPATH=$WT /venv/bin/python $D/demo.py >/dev/null 2>&1; r1=$?
base=$(/verif/tools/run_baseline.sh $WT | tail -1)
echo "$N: demo unpatched rc=$r0 (want 0), patched rc=$r1 (want 1), $base"
if [ $r0 = 0 ] && [ $r1 = 1 ] && [ "$base" = "BASELINE OK" ]; then
  mkdir -p /verif/seeded/$N && git -C $WT diff HEAD > /verif/seeded/$N/patch.diff && cp $D/demo.py /verif/seeded/$N/demo.py
  /venv/bin/python - $D/meta.json /verif/seeded/$N/meta.json "$N" <<'PY'
import json,sys
m=json.load(open(sys.argv[1])); m["name"]=sys.argv[3]
m["confirmed"]="tools/confirm_seed.sh: scratch worktree of /repo HEAD; demo.py exit 0 unpatched, exit 1 patched; 177/177 stable tests pass with the patch (run_baseline)"
json.dump(m,open(sys.argv[2],"w"),indent=1)
PY
  echo "$N: KEPT"
else echo "$N: REJECTED"; fi
