#!/usr/bin/env python3
"""assembles DESIGN.md from tools/design/*.md, known_findings.json and seeded/results.tsv"""
import json, re, os, collections
V = "/verif"
head = open(f"{V}/tools/design/head.md").read()
props = open(f"{V}/tools/design/props.md").read()
c10 = open(f"{V}/tools/design/c10.md").read()
c18 = open(f"{V}/tools/design/c18.md").read()
tail = open(f"{V}/tools/design/tail.md").read()

# seed results
res = collections.defaultdict(list)     # seed -> [(prop, rc, obligations)]
p = f"{V}/seeded/results.tsv"
if os.path.exists(p):
    for line in open(p):
        f = line.rstrip("\n").split("\t")
        if len(f) >= 5:
            res[f[0]].append((f[1], f[2], f[4].split()))


def caught(seed):
    hits = []
    for prop, rc, obs in res.get(seed, []):
        if obs:
            hits.append(", ".join(f"`{o}`" for o in obs[:4]) + (" …" if len(obs) > 4 else ""))
    if hits:
        return "; ".join(hits)
    return "not reported (see §6)" if seed in res else "not run"


def fill(text):
    out = []
    for line in text.split("\n"):
        m = re.match(r"^- (C\d\d[a-z]):", line)
        if m:
            cur = m.group(1)
        if "caught by: ?" in line:
            line = line.replace("caught by: ?", "reported by: " + caught(cur))
        out.append(line)
    return "\n".join(out)


sections = re.split(r"(?m)^(?=### C\d\d )", props)
sections = [s for s in sections if s.strip()]
byid = {s[4:7]: s for s in sections}
byid["C10"] = c10
byid["C18"] = c18
body = "".join(fill(byid[k]).rstrip() + "\n\n" for k in sorted(byid))

k = json.load(open(f"{V}/known_findings.json"))
fixed = collections.defaultdict(list)
for line in k["fixed"]:
    m = re.match(r"fixed: property=(C\d\d) (\S+) (.*)", line)
    fixed[m.group(1)].append((m.group(2), m.group(3)))
ftab = "| property | commit | what failed |\n|---|---|---|\n" + "".join(f"| {p_} | {h[:8]} | {w} |\n" for p_ in sorted(fixed) for h, w in fixed[p_])
ftab += f"\n{sum(len(v) for v in fixed.values())} defects in {len(fixed)} properties."

stab = "| seed | change (file) | reported by (quick tier) |\n|---|---|---|\n"
for s in sorted(d for d in os.listdir(f"{V}/seeded") if re.match(r"C\d\d[a-z]$", d)):
    meta = json.load(open(f"{V}/seeded/{s}/meta.json"))
    files = ", ".join(os.path.basename(x) for x in meta.get("files", []))
    summ = meta["summary"].split(". ")[0][:170].replace("|", "/")
    stab += f"| {s} | {summ} ({files}) | {caught(s)} |\n"

tail = tail.replace("@@FIXED@@", ftab).replace("@@SEEDS@@", stab)
nseeds = len([d for d in os.listdir(f"{V}/seeded") if re.match(r"C\d\d[a-z]$", d)])
head = head.replace("@@NFIX@@", str(sum(len(v) for v in fixed.values()))).replace("@@NSEEDS@@", str(nseeds))
open(f"{V}/DESIGN.md", "w").write(head + body + tail)
print("DESIGN.md", len((head + body + tail).split("\n")), "lines")
