#!/bin/bash
# confirm both seeds of a property, then drop the sub-agent's worktree
ID=$1
for s in a b; do [ -d /tmp/seed/$ID/$s ] && /verif/tools/confirm_seed.sh /tmp/seed/$ID/$s $ID$s; done
git -C /repo worktree remove --force /tmp/wt_$ID 2>/dev/null
