#!/bin/bash
# usage: tools/run_baseline.sh <worktree>   -> last line "BASELINE OK" when every stable test of /root/.vp/BASELINE.json passes there
WT=$1; J=$(mktemp /tmp/junit_XXXXXX.xml)
( cd $WT && PYTHONPATH=$WT /venv/bin/python -m pytest -q -p no:cacheprovider --timeout=900 --continue-on-collection-errors --junitxml=$J >/dev/null 2>&1 )
/venv/bin/python - $J <<'PY'
import sys, json, ast, xml.etree.ElementTree as ET
b = json.load(open('/root/.vp/BASELINE.json'))
st = b['stable_pass']; st = ast.literal_eval(st) if isinstance(st, str) else st
ok = set()
for tc in ET.parse(sys.argv[1]).getroot().iter('testcase'):
    if not any(c.tag in ('failure', 'error', 'skipped') for c in tc):
        ok.add(tc.get('classname') + '::' + tc.get('name'))
miss = [t for t in st if t not in ok]
print('passed stable:', len(st) - len(miss), '/', len(st)); [print('  MISSING', m) for m in miss[:10]]
print('BASELINE OK' if not miss else 'BASELINE BROKEN')
PY
rm -f $J
