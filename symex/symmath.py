"""math-module stand-in for the clone world: scalar functions that stay symbolic."""
import math as _m
from . import symnp as _s
from .core import Sym as _Sym

pi = _m.pi
e = _m.e
inf = _m.inf
nan = _m.nan


def _w(npf, mf):
    def f(*a):
        if any(isinstance(x, _Sym) for x in a):
            return npf(*a)
        return mf(*a)
    return f


sin = _w(_s.sin, _m.sin)
cos = _w(_s.cos, _m.cos)
tan = _w(_s.tan, _m.tan)
asin = _w(_s.arcsin, _m.asin)
acos = _w(_s.arccos, _m.acos)
atan = _w(_s.arctan, _m.atan)
atan2 = _w(_s.arctan2, _m.atan2)
sqrt = _w(_s.sqrt, _m.sqrt)
radians = _w(_s.deg2rad, _m.radians)
degrees = _w(_s.rad2deg, _m.degrees)
fabs = _w(abs, _m.fabs)
isnan = _w(lambda x: False, _m.isnan)
isclose = lambda a, b, rel_tol=1e-09, abs_tol=0.0: _s.isclose(a, b, rtol=rel_tol, atol=abs_tol) if (isinstance(a, _Sym) or isinstance(b, _Sym)) else _m.isclose(a, b, rel_tol=rel_tol, abs_tol=abs_tol)
floor = _m.floor
ceil = _m.ceil
copysign = _m.copysign
