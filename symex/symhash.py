"""hashlib stand-in for the clone world: a digest is an idealised (collision-free) function of the hashed element sequence -
a core.SymKey, equal exactly when the sequences are equal (decided, and forked on, by the solver).  What real hashlib sees
of an ndarray is its flat buffer: shape is NOT part of it, dtype is (bytes differ)."""
from . import core as sc


def _flat(data):
    if hasattr(data, "flat_list"):
        return [("dtype", str(getattr(data, "dtype", "")))] + list(data.flat_list())
    if isinstance(data, (bytes, bytearray)):
        return list(data)
    if isinstance(data, sc.SymKey):
        return list(data.elems)
    if hasattr(data, "values") and hasattr(data.values, "flat_list"):
        return _flat(data.values)
    return [data]


class _Hash:
    def __init__(self, name, data=b""):
        self.name, self.parts = name, [("algo", name)]
        self.update(data)

    def update(self, data):
        self.parts += _flat(data)

    def digest(self):
        return sc.SymKey(self.parts)

    hexdigest = digest

    def copy(self):
        h = _Hash(self.name)
        h.parts = list(self.parts)
        return h


def _mk(name):
    def ctor(data=b"", **kw):
        return _Hash(name, data)
    return ctor


md5, sha1, sha224, sha256, sha384, sha512, blake2b, blake2s = (_mk(n) for n in ("md5", "sha1", "sha224", "sha256", "sha384", "sha512", "blake2b", "blake2s"))


def new(name, data=b"", **kw):
    return _Hash(name, data)
