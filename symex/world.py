"""Clone world (DESIGN.md 1.1): every uxarray function / numba dispatcher / class is
re-instantiated from ITS OWN CODE OBJECT over a parallel globals dict in which numpy, xarray,
math and a few heavy libraries are replaced by shims.  Nothing is parsed or re-typed: a change to
/repo changes the bytecode that is executed here."""
import sys
import types
import copy
import builtins
import warnings

warnings.filterwarnings("ignore")

from . import core as sc
from . import symnp, symxr, symmath, symhash


def _is_ux(obj):
    m = getattr(obj, "__module__", None)
    return isinstance(m, str) and (m == "uxarray" or m.startswith("uxarray."))


class NS:
    """attribute view of a clone-world globals dict (stands in for the module object)"""

    def __init__(self, d, name):
        object.__setattr__(self, "_d", d)
        object.__setattr__(self, "__name__", name)

    def __getattr__(self, k):
        try:
            return self._d[k]
        except KeyError:
            raise AttributeError(k)

    def __setattr__(self, k, v):
        self._d[k] = v


def _noop(*a, **k):
    return None


class World:
    def __init__(self, extra=None, stubs=None):
        import uxarray  # noqa: F401  (the real library, from /repo's working tree)
        import uxarray.core.gradient, uxarray.core.aggregation, uxarray.grid.dual, uxarray.grid.slice  # noqa
        import uxarray.remap.utils, uxarray.remap.nearest_neighbor, uxarray.remap.inverse_distance_weighted  # noqa
        import uxarray.grid.integrate  # noqa
        import numpy, xarray, math
        self.real_np, self.real_xr = numpy, xarray
        self.by_name = {"np": symnp, "xr": symxr, "math": symmath, "hashlib": symhash, "warn": _noop, "prange": range,
                        "INT_DTYPE": symnp.intp, "print": _noop}
        if extra:
            self.by_name.update(extra)
        self.stubs = stubs or {}
        self.mods = {n: m for n, m in list(sys.modules.items())
                     if (n == "uxarray" or n.startswith("uxarray.")) and m is not None}
        self.G = {n: {} for n in self.mods}
        self.ns = {n: NS(self.G[n], n) for n in self.mods}
        self.memo = {}
        self.consts = []
        self._cur_mod = None
        bi = dict(builtins.__dict__)
        bi["__import__"] = self._import
        bi.update(sc.WORLD_BUILTINS)
        bi["print"] = _noop
        self.builtins = bi
        for n in self.mods:
            self.G[n]["__builtins__"] = bi        # must be in place before any function is cloned (captured at creation)
        for n, m in self.mods.items():
            g = self.G[n]
            self._cur_mod = n
            for k, v in list(m.__dict__.items()):
                if k == "__builtins__":
                    continue
                g[k] = self.map(v, k)
            for k, v in self.by_name.items():
                if k in g:
                    g[k] = v
            for (mod, k), v in self.stubs.items():
                if mod == n:
                    g[k] = v
            g["__builtins__"] = bi

    # ------------------------------------------------------------------ module-level constants
    def module_constants_changed(self):
        """names of module-level dict/list constants that differ from their import-time value
        (C08: "no call alters the library's module-level constants")"""
        return [nm for nm, obj, snap in self.consts if not _const_eq(obj, snap)]

    def restore_constants(self):
        """in-place restore (aliases created by from-imports stay consistent); called at the start
        of every path so that one path's mutation cannot leak into the next"""
        for nm, obj, snap in self.consts:
            if _const_eq(obj, snap):
                continue
            if isinstance(obj, dict):
                obj.clear()
                obj.update(copy.deepcopy(snap))
            else:
                obj[:] = copy.deepcopy(snap)

    def get(self, modname, name):
        return self.G[modname][name]

    def set(self, modname, name, val):
        """rebind a name in one module of the clone world (used for stubs/summaries)"""
        self.G[modname][name] = val

    def set_everywhere(self, name, val, orig=None):
        """rebind `name` in every clone-world module where it currently denotes the clone of `orig`"""
        n = 0
        for g in self.G.values():
            if name in g and (orig is None or g[name] is orig):
                g[name] = val
                n += 1
        return n

    # ------------------------------------------------------------------
    def _import(self, name, globals=None, locals=None, fromlist=(), level=0):
        if level and globals is not None:
            pkg = globals.get("__package__") or globals.get("__name__", "").rpartition(".")[0]
            base = pkg.split(".")
            if level > 1:
                base = base[: -(level - 1)]
            name = ".".join(base + ([name] if name else []))
        if name in self.ns:
            if fromlist:
                return self.ns[name]
            return self.ns[name.split(".")[0]]
        if name == "numpy":
            return symnp
        if name == "xarray":
            return symxr
        if name == "math":
            return symmath
        if name == "warnings":
            return _Warnings
        key = ("import", name)
        if key in self.stubs:
            return self.stubs[key]
        return builtins.__import__(name, globals, locals, fromlist, 0)

    def map(self, v, name=None):
        k = id(v)
        if k in self.memo:
            return self.memo[k][1]
        r = self._map(v, name)
        self.memo[k] = (v, r)     # keep v alive so that id() stays unique
        return r

    def _map(self, v, name):
        if isinstance(v, types.ModuleType):
            if v.__name__ in self.ns:
                return self.ns[v.__name__]
            if v is self.real_np:
                return symnp
            if v is self.real_xr:
                return symxr
            if v.__name__ == "math":
                return symmath
            if v.__name__ == "warnings":
                return _Warnings
            return v
        py = getattr(v, "py_func", None)
        if py is not None and isinstance(py, types.FunctionType):
            return self.clone_fn(py)
        if isinstance(v, types.FunctionType):
            if _is_ux(v):
                return self.clone_fn(v)
            m = getattr(v, "__module__", "") or ""
            if m.startswith("numpy") and hasattr(symnp, v.__name__):
                return getattr(symnp, v.__name__)
            return v
        if isinstance(v, (types.BuiltinFunctionType,)) or type(v).__name__ in ("ufunc", "_ArrayFunctionDispatcher"):
            m = getattr(v, "__module__", "") or ""
            nm = getattr(v, "__name__", None)
            if (m.startswith("numpy") or type(v).__name__ == "ufunc") and nm and hasattr(symnp, nm):
                return getattr(symnp, nm)
            return v
        if isinstance(v, type) and _is_ux(v):
            return self.clone_cls(v)
        if isinstance(v, (dict, list)) and name and name.isupper():
            c = copy.deepcopy(v)
            self.consts.append((f"{self._cur_mod}.{name}", c, copy.deepcopy(v)))
            return c
        if isinstance(v, self.real_np.generic):
            return v.item()
        return v

    def clone_fn(self, f, clscell=None):
        k = ("fn", id(f))
        if k in self.memo:
            return self.memo[k][1]
        g = self.G.get(f.__module__)
        if g is None:
            return f
        closure = f.__closure__
        if closure and clscell is not None and "__class__" in f.__code__.co_freevars:
            i = f.__code__.co_freevars.index("__class__")
            closure = tuple(clscell if j == i else c for j, c in enumerate(closure))
        new = types.FunctionType(f.__code__, g, f.__name__, f.__defaults__, closure)
        new.__kwdefaults__ = f.__kwdefaults__
        new.__qualname__ = f.__qualname__
        new.__dict__.update({k2: v2 for k2, v2 in f.__dict__.items() if k2 != "__wrapped__"})
        self.memo[k] = (f, new)
        return new

    def clone_cls(self, c):
        if any((b.__module__ or "").startswith("xarray") for b in c.__mro__[1:]):
            return self.clone_xr_subclass(c)
        d = {}
        cell = types.CellType()
        for k, v in c.__dict__.items():
            if k in ("__dict__", "__weakref__") or isinstance(v, types.MemberDescriptorType):
                continue
            d[k] = self._clone_member(v, cell)
        bases = tuple(self.map(b) if _is_ux(b) else b for b in c.__bases__)
        new = type(c.__name__, bases, d)
        new.__module__ = c.__module__
        cell.cell_contents = new
        return new

    def _clone_member(self, v, cell=None):
        if isinstance(v, types.FunctionType):
            return self.clone_fn(v, cell)
        if isinstance(v, property):
            return property(self.clone_fn(v.fget, cell) if v.fget else None,
                            self.clone_fn(v.fset, cell) if v.fset else None,
                            self.clone_fn(v.fdel, cell) if v.fdel else None, v.__doc__)
        if isinstance(v, classmethod):
            return classmethod(self.clone_fn(v.__func__, cell))
        if isinstance(v, staticmethod):
            return staticmethod(self.clone_fn(v.__func__, cell))
        if type(v).__name__ == "UncachedAccessor":
            acc = getattr(v, "_accessor", None)
            if isinstance(acc, type) and _is_ux(acc):
                return symxr.UncachedAccessor(self.map(acc))
        return v

    def clone_xr_subclass(self, c):
        """UxDataArray / UxDataset: methods cloned onto a symxr base class"""
        base = {"DataArray": symxr.DataArray, "Dataset": symxr.Dataset}
        bases = []
        for b in c.__bases__:
            if (b.__module__ or "").startswith("xarray"):
                bases.append(base.get(b.__name__, object))
            elif _is_ux(b):
                bases.append(self.map(b))
            else:
                bases.append(b)
        d = {}
        cell = types.CellType()
        for k, v in c.__dict__.items():
            if k in ("__dict__", "__weakref__", "__slots__") or isinstance(v, types.MemberDescriptorType):
                continue
            d[k] = self._clone_member(v, cell)
        new = type(c.__name__, tuple(bases), d)
        new.__module__ = c.__module__
        cell.cell_contents = new
        return new


class _Warnings:
    warn = staticmethod(_noop)
    filterwarnings = staticmethod(_noop)
    simplefilter = staticmethod(_noop)

    class catch_warnings:
        def __init__(self, *a, **k): pass
        def __enter__(self): return self
        def __exit__(self, *a): return False


def _const_eq(a, b):
    try:
        if type(a) is not type(b):
            return False
        if isinstance(a, dict):
            return a.keys() == b.keys() and all(_const_eq(a[k], b[k]) for k in a)
        if isinstance(a, (list, tuple)):
            return len(a) == len(b) and all(_const_eq(x, y) for x, y in zip(a, b))
        import numpy as _np
        if isinstance(a, _np.ndarray):
            return a.shape == b.shape and a.dtype == b.dtype and bool(_np.array_equal(a, b, equal_nan=True))
        r = a == b
        return r is True or (not isinstance(r, bool) and bool(r))
    except Exception:
        return a is b
