"""Obligation runner (DESIGN.md 1.6): symbolic exploration of the real code -> solver verdicts ->
concrete replay of every model on the unmodified library -> evidence / exit code."""
import os
import sys
import json
import time
import hashlib
import traceback
import multiprocessing as mp
import z3

from . import core as sc
from .core import Engine, Abort, Unsupported, Inconclusive, PathBudget

VERIF = os.path.dirname(os.path.dirname(os.path.abspath(__file__)))
KF_FILE = os.path.join(VERIF, "known_findings.json")

_WORLD = [None]


def world(stubs=None, fresh=False):
    """the clone world of this process (built once; module constants restored per path)"""
    from .world import World
    if stubs or fresh:
        return World(stubs=stubs)
    if _WORLD[0] is None:
        _WORLD[0] = World()
    return _WORLD[0]


class Ctx:
    """what an obligation's setup/run functions see"""

    def __init__(self, ob, eng, known):
        self.ob, self.eng, self.known = ob, eng, known
        self.solver = eng.solver
        self.kf_hits = {}

    # ---- inputs
    def int(self, name, lo=None, hi=None):
        v = z3.Int(name)
        if lo is not None:
            self.eng.solver.add(v >= lo)
        if hi is not None:
            self.eng.solver.add(v <= hi)
        self.eng.declare(name, v)
        return sc.mk(v)

    def real(self, name, lo=None, hi=None):
        v = z3.Real(name)
        if lo is not None:
            self.eng.solver.add(v >= sc.lift(lo))
        if hi is not None:
            self.eng.solver.add(v <= sc.lift(hi))
        self.eng.declare(name, v)
        return sc.mk(v)

    def bool(self, name):
        v = z3.Bool(name)
        self.eng.declare(name, v)
        return sc.mk(v)

    def enum(self, name, vals):
        v = z3.Int(name)
        self.eng.solver.add(v >= 0, v < len(vals))
        self.eng.declare(name, v)
        return sc.SymEnum(v, vals)

    def const(self, name, val):
        """a harness-level (case-split) parameter, recorded with the model"""
        self.eng.inputs[name] = val
        return val

    def assume(self, *cs):
        self.eng.add(*cs)

    # ---- claims
    def prove(self, label, claim, regions=None, note=None, tactic=None):
        """claim must hold on this path.  regions: {name: z3 condition} of known findings that may
        be excluded when listed in known_findings.json for this obligation."""
        claim = sc.z(claim) if not isinstance(claim, bool) else claim
        if sc.NL_UF[0]:
            lem = sc.nl_unit_lemmas()
            if lem:
                self.eng.solver.add(*lem)
        excl = []
        for name, reg in (regions or {}).items():
            if name in self.known:
                reg = sc.z(reg) if not isinstance(reg, bool) else reg
                if reg is False:
                    continue
                # (i) the listed finding: is it still there?  pc /\ region /\ not claim
                q = z3.And(reg, z3.Not(claim)) if claim is not True else z3.BoolVal(False)
                r = self.eng.check(q) if claim is not True else z3.unsat
                if r == z3.sat:
                    m = self.eng._last_model
                    self.eng.proofs.append({"label": label, "verdict": "known", "kf": name, "path": self.eng.cur_path,
                                            "model": self.eng.model_values(m)})
                excl.append(reg)
        if excl:
            claim = z3.Or(claim, *excl) if claim is not True else True
        return self.eng.prove(label, claim, note, tactic)

    def reachable(self, label, cond=True):
        return self.eng.reachable(label, cond)

    def z(self, v):
        return sc.z(v)


class Obligation:
    def __init__(self, oid, title, setup, run, replay, *, exact=True, functions=(), bounds="", stubs=(),
                 assumptions=(), timeout_s=1200, query_timeout_s=600, max_paths=20000, validate=None,
                 tiers=("quick", "thorough"), degraded_models=24, expect_paths_min=1, cost=1, explore_budget_s=None, tactic=None, logic=None, portfolio=None):
        self.id, self.title = oid, title
        self.setup, self.run, self.replay = setup, run, replay
        self.exact = exact
        self.functions, self.bounds, self.stubs, self.assumptions = list(functions), bounds, list(stubs), list(assumptions)
        self.timeout_s, self.query_timeout_s, self.max_paths = timeout_s, query_timeout_s, max_paths
        self.validate = validate
        self.tiers = tiers
        self.degraded_models = degraded_models
        self.cost = cost
        self.explore_budget_s = explore_budget_s if explore_budget_s is not None else 0.6 * timeout_s
        self.tactic = tactic
        self.portfolio = portfolio      # None or (n_probes, probe_seconds): seed portfolio for queries whose z3 run time depends strongly on the random seed
        self.logic = logic      # None: z3's default combined solver; 'simple': z3.SimpleSolver (plain SMT core); else a logic name


def load_known(prop):
    try:
        kf = json.load(open(KF_FILE))
    except FileNotFoundError:
        return {}
    out = {}
    for f in kf.get("findings", []):
        if f.get("property") == prop and f.get("status", "open") == "open":
            out.setdefault(f["obligation"], {})[f["region"]] = f
    return out


def _jsonable(x):
    if isinstance(x, dict):
        return {str(k): _jsonable(v) for k, v in x.items()}
    if isinstance(x, (list, tuple)):
        return [_jsonable(v) for v in x]
    if isinstance(x, (int, float, str, bool)) or x is None:
        return x
    return str(x)


_OBS = []


def _run_index(i):
    return _run_obligation(_OBS[i])


def _run_obligation(args):
    """worker: returns a result dict (never raises)"""
    ob, prop, seed, known = args
    t0 = time.time()
    res = {"id": ob.id, "title": ob.title, "verdict": "holds", "paths": 0, "aborted_paths": 0, "branch_points": 0,
           "queries": 0, "unsat": 0, "sat": 0, "solver_s": 0.0, "wall_s": 0.0, "validated": 0, "replays": 0,
           "samples": [], "known": [], "violations": [], "mode": "symbolic", "notes": [],
           "functions": ob.functions, "bounds": ob.bounds, "stubs": ob.stubs, "assumptions": ob.assumptions,
           "exact": ob.exact}
    try:
        z3.set_param("smt.random_seed", seed % (2 ** 31))
        # 1. shim-vs-real differential validation on concrete inputs
        if ob.validate is not None:
            try:
                res["validated"] = int(ob.validate() or 0)
            except Unsupported as ex:
                res["notes"].append(f"shim validation skipped, shim lacks a feature: {ex}")
        # 2. symbolic exploration
        eng = Engine(timeout_ms=int(ob.query_timeout_s * 1000), seed=seed, max_paths=ob.max_paths, logic=ob.logic)
        eng.deadline = time.time() + ob.explore_budget_s
        eng.tactic = getattr(ob, "tactic", None)
        if getattr(ob, "portfolio", None):
            eng.portfolio = (int(ob.portfolio[0]), int(ob.portfolio[1] * 1000))
        ctx = Ctx(ob, eng, known)
        w = _WORLD[0]

        def body(e):
            if _WORLD[0] is not None:
                _WORLD[0].restore_constants()
            from . import symnp
            del symnp.TRIG_LOG[:]
            del sc.NL_LOG[:]
            sc._NL_DONE[0] = 0
            sc.NL_UF[0] = False
            sc.NL_SIGN[0] = False
            sc.MOD_MODE[0] = "functional"
            sc.DIV_WITNESS[0] = False
            symnp.TRIG_RANGE[0] = False
            symnp.TRIG_MONO[0] = False
            symnp.SQRT_MODE[0] = "witness"
            symnp.UNIQUE_MODE[0] = "relational"
            inp = ob.setup(ctx)
            ob.run(ctx, inp)
        unsupported = None
        try:
            eng.explore(body)
        except Unsupported as ex:
            unsupported = f"{type(ex).__name__}: {ex}"
            tb = traceback.extract_tb(ex.__traceback__)
            where = [f"{f.filename}:{f.lineno}" for f in tb if "/uxarray/" in f.filename][-2:]
            res["notes"].append(f"shim lacks a feature used at {where}: {ex}")
        except (Inconclusive, PathBudget) as ex:
            unsupported = f"{type(ex).__name__}: {ex}"
            res["notes"].append(f"symbolic exploration gave up ({type(ex).__name__}: {ex}) after {eng.n_paths} paths")
        res.update(paths=eng.n_paths, aborted_paths=eng.n_aborted, branch_points=eng.n_branch_points,
                   queries=eng.n_checks, solver_s=round(eng.t_solver, 3))
        proofs = eng.proofs
        res["unsat"] = sum(1 for p in proofs if p["verdict"] == "unsat")
        res["sat"] = sum(1 for p in proofs if p["verdict"] == "sat")
        n_unknown = sum(1 for p in proofs if p["verdict"] == "unknown")
        n_vac = sum(1 for p in proofs if p["verdict"] in ("vacuous",))
        cl = {}
        for p in proofs:
            d = cl.setdefault(p["label"], {})
            d[p["verdict"]] = d.get(p["verdict"], 0) + 1
        res["claims"] = cl
        res["samples"] = [{"claim": p["label"], "path": p["path"], "verdict": p["verdict"]} for p in proofs[:6]]
        # 3. known findings: still reproducible?
        seen_kf = {}
        for p in proofs:
            if p["verdict"] == "known" and p["kf"] not in seen_kf:
                why = _safe_replay(ob, p["model"], res)
                if why:
                    seen_kf[p["kf"]] = {"region": p["kf"], "model": _jsonable(p["model"]), "detail": why}
        res["known"] = list(seen_kf.values())
        # 4. counterexamples: replay each distinct model on the real library
        cands = [p for p in proofs if p["verdict"] == "sat"]
        tried = set()
        nonrepro = []
        for p in cands:
            key = json.dumps(_jsonable(p["model"]), sort_keys=True)
            if key in tried:
                continue
            tried.add(key)
            if len(tried) > 12:
                break
            why = _safe_replay(ob, p["model"], res)
            if why:
                res["violations"].append({"claim": p["label"], "model": _jsonable(p["model"]), "detail": why})
                if len(res["violations"]) >= 3:
                    break
            else:
                nonrepro.append({"claim": p["label"], "model": _jsonable(p["model"])})
        if res["violations"]:
            res["verdict"] = "violation"
        elif nonrepro and ob.exact:
            res["verdict"] = "harness_error"
            res["notes"].append("solver model did not reproduce on the real code (exact obligation): " + json.dumps(nonrepro[0])[:600])
        elif nonrepro:
            res["verdict"] = "inconclusive" if res["verdict"] == "holds" else res["verdict"]
            res["notes"].append(f"abstract_inconclusive: {len(nonrepro)} candidate(s) did not reproduce on the real code")
            res["mode"] = "abstract_inconclusive"
        if res["verdict"] == "holds":
            if unsupported:
                res["verdict"] = "unsupported"
            elif n_unknown:
                res["verdict"] = "inconclusive"
                res["notes"].append(f"{n_unknown} solver queries returned unknown")
            elif n_vac:
                res["verdict"] = "harness_error"
                res["notes"].append(f"{n_vac} claim(s) were checked under an unsatisfiable path condition (vacuous): "
                                    + str([k for k, v in res["claims"].items() if "vacuous" in v]))
            elif eng.n_paths == 0 or res["unsat"] == 0:
                res["verdict"] = "harness_error"
                res["notes"].append(f"vacuous harness: paths={eng.n_paths} aborted={eng.n_aborted} discharged={res['unsat']} vacuous={n_vac}")
            else:
                wit = {}
                for p in proofs:
                    if p["label"].startswith("reach:"):
                        wit[p["label"]] = wit.get(p["label"], False) or p["verdict"] == "witness"
                missing = [k for k, v in wit.items() if not v]
                if missing:
                    res["verdict"] = "harness_error"
                    res["notes"].append(f"reachability witness missing: {missing}")
        # 5. degraded mode (DESIGN 1.8): shim could not run the changed code -> solver-enumerated concrete replay
        if res["verdict"] in ("unsupported",) or (res["verdict"] == "inconclusive" and res["mode"] == "abstract_inconclusive"):
            res["mode"] = "degraded"
            viol, n = _degraded(ob, ctx_known=known, seed=seed, res=res)
            res["notes"].append(f"degraded mode: {n} solver-enumerated inputs replayed on the real code")
            if viol:
                res["violations"].append(viol)
                res["verdict"] = "violation"
            elif n > 0:
                res["verdict"] = "holds_degraded"
    except BaseException as ex:   # noqa
        res["verdict"] = "harness_error"
        res["notes"].append("".join(traceback.format_exception(type(ex), ex, ex.__traceback__))[-3000:])
    res["wall_s"] = round(time.time() - t0, 2)
    if os.environ.get("VERIF_PROGRESS", "1") != "0":
        print(f"  .. {res['id']} {res['verdict']} paths={res['paths']} wall={res['wall_s']}s", file=sys.stderr, flush=True)
    return res


def _safe_replay(ob, model, res):
    try:
        res["replays"] += 1
        return ob.replay(model)
    except BaseException as ex:   # noqa
        res["notes"].append("replay raised: " + "".join(traceback.format_exception_only(type(ex), ex))[-500:])
        return None


def _degraded(ob, ctx_known, seed, res):
    eng = Engine(timeout_ms=60000, seed=seed, logic=ob.logic)
    ctx = Ctx(ob, eng, ctx_known)
    prev = sc._ENG[0]
    sc._ENG[0] = eng
    n = 0
    try:
        ob.setup(ctx)
        for _ in range(ob.degraded_models):
            if eng.check() != z3.sat:
                break
            m = eng._last_model
            vals = eng.model_values(m)
            n += 1
            why = _safe_replay(ob, vals, res)
            if why:
                known_hit = False
                if not known_hit:
                    return {"claim": "degraded", "model": _jsonable(vals), "detail": why}, n
            blk = []
            for k, v in eng.inputs.items():
                for zv in _flatten(v):
                    if z3.is_expr(zv):
                        blk.append(zv != m.eval(zv, model_completion=True))
            if not blk:
                break
            eng.solver.add(z3.Or(*blk))
    except Abort:
        pass
    finally:
        sc._ENG[0] = prev
    return None, n


def _flatten(v):
    if isinstance(v, (list, tuple)):
        for x in v:
            yield from _flatten(x)
    elif isinstance(v, dict):
        for x in v.values():
            yield from _flatten(x)
    elif isinstance(v, sc.Sym):
        yield v.e
    else:
        yield v


# ------------------------------------------------------------------------------------------------
def run_property(prop, obligations, tier, seed, jobs=None, only=None):
    t0 = time.time()
    known_all = load_known(prop)
    obs = [o for o in obligations if tier in o.tiers and (only is None or any(o.id.startswith(x) for x in only))]
    if not obs:
        print(f"no obligations for {prop} at tier {tier}")
        return 3
    world()     # build the clone world once, before forking
    jobs = jobs or min(len(obs), int(os.environ.get("VERIF_JOBS", "16")))
    obs_sorted = sorted(obs, key=lambda o: -o.cost)
    args = [(o, prop, seed, known_all.get(o.id, {})) for o in obs_sorted]
    if jobs <= 1 or len(obs) == 1:
        results = [_run_obligation(a) for a in args]
    else:
        ctxm = mp.get_context("fork")
        _OBS[:] = args            # inherited by the forked workers (closures are not picklable)
        with ctxm.Pool(jobs, maxtasksperchild=1) as pool:
            its = [pool.apply_async(_run_index, (i,)) for i in range(len(args))]
            results = []
            for o, it in zip(obs_sorted, its):
                try:
                    results.append(it.get(timeout=o.timeout_s + 120))
                except mp.TimeoutError:
                    results.append({"id": o.id, "title": o.title, "verdict": "inconclusive", "notes": ["obligation timed out"],
                                    "paths": 0, "branch_points": 0, "queries": 0, "unsat": 0, "sat": 0, "solver_s": 0, "wall_s": o.timeout_s,
                                    "validated": 0, "replays": 0, "samples": [], "known": [], "violations": [], "mode": "symbolic",
                                    "functions": o.functions, "bounds": o.bounds, "stubs": o.stubs, "assumptions": o.assumptions})
    results.sort(key=lambda r: r["id"])
    wall = time.time() - t0
    return report(prop, tier, seed, results, wall, known_all)


def report(prop, tier, seed, results, wall, known_all):
    EVD = os.environ.get("VERIF_EVIDENCE_DIR") or os.path.join(VERIF, "evidence")
    os.makedirs(EVD, exist_ok=True)
    os.makedirs(os.path.join(VERIF, "replays"), exist_ok=True)
    rc = 0
    n_viol = 0
    for r in results:
        for k in r.get("known", []):
            what = known_all.get(r["id"], {}).get(k["region"], {}).get("what", k["region"])
            print(f"KNOWN-FINDING: property={prop} {what}  [{r['id']}/{k['region']}: {k['detail']}]")
        for v in r.get("violations", []):
            n_viol += 1
            h = hashlib.sha1(json.dumps(v["model"], sort_keys=True).encode()).hexdigest()[:10]
            path = os.path.join(VERIF, "replays", f"{prop}_{r['id'].replace('/', '_')}_{h}.json")
            json.dump({"property": prop, "obligation": r["id"], "claim": v["claim"], "model": v["model"], "detail": v["detail"]},
                      open(path, "w"), indent=1)
            print(f"VIOLATION property={prop} replay={path}")
            print(f"  obligation {r['id']} claim {v['claim']}: {v['detail']}")
            rc = 1
    bad = [r for r in results if r["verdict"] in ("harness_error", "inconclusive", "unsupported")]
    for r in results:
        line = f"[{prop}] {r['id']:<34} {r['verdict']:<14} paths={r['paths']:<5} queries={r['queries']:<6} unsat={r['unsat']:<5} solver={r['solver_s']:.1f}s wall={r['wall_s']:.1f}s mode={r.get('mode')}"
        print(line)
        for n in r.get("notes", []):
            print("    note:", n.strip()[-1800:])
    if rc == 0 and bad:
        rc = 3
        print(f"HARNESS-INCONCLUSIVE property={prop}: " + ", ".join(f"{r['id']}={r['verdict']}" for r in bad))
    ev = {
        "property_id": prop, "tier": tier, "seed": int(seed), "level": "model_checking",
        "coverage": {
            "states": sum(r["paths"] for r in results),
            "transitions": sum(r["branch_points"] for r in results) + sum(r["queries"] for r in results),
            "traces_validated_against_impl": sum(r["validated"] + r["replays"] for r in results),
            "samples": [s for r in results for s in ([{"obligation": r["id"], **x} for x in r["samples"][:2]])][:40] or [{"none": True}],
            "obligations": len(results),
            "discharged": sum(1 for r in results if r["verdict"] in ("holds",)),
            "queries": sum(r["queries"] for r in results),
            "unsat": sum(r["unsat"] for r in results),
            "solver_s": round(sum(r["solver_s"] for r in results), 2),
            "explanation": "bounded symbolic execution of the real uxarray code objects in a clone world (numpy/xarray shims), "
                           "one z3 query per claim per path; states = symbolic paths, transitions = solver-decided branch points + queries",
            "per_obligation": [{k: r.get(k) for k in ("id", "title", "verdict", "mode", "paths", "aborted_paths", "branch_points", "queries",
                                                       "unsat", "sat", "solver_s", "wall_s", "validated", "replays", "functions", "bounds",
                                                       "stubs", "claims", "notes", "exact")} for r in results],
            "known_findings_reproduced": [k["region"] for r in results for k in r.get("known", [])],
            "exhaustive": False,
        },
        "assumptions": sorted({a for r in results for a in r.get("assumptions", [])} |
                              {"floats are reasoned about as reals; trig is uninterpreted except for listed axioms",
                               "numpy/xarray semantics as implemented by symex/symnp.py, symex/symxr.py (validated differentially on concrete inputs each run)",
                               "claims hold only within the recorded bounds"}),
        "wall_s": round(wall, 2),
        "violations": n_viol,
    }
    json.dump(ev, open(os.path.join(EVD, f"{prop}.json"), "w"), indent=1)
    import uxarray as _ux
    print(f"[{prop}] analysed library: {os.path.dirname(_ux.__file__)}")
    print(f"[{prop}] tier={tier} obligations={len(results)} discharged={ev['coverage']['discharged']} violations={n_viol} wall={wall:.1f}s rc={rc}")
    return rc
