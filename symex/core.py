"""Path-forking symbolic executor for real Python code objects (DESIGN.md section 1.2).

The executed code is the library's own bytecode (see world.py).  Values are either
concrete Python objects or Sym* wrappers around z3 terms.  Every Python-level truth
test on a SymBool asks the solver which sides are feasible and forks; exploration is
depth-first by re-execution under a recorded decision prefix.
"""
import time
import fractions
import builtins as _bi
import z3


class Abort(BaseException):
    """Path is infeasible / abandoned.  BaseException so that `except Exception` in the
    code under analysis never swallows it."""


class Unsupported(Exception):
    """The code under analysis used a numpy/xarray feature the shim does not model."""


class Inconclusive(Exception):
    """A solver query returned unknown (timeout)."""


class PathBudget(Exception):
    pass


_ENG = [None]


def eng():
    e = _ENG[0]
    if e is None:
        raise RuntimeError("no active symbolic engine")
    return e


class Engine:
    def __init__(self, timeout_ms=600000, seed=0, max_paths=20000, logic=None):
        self.solver = z3.Solver() if logic is None else (z3.SimpleSolver() if logic == 'simple' else z3.SolverFor(logic))
        self.solver.set("timeout", timeout_ms)
        self.solver.set("random_seed", seed % (2**31))
        self.timeout_ms = timeout_ms
        self.seed = seed
        self.portfolio = None     # (n_probes, probe_ms): short attempts under other random seeds before/after the full-length attempt
        self.n_portfolio_hits = 0
        self.max_paths = max_paths
        self.prefix = []
        self.trace = []
        self.work = []
        self.n_checks = 0
        self.n_branch_points = 0
        self.t_solver = 0.0
        self.n_paths = 0
        self.n_aborted = 0
        self.fresh_ctr = 0
        self.inputs = {}
        self.proofs = []          # dicts: label, verdict, path, model
        self.path_notes = []
        self.cur_path = 0
        self.deadline = None

    # -------------------------------------------------------------- solver
    def check(self, *extra):
        if getattr(self, "tactic", None):
            return self.check_tactic(self.tactic, *extra)
        t = time.time()
        if extra:
            # push/add/pop rather than check-with-assumptions: assumptions are meant to be literals
            self.solver.push()
            try:
                self.solver.add(*extra)
                r = self._check_portfolio()
                self._last_model = self.solver.model() if r == z3.sat else None
            finally:
                self.solver.pop()
        else:
            r = self._check_portfolio()
            self._last_model = self.solver.model() if r == z3.sat else None
        self.t_solver += time.time() - t
        self.n_checks += 1
        return r

    def _check_portfolio(self):
        """z3's verdict for the current assertions.  With a portfolio the query is first tried briefly under the obligation's seed and
        n-1 other random seeds (a sat/unsat answer under any seed is a verdict; only `unknown` is retried), then once at full length."""
        if not self.portfolio:
            return self.solver.check()
        n, probe_ms = self.portfolio
        try:
            for k in range(n):
                self.solver.set("timeout", int(probe_ms))
                self.solver.set("random_seed", (self.seed + 7919 * k) % (2**31))
                r = self.solver.check()
                if r != z3.unknown:
                    if k:
                        self.n_portfolio_hits += 1
                    return r
            self.solver.set("timeout", self.timeout_ms)
            self.solver.set("random_seed", (self.seed + 104729) % (2**31))
            return self.solver.check()
        finally:
            self.solver.set("timeout", self.timeout_ms)
            self.solver.set("random_seed", self.seed % (2**31))

    def add(self, *cs):
        for c in cs:
            c = unwrap(c)
            if c is True:
                continue
            if c is False:
                raise Abort()
            self.solver.add(c)

    assume = add

    def fresh(self, prefix, sort="Int"):
        self.fresh_ctr += 1
        n = f"{prefix}!{self.fresh_ctr}"
        if sort == "Int":
            return z3.Int(n)
        if sort == "Real":
            return z3.Real(n)
        if sort == "Bool":
            return z3.Bool(n)
        raise ValueError(sort)

    # -------------------------------------------------------------- forking
    def branch(self, cond):
        if cond is True or cond is False:
            return cond
        i = len(self.trace)
        if i < len(self.prefix):
            v = self.prefix[i]
        else:
            if self.deadline is not None and time.time() > self.deadline:
                raise PathBudget("exploration time budget exhausted")
            self.n_branch_points += 1
            rt = self.check(cond)
            rf = self.check(z3.Not(cond))
            if rt == z3.unknown or rf == z3.unknown:
                raise Inconclusive("branch feasibility unknown")
            can_t, can_f = rt == z3.sat, rf == z3.sat
            if can_t and can_f:
                self.work.append(self.trace + [False])
                v = True
            elif can_t:
                v = True
            elif can_f:
                v = False
            else:
                raise Abort()
        self.trace.append(v)
        self.solver.add(cond if v else z3.Not(cond))
        return v

    def explore(self, body):
        """Run body() once per feasible path."""
        prev = _ENG[0]
        _ENG[0] = self
        try:
            self.work = [[]]
            while self.work:
                self.prefix = self.work.pop()
                self.trace = []
                self.fresh_ctr = 0
                self.solver.push()
                try:
                    body(self)
                    self.n_paths += 1
                except Abort:
                    self.n_aborted += 1
                finally:
                    self.solver.pop()
                self.cur_path += 1
                if self.n_paths + self.n_aborted >= self.max_paths:
                    raise PathBudget(f"more than {self.max_paths} paths")
        finally:
            _ENG[0] = prev
        return self.n_paths

    # -------------------------------------------------------------- obligations
    def declare(self, name, var):
        """Register an input variable (reported in counterexamples)."""
        self.inputs[name] = var
        return var

    def model_values(self, m):
        out = {}
        for k, v in self.inputs.items():
            out[k] = _model_value(m, v)
        return out

    def check_tactic(self, tactic, *extra):
        """one-off query through a z3 tactic pipeline (e.g. 'qfnra-nlsat' for polynomial identities, where the
        default arithmetic solver returns unknown): pc /\\ extra"""
        t = time.time()
        s2 = z3.Tactic(tactic).solver()
        s2.set("timeout", self.timeout_ms)
        for a in self.solver.assertions():
            s2.add(a)
        s2.add(*extra)
        r = s2.check()
        self._last_model = s2.model() if r == z3.sat else None
        self.t_solver += time.time() - t
        self.n_checks += 1
        return r

    def prove(self, label, claim, note=None, tactic=None):
        """Query pc /\\ not claim.  Records the verdict; returns True iff unsat."""
        claim = unwrap(claim)
        if claim is True:
            # still must witness reachability of this point
            r0 = self.check()
            rec = {"label": label, "verdict": "unsat" if r0 == z3.sat else ("vacuous" if r0 == z3.unsat else "unknown"),
                   "path": self.cur_path, "trivial": True}
            self.proofs.append(rec)
            return r0 == z3.sat
        if claim is False:
            neg = z3.BoolVal(True)
        else:
            neg = z3.Not(claim)
        r = self.check(neg) if tactic is None else self.check_tactic(tactic, neg)
        rec = {"label": label, "path": self.cur_path, "note": note}
        if r == z3.unsat:
            # reachability twin: the path condition itself must be satisfiable
            r0 = self.check() if tactic is None else self.check_tactic(tactic)
            rec["verdict"] = "unsat" if r0 == z3.sat else ("vacuous" if r0 == z3.unsat else "unknown")
        elif r == z3.sat:
            m = self._last_model
            rec["verdict"] = "sat"
            rec["model"] = self.model_values(m)
            rec["_z3model"] = m
        else:
            rec["verdict"] = "unknown"
        self.proofs.append(rec)
        return r == z3.unsat

    def reachable(self, label, cond=True):
        """Reachability witness: pc /\\ cond must be satisfiable on at least one path."""
        c = unwrap(cond)
        r = self.check() if c is True else self.check(c)
        self.proofs.append({"label": "reach:" + label, "path": self.cur_path,
                            "verdict": "witness" if r == z3.sat else ("nowitness" if r == z3.unsat else "unknown")})
        return r == z3.sat


def _model_value(m, v):
    if isinstance(v, (list, tuple)):
        return [_model_value(m, x) for x in v]
    if isinstance(v, dict):
        return {k: _model_value(m, x) for k, x in v.items()}
    if isinstance(v, Sym):
        v = v.e
    if not z3.is_expr(v):
        return v
    r = m.eval(v, model_completion=True)
    if z3.is_int_value(r):
        return r.as_long()
    if z3.is_rational_value(r):
        f = r.as_fraction()
        return float(f)
    if z3.is_true(r):
        return True
    if z3.is_false(r):
        return False
    if z3.is_algebraic_value(r):
        return float(r.approx(20).as_fraction())
    return str(r)


# ------------------------------------------------------------------ symbolic scalars
def unwrap(x):
    if isinstance(x, Sym):
        return x.e
    return x


class Sym:
    __slots__ = ("e",)

    def __init__(self, e):
        self.e = e

    def __repr__(self):
        return f"{type(self).__name__}({self.e})"

    def __hash__(self):
        return hash(self.e)


def lift(v):
    """Python/numpy scalar or Sym -> z3 term."""
    if isinstance(v, Sym):
        if isinstance(v, SymEnum):
            raise TypeError("enum in arithmetic")
        return v.e
    if isinstance(v, bool):
        return z3.BoolVal(v)
    if isinstance(v, int):
        return z3.IntVal(v)
    if isinstance(v, float):
        if v != v or v in (float("inf"), float("-inf")):
            raise Unsupported("non-finite float constant in symbolic arithmetic")
        return z3.RealVal(str(fractions.Fraction(v)))
    if isinstance(v, fractions.Fraction):
        return z3.RealVal(str(v))
    if z3.is_expr(v):
        return v
    try:
        import numpy as _np
        if isinstance(v, _np.bool_):
            return z3.BoolVal(bool(v))
        if isinstance(v, _np.integer):
            return z3.IntVal(int(v))
        if isinstance(v, _np.floating):
            return lift(float(v))
    except ImportError:
        pass
    raise TypeError(f"cannot lift {type(v)}")


def _coerce(a, b):
    """make two z3 arithmetic terms of the same sort (Int -> Real when mixed)"""
    if z3.is_bool(a) and not z3.is_bool(b):
        a = z3.If(a, z3.IntVal(1), z3.IntVal(0))
    if z3.is_bool(b) and not z3.is_bool(a):
        b = z3.If(b, z3.IntVal(1), z3.IntVal(0))
    if z3.is_int(a) and z3.is_real(b):
        a = z3.ToReal(a)
    elif z3.is_real(a) and z3.is_int(b):
        b = z3.ToReal(b)
    return a, b


# ---- "algebra-free" mode for data-flow obligations: products and quotients of two non-constant reals become
# uninterpreted functions, so queries stay in QF_UFLRA (z3's nonlinear+UF combination returns unknown on them)
MOD_MODE = ["functional"]   # encoding of real x % m: "functional" (x - m*floor(x/m)) or "witness" (fresh integer quotient, memoised per term)
NL_UF = [False]
NL_SIGN = [False]       # with NL_UF: every uninterpreted product comes with the sign rule
NL_LOG = []
_MUL = z3.Function("mul", z3.RealSort(), z3.RealSort(), z3.RealSort())
_DIV = z3.Function("div", z3.RealSort(), z3.RealSort(), z3.RealSort())


def _is_num(a):
    return z3.is_rational_value(a) or z3.is_int_value(a) or z3.is_algebraic_value(a)


def zmul(a, b):
    if NL_UF[0]:
        a, b = z3.simplify(a), z3.simplify(b)
    if not NL_UF[0] or _is_num(a) or _is_num(b) or not (z3.is_real(a) and z3.is_real(b)):
        return a * b
    if a.get_id() > b.get_id():
        a, b = b, a
    t = _MUL(a, b)
    NL_LOG.append(("mul", a, b, t))
    if NL_SIGN[0] and _ENG[0] is not None:
        # the sign rule of real multiplication, asserted when the term is created (so that branches on it are decided)
        _ENG[0].solver.add(z3.Implies(z3.Or(z3.And(a > 0, b > 0), z3.And(a < 0, b < 0)), t > 0),
                           z3.Implies(z3.Or(z3.And(a > 0, b < 0), z3.And(a < 0, b > 0)), t < 0),
                           z3.Implies(z3.Or(a == 0, b == 0), t == 0))
    return t


DIV_WITNESS = [False]     # purify divisions by non-constants: q with q*b = a (keeps nlsat queries polynomial and low-degree)


def zdiv(a, b):
    if DIV_WITNESS[0] and not NL_UF[0]:
        b = z3.simplify(b)
        if not _is_num(b):
            e = eng()
            q = e.fresh("quot", "Real")
            e.solver.add(q * b == a, b != 0)
            return q
    if NL_UF[0]:
        b = z3.simplify(b)
    if not NL_UF[0] or _is_num(b):
        return a / b
    t = _DIV(a, b)
    NL_LOG.append(("div", a, b, t))
    return t


_NL_DONE = [0]


def nl_unit_lemmas(all_=False):
    """instances of commutativity, x*1 = x, x/1 = x, x*0 = 0 for every (new) recorded uninterpreted product/quotient"""
    out = []
    start = 0 if all_ else min(_NL_DONE[0], len(NL_LOG))
    for kind, a, b, t in NL_LOG[start:]:
        if kind == "mul":
            out += [t == _MUL(b, a), z3.Implies(a == 1, t == b), z3.Implies(b == 1, t == a), z3.Implies(z3.Or(a == 0, b == 0), t == 0)]
        else:
            out += [z3.Implies(b == 1, t == a)]
    _NL_DONE[0] = len(NL_LOG)
    return out


def mk(e):
    """z3 term -> Python constant when it simplifies to one, else Sym wrapper."""
    if not z3.is_expr(e):
        return e
    e = z3.simplify(e)
    if z3.is_bool(e):
        if z3.is_true(e):
            return True
        if z3.is_false(e):
            return False
        return SymBool(e)
    if z3.is_int_value(e):
        return e.as_long()
    if z3.is_int(e):
        return SymInt(e)
    return SymReal(e)   # real constants stay exact rationals (never collapsed to float)


def mk_keep(e):
    """like mk but never collapses to a python constant for reals that must stay exact"""
    return mk(e)


class SymNum(Sym):
    __slots__ = ()

    def _bin(self, o, f):
        try:
            a, b = _coerce(self.e, lift(o))
        except TypeError:
            return NotImplemented
        return mk(f(a, b))

    def _rbin(self, o, f):
        try:
            a, b = _coerce(lift(o), self.e)
        except TypeError:
            return NotImplemented
        return mk(f(a, b))

    def __add__(s, o): return s._bin(o, lambda a, b: a + b)
    def __radd__(s, o): return s._rbin(o, lambda a, b: a + b)
    def __sub__(s, o): return s._bin(o, lambda a, b: a - b)
    def __rsub__(s, o): return s._rbin(o, lambda a, b: a - b)
    def __mul__(s, o): return s._bin(o, zmul)
    def __rmul__(s, o): return s._rbin(o, zmul)
    def __neg__(s): return mk(-s.e)
    def __pos__(s): return s
    def __abs__(s): return mk(z3.If(s.e >= 0, s.e, -s.e))
    def __lt__(s, o): return s._bin(o, lambda a, b: a < b)
    def __le__(s, o): return s._bin(o, lambda a, b: a <= b)
    def __gt__(s, o): return s._bin(o, lambda a, b: a > b)
    def __ge__(s, o): return s._bin(o, lambda a, b: a >= b)
    def __eq__(s, o):
        r = s._bin(o, lambda a, b: a == b)
        return False if r is NotImplemented else r
    def __ne__(s, o):
        r = s._bin(o, lambda a, b: a != b)
        return True if r is NotImplemented else r
    __hash__ = Sym.__hash__

    def __truediv__(s, o):
        return s._bin(o, lambda a, b: zdiv(_todiv(a), _todiv(b)))

    def __rtruediv__(s, o):
        return s._rbin(o, lambda a, b: zdiv(_todiv(a), _todiv(b)))

    def __pow__(s, k):
        if isinstance(k, float) and k == int(k):
            k = int(k)
        if isinstance(k, int) and 0 <= k <= 8:
            r = 1
            for _ in range(k):
                r = r * s
            return r
        if k == 0.5:
            from . import symnp
            return symnp.sqrt(s)
        raise Unsupported(f"symbolic ** {k!r}")

    def __bool__(self):
        return eng().branch(self.e != 0)

    # numpy-ish scalar API used by library code
    def item(self): return self
    @property
    def ndim(self): return 0
    @property
    def shape(self): return ()
    def astype(self, dt): return self
    def copy(self): return self


def _todiv(a):
    return z3.ToReal(a) if z3.is_int(a) else a


class SymInt(SymNum):
    __slots__ = ()

    def __index__(self):
        return concretize(self)

    __int__ = __index__

    def __floordiv__(s, o): return s._bin(o, lambda a, b: a / b)   # z3 Int div: floor for positive divisors
    def __mod__(s, o): return s._bin(o, lambda a, b: a % b)
    def __rfloordiv__(s, o): return s._rbin(o, lambda a, b: a / b)
    def __rmod__(s, o): return s._rbin(o, lambda a, b: a % b)
    def __hash__(self):
        return hash(concretize(self))


class SymReal(SymNum):
    __slots__ = ()

    def __mod__(s, m):
        if isinstance(m, Sym):
            raise Unsupported("symbolic modulus")
        # functional encoding x - m*floor(x/m) (Python/numpy semantics for m > 0): equal inputs give equal terms
        mm = lift(float(m))
        if float(m) <= 0:
            raise Unsupported("modulus <= 0")
        if MOD_MODE[0] == "witness":
            # x mod m = x - k*m with a fresh integer k and 0 <= result < m; the same input term gets the same k on a path.
            # Much cheaper for z3 than the functional form, but two different terms for the same value are not related.
            e = eng()
            memo = e.__dict__.setdefault("_mod_memo", {})
            if memo.get("path") != e.cur_path or memo.get("n_paths") != e.n_paths:
                memo.clear()
                memo["path"], memo["n_paths"] = e.cur_path, e.n_paths
            key = (z3.simplify(s.e).get_id(), float(m))
            if key not in memo:
                k = e.fresh("modk", "Int")
                r = s.e - z3.ToReal(k) * mm
                e.solver.add(r >= 0, r < mm)
                memo[key] = r
            return mk(memo[key])
        return mk(s.e - mm * z3.ToReal(z3.ToInt(s.e / mm)))

    def __float__(self):
        raise Unsupported("float() of a symbolic real (would concretise)")


class SymBool(Sym):
    __slots__ = ()

    def __bool__(self):
        return eng().branch(self.e)

    def __and__(s, o):
        try:
            return mk(z3.And(s.e, _tobool(o)))
        except TypeError:
            return NotImplemented
    __rand__ = __and__

    def __or__(s, o):
        try:
            return mk(z3.Or(s.e, _tobool(o)))
        except TypeError:
            return NotImplemented
    __ror__ = __or__

    def __xor__(s, o): return mk(z3.Xor(s.e, _tobool(o)))
    __rxor__ = __xor__
    def __invert__(s): return mk(z3.Not(s.e))
    def __eq__(s, o):
        try:
            return mk(s.e == _tobool(o))
        except TypeError:
            return False
    def __ne__(s, o):
        try:
            return mk(s.e != _tobool(o))
        except TypeError:
            return True
    __hash__ = Sym.__hash__

    def _asint(s): return mk(z3.If(s.e, 1, 0))
    def __add__(s, o): return s._asint() + o
    __radd__ = __add__
    def __mul__(s, o): return s._asint() * o
    __rmul__ = __mul__
    def __sub__(s, o): return s._asint() - o
    def __rsub__(s, o): return o - s._asint()
    def item(self): return self
    def astype(self, dt): return self


def _tobool(o):
    if isinstance(o, SymBool):
        return o.e
    if isinstance(o, (bool,)):
        return z3.BoolVal(o)
    if z3.is_expr(o) and z3.is_bool(o):
        return o
    try:
        import numpy as _np
        if isinstance(o, _np.bool_):
            return z3.BoolVal(bool(o))
    except ImportError:
        pass
    raise TypeError(type(o))


class SymKey:
    """hashable stand-in for a byte string made of possibly symbolic elements (ndarray.tobytes()):
    constant hash, equality decided (and forked on) by the solver, so a dict lookup costs one fork
    per stored key instead of concretising every element."""
    __slots__ = ("elems",)

    def __init__(self, elems):
        self.elems = tuple(elems)

    def __hash__(self):
        return 0x5ca1ab1e

    def __eq__(self, o):
        if not isinstance(o, SymKey) or len(o.elems) != len(self.elems):
            return False
        return and_(*[(a == b) for a, b in zip(self.elems, o.elems)])

    def __ne__(self, o):
        return not_(self.__eq__(o))

    def __repr__(self):
        return f"SymKey{self.elems}"


class SymEnum(Sym):
    """A value drawn from a finite list of concrete Python values (strings, tokens);
    e is a z3 Int index into vals."""
    __slots__ = ("vals",)

    def __init__(self, e, vals):
        self.e = e
        self.vals = list(vals)

    def _cmp(self, o):
        if isinstance(o, SymEnum):
            hits = [z3.And(self.e == i, o.e == j) for i, a in enumerate(self.vals)
                    for j, b in enumerate(o.vals) if _same(a, b)]
            return mk(z3.Or(*hits)) if hits else False
        hits = [self.e == i for i, a in enumerate(self.vals) if _same(a, o)]
        return mk(z3.Or(*hits)) if hits else False

    def __eq__(self, o): return self._cmp(o)

    def __ne__(self, o):
        r = self._cmp(o)
        return (not r) if isinstance(r, bool) else ~r

    def __hash__(self):
        return hash(self.concrete())

    def concrete(self):
        i = concretize(SymInt(self.e))
        return self.vals[i]

    def __bool__(self):
        return bool(self.concrete())

    def __str__(self):
        return str(self.concrete())

    def __repr__(self):
        return f"SymEnum({self.e}:{self.vals})"


def _same(a, b):
    try:
        return type(a) is type(b) and a == b
    except Exception:
        return a is b


def enum_var(name, vals, e=None):
    e = e or eng()
    v = z3.Int(name)
    e.solver.add(v >= 0, v < len(vals))
    return SymEnum(v, vals)


def concretize(x, limit=64):
    """Fork over all feasible values of a symbolic int (deterministic order).  This is
    the one place where the engine degenerates towards enumeration (DESIGN 1.2)."""
    if not isinstance(x, Sym):
        return int(x)
    e = eng()
    vals = []
    e.solver.push()
    while True:
        r = e.check()
        if r == z3.unknown:
            e.solver.pop()
            raise Inconclusive("concretize")
        if r != z3.sat:
            break
        v = e._last_model.eval(x.e, model_completion=True).as_long()
        vals.append(v)
        e.solver.add(x.e != v)
        if len(vals) > limit:
            e.solver.pop()
            raise Unsupported("concretize: domain too large")
    e.solver.pop()
    if not vals:
        raise Abort()
    vals.sort()
    for v in vals[:-1]:
        if e.branch(x.e == v):
            return v
    e.solver.add(x.e == vals[-1])
    return vals[-1]


# ------------------------------------------------------------------ merge helpers
def ite(c, a, b):
    c = unwrap(c)
    if c is True:
        return a
    if c is False:
        return b
    if a is b:
        return a
    if isinstance(a, SymEnum) or isinstance(b, SymEnum):
        raise Unsupported("ite over enums")
    x, y = _coerce(lift(a), lift(b))
    return mk(z3.If(c, x, y))


def and_(*xs):
    out = []
    for x in xs:
        x = unwrap(x)
        if x is True:
            continue
        if x is False:
            return False
        out.append(_tobool(x))
    if not out:
        return True
    return mk(z3.And(*out)) if len(out) > 1 else mk(out[0])


def or_(*xs):
    out = []
    for x in xs:
        x = unwrap(x)
        if x is False:
            continue
        if x is True:
            return True
        out.append(_tobool(x))
    if not out:
        return False
    return mk(z3.Or(*out)) if len(out) > 1 else mk(out[0])


def not_(x):
    x = unwrap(x)
    if x is True:
        return False
    if x is False:
        return True
    return mk(z3.Not(_tobool(x)))


def implies(a, b):
    return or_(not_(a), b)


def is_sym(x):
    return isinstance(x, Sym)


def smin(a, b):
    if not is_sym(a) and not is_sym(b):
        return _bi.min(a, b)
    return ite(a <= b, a, b)


def smax(a, b):
    if not is_sym(a) and not is_sym(b):
        return _bi.max(a, b)
    return ite(a >= b, a, b)


def z(v):
    """lift to z3 (bool or arithmetic)"""
    if isinstance(v, Sym):
        return v.e
    if isinstance(v, bool):
        return z3.BoolVal(v)
    return lift(v)


# ------------------------------------------------------------------ builtins for the clone world
def _flat_args(args):
    if len(args) == 1:
        a = args[0]
        if hasattr(a, "flat_list"):
            return a.flat_list()
        return list(a)
    return list(args)


def b_min(*args, **kw):
    xs = _flat_args(args)
    if not any(is_sym(x) for x in xs):
        if len(args) == 1 and not hasattr(args[0], "flat_list"):
            return _bi.min(xs, **kw)        # the argument may be a one-shot iterator, already consumed above
        return _bi.min(*args, **kw)
    r = xs[0]
    for x in xs[1:]:
        r = smin(r, x)
    return r


def b_max(*args, **kw):
    xs = _flat_args(args)
    if not any(is_sym(x) for x in xs):
        if len(args) == 1 and not hasattr(args[0], "flat_list"):
            return _bi.max(xs, **kw)        # the argument may be a one-shot iterator, already consumed above
        return _bi.max(*args, **kw)
    r = xs[0]
    for x in xs[1:]:
        r = smax(r, x)
    return r


def b_abs(x):
    return abs(x)


def b_sum(xs, start=0):
    r = start
    for x in xs:
        r = r + x
    return r


def b_bool(x=False):
    # bool(sym) must fork; keep python semantics
    return True if x else False


class _FloatMeta(type):
    def __instancecheck__(cls, inst):
        return isinstance(inst, (float, SymReal))


class b_float(metaclass=_FloatMeta):
    """stand-in for builtin float inside the clone world: float(sym) stays symbolic"""
    def __new__(cls, x=0.0):
        if isinstance(x, SymInt):
            return mk(z3.ToReal(x.e))
        if isinstance(x, Sym):
            return x
        return float(x)


class _IntMeta(type):
    def __instancecheck__(cls, inst):
        return (isinstance(inst, int) and not isinstance(inst, bool)) or isinstance(inst, SymInt) or type(inst) is bool


class b_int(metaclass=_IntMeta):
    def __new__(cls, x=0, *a):
        if isinstance(x, SymInt):
            return x
        if isinstance(x, SymReal):
            raise Unsupported("int() of symbolic real")
        return int(x, *a)


def b_len(x):
    n = x.__len__()
    return n


def b_round(x, n=None):
    if is_sym(x):
        raise Unsupported("round() of symbolic value")
    return round(x, n) if n is not None else round(x)


WORLD_BUILTINS = {"min": b_min, "max": b_max, "abs": b_abs, "sum": b_sum, "float": b_float, "round": b_round}
