import sys, os, argparse, importlib, json, warnings
warnings.filterwarnings("ignore")


def main():
    ap = argparse.ArgumentParser()
    sub = ap.add_subparsers(dest="cmd", required=True)
    c = sub.add_parser("check")
    c.add_argument("prop")
    c.add_argument("--tier", default=os.environ.get("VERIF_TIER", "quick"), choices=["quick", "thorough"])
    c.add_argument("--only", nargs="*")
    c.add_argument("--jobs", type=int)
    r = sub.add_parser("replay")
    r.add_argument("path")
    a = ap.parse_args()
    sys.path.insert(0, os.path.dirname(os.path.dirname(os.path.abspath(__file__))))
    from symex import runner
    if a.cmd == "check":
        seed = int(os.environ.get("VERIF_SEED", "0") or 0)
        mod = importlib.import_module(f"props.{a.prop.lower()}")
        obs = mod.obligations(a.tier)
        sys.exit(runner.run_property(a.prop, obs, a.tier, seed, jobs=a.jobs, only=a.only))
    else:
        d = json.load(open(a.path))
        mod = importlib.import_module(f"props.{d['property'].lower()}")
        obs = {o.id: o for t in ("quick", "thorough") for o in mod.obligations(t)}
        ob = obs[d["obligation"]]
        why = ob.replay(d["model"])
        if why:
            print(f"VIOLATION property={d['property']} replay={a.path}\n  {why}")
            sys.exit(1)
        print("replay: property holds on this input")
        sys.exit(0)


if __name__ == "__main__":
    main()
