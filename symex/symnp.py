"""Symbolic numpy shim (DESIGN.md 1.3).  Shapes are concrete (capacity), contents are Python
scalars or Sym* terms; arrays whose length depends on values carry a symbolic valid length `n`
along axis 0.  Operations whose shape does not depend on values never fork.

The same code also runs on purely concrete contents, which is how the shim is validated
differentially against real numpy on every run (validate.py)."""
import itertools
import math
import builtins as _bi
import fractions
import numpy as _np
import z3
from . import core as sc
from .core import ite, mk, unwrap, Sym, SymInt, SymReal, SymBool, and_, or_, not_, Unsupported, eng

pi = math.pi
nan = float("nan")
inf = float("inf")
newaxis = None


# ------------------------------------------------------------------ dtypes
class DType:
    def __init__(self, name, kind, bits):
        self.name, self.kind, self.bits = name, kind, bits

    def __eq__(self, o):
        o = as_dtype(o, none_ok=True)
        return o is not None and o.name == self.name

    def __ne__(self, o):
        return not self.__eq__(o)

    def __hash__(self):
        return hash(self.name)

    def __repr__(self):
        return f"dtype('{self.name}')"

    def __call__(self, x=0):
        # np.float64(3) style scalar construction
        if isinstance(x, (SArr, list, tuple)):
            return array(x, dtype=self)
        return _cast_scalar(x, self)

    @property
    def type(self):
        return self

    @property
    def itemsize(self):
        return self.bits // 8


int64 = DType("int64", "i", 64)
int32 = DType("int32", "i", 32)
float64 = DType("float64", "f", 64)
float32 = DType("float32", "f", 32)
bool_ = DType("bool", "b", 8)
object_ = DType("object", "O", 64)
intp = int64
int_ = int64
double = float64


class _Kind:
    def __init__(self, kinds):
        self.kinds = kinds


integer = _Kind("i")
floating = _Kind("f")
number = _Kind("if")
signedinteger = integer


def as_dtype(d, none_ok=False):
    if isinstance(d, DType):
        return d
    if d is None:
        if none_ok:
            return None
        return float64
    if d is float or d is sc.b_float:
        return float64
    if d is int or d is sc.b_int:
        return int64
    if d is bool:
        return bool_
    if isinstance(d, str):
        return {"int": int64, "int64": int64, "int32": int32, "float": float64, "float64": float64,
                "float32": float32, "bool": bool_, "intp": int64}.get(d, None if none_ok else float64)
    if isinstance(d, _np.dtype) or (isinstance(d, type) and issubclass(d, _np.generic)):
        d = _np.dtype(d)
        return {"i": int64 if d.itemsize == 8 else int32, "u": int64, "f": float64 if d.itemsize == 8 else float32,
                "b": bool_}.get(d.kind, object_)
    if none_ok:
        return None
    raise Unsupported(f"dtype {d!r}")


def dtype(d):
    return as_dtype(d)


def _scalar_dtype(v):
    if isinstance(v, (bool, SymBool, _np.bool_)):
        return bool_
    if isinstance(v, (int, SymInt, _np.integer)):
        return int64
    if isinstance(v, (float, SymReal, fractions.Fraction, _np.floating)):
        return float64
    return object_


def issubdtype(a, k):
    if not isinstance(a, (DType, _Kind)):
        if isinstance(a, SArr):
            a = a.dtype
        elif isinstance(a, (type, str, _np.dtype)):
            a = as_dtype(a)
        else:
            a = _scalar_dtype(a)
    if isinstance(k, _Kind):
        return a.kind in k.kinds
    k = as_dtype(k)
    return a.kind == k.kind


class _IInfo:
    def __init__(self, dt):
        dt = as_dtype(dt.dtype if isinstance(dt, SArr) else dt)
        if dt.kind != "i":
            raise ValueError("Invalid integer data type")
        self.min = -(2 ** (dt.bits - 1))
        self.max = 2 ** (dt.bits - 1) - 1
        self.dtype = dt


iinfo = _IInfo


class _FInfo:
    def __init__(self, dt):
        dt = as_dtype(dt.dtype if isinstance(dt, SArr) else dt)
        f = _np.finfo(_np.float64 if dt.bits == 64 else _np.float32)
        self.min, self.max, self.eps = float(f.min), float(f.max), float(f.eps)


finfo = _FInfo


def _cast_scalar(v, dt):
    dt = as_dtype(dt)
    if dt.kind == "f":
        if isinstance(v, SymInt):
            return mk(z3.ToReal(v.e))
        if isinstance(v, SymBool):
            return mk(z3.If(v.e, z3.RealVal(1), z3.RealVal(0)))
        if isinstance(v, Sym):
            return v
        return float(v)
    if dt.kind == "i":
        if isinstance(v, SymReal):
            # float -> int: truncation toward zero (C semantics of astype)
            fl = z3.ToInt(v.e)
            return mk(z3.If(v.e >= 0, fl, -z3.ToInt(-v.e)))
        if isinstance(v, SymBool):
            return mk(z3.If(v.e, 1, 0))
        if isinstance(v, Sym):
            return v
        if isinstance(v, float) and v != v:
            return mk(eng().fresh("nan2int", "Int"))     # NaN -> int is unspecified: an arbitrary integer
        return int(v)
    if dt.kind == "b":
        if isinstance(v, SymBool):
            return v
        if isinstance(v, Sym):
            return v != 0
        return bool(v)
    return v


# ------------------------------------------------------------------ array
def _prod(s):
    p = 1
    for x in s:
        p *= x
    return p


def _strides(shape):
    st = []
    acc = 1
    for d in reversed(shape):
        st.append(acc)
        acc *= d
    return tuple(reversed(st))


class SArr:
    """buf: python list shared between views; offs: buffer offsets in C order; shape_cap: concrete
    capacity shape; n: valid length along axis 0 (None = full)."""
    __array_priority__ = 1000

    def __init__(self, buf, offs, shape, n=None, dtype=None):
        self.buf, self.offs, self.shape_cap, self.n = buf, offs, tuple(int(d) for d in shape), n
        self.dtype = as_dtype(dtype) if dtype is not None else int64
        self.vlast = False     # True: logically shape lead+(n,), stored with the variable axis first (see _adv_get Ellipsis)
        self.forder = False    # True: column-major memory layout (np.asfortranarray input); only matters where numpy's view/copy
                               # behaviour depends on it (ravel/reshape of a 2-d array copy instead of viewing)

    @staticmethod
    def new(vals, shape, n=None, dtype=None):
        vals = list(vals)
        shape = tuple(shape)
        if len(vals) != _prod(shape):
            raise ValueError(f"cannot build array of shape {shape} from {len(vals)} values")
        if dtype is None:
            dtype = _infer_dtype(vals)
        return SArr(vals, list(range(len(vals))), shape, n, dtype)

    # -- basic properties
    @property
    def shape(self):
        if self.n is None:
            return self.shape_cap
        return (self.n,) + self.shape_cap[1:]

    @property
    def ndim(self):
        return len(self.shape_cap)

    @property
    def size(self):
        if self.n is None:
            return _prod(self.shape_cap)
        return self.n * _prod(self.shape_cap[1:])

    @property
    def values(self):
        return self

    @property
    def data(self):
        return self

    def flat_list(self):
        b = self.buf
        return [b[o] for o in self.offs]

    def raw(self):
        """capacity view without the symbolic length (harness-side reads of slots beyond n)"""
        return SArr(self.buf, self.offs, self.shape_cap, None, self.dtype)

    def flatten(self):
        return self.copy().ravel()

    def __len__(self):
        if not self.shape_cap:
            raise TypeError("len() of unsized object")
        if self.n is None:
            return self.shape_cap[0]
        return sc.concretize(self.n)

    def copy(self, order=None):
        return SArr.new(self.flat_list(), self.shape_cap, self.n, self.dtype)

    def __copy__(self):
        return self.copy()

    def __deepcopy__(self, memo):
        return self.copy()

    def _full(self, what):
        if self.n is not None:
            raise Unsupported(f"{what} on a variable-length array")

    def _f_noncontig(self):
        return self.forder and _bi.sum(1 for d in self.shape_cap if d > 1) >= 2

    def ravel(self):
        if self.n is not None and _bi.all(d == 1 for d in self.shape_cap[1:]):
            return SArr(self.buf, self.offs, (self.shape_cap[0],), self.n, self.dtype)
        self._full("ravel")
        if self._f_noncontig():
            # C-order ravel of a column-major array is a copy in numpy
            return SArr.new(self.flat_list(), (len(self.offs),), None, self.dtype)
        return SArr(self.buf, self.offs, (len(self.offs),), None, self.dtype)

    def reshape(self, *shape):
        if len(shape) == 1 and isinstance(shape[0], (tuple, list)):
            shape = tuple(shape[0])
        self._full("reshape")
        shape = [int(s) for s in shape]
        if -1 in shape:
            i = shape.index(-1)
            shape[i] = 1
            shape[i] = len(self.offs) // _bi.max(_prod(shape), 1)
        if _prod(shape) != len(self.offs):
            raise ValueError(f"cannot reshape array of size {len(self.offs)} into shape {tuple(shape)}")
        if self._f_noncontig():
            return SArr.new(self.flat_list(), tuple(shape), None, self.dtype)
        return SArr(self.buf, self.offs, tuple(shape), None, self.dtype)

    def astype(self, dt, copy=True):
        dt = as_dtype(dt)
        if copy is False and dt == self.dtype:
            return self           # numpy hands back the array itself: later in-place writes reach the caller's data
        r = SArr.new([_cast_scalar(v, dt) for v in self.flat_list()], self.shape_cap, self.n, dt)
        r.forder = self.forder        # astype(order='K') keeps the layout
        return r

    def tolist(self):
        self._full("tolist")
        if self.ndim == 0:
            return self.flat_list()[0]
        if self.ndim == 1:
            return self.flat_list()
        return [self[i].tolist() for i in range(self.shape_cap[0])]

    def item(self):
        return self.flat_list()[0]

    def tobytes(self, order="C"):
        # hashable stand-in: equal exactly when the element sequences are equal (hashing concretises symbolic elements)
        return sc.SymKey(self.flat_list())

    def fill(self, v):
        for o in self.offs:
            self.buf[o] = v

    def transpose(self, *axes):
        self._full("transpose")
        if len(axes) == 1 and isinstance(axes[0], (tuple, list)):
            axes = tuple(axes[0])
        if not axes:
            axes = tuple(reversed(range(self.ndim)))
        st = _strides(self.shape_cap)
        newshape = tuple(self.shape_cap[a] for a in axes)
        offs = []
        for idx in itertools.product(*[range(d) for d in newshape]):
            pos = _bi.sum(i * st[a] for i, a in zip(idx, axes))
            offs.append(self.offs[pos])
        return SArr(self.buf, offs, newshape, None, self.dtype)

    @property
    def T(self):
        return self.transpose()

    def swapaxes(self, a, b):
        ax = list(range(self.ndim))
        ax[a], ax[b] = ax[b], ax[a]
        return self.transpose(*ax)

    def squeeze(self, axis=None):
        if self.n is not None and self.ndim == 1:
            return self
        if self.n is not None and _bi.all(d == 1 for d in self.shape_cap[1:]):
            # (n, 1, ...) -> (n,)   NB: numpy would also drop the first axis when n == 1 (0-d result); callers here index or iterate
            return SArr(self.buf, self.offs, (self.shape_cap[0],), self.n, self.dtype)
        self._full("squeeze")
        shp = tuple(d for d in self.shape_cap if d != 1)
        return SArr(self.buf, self.offs, shp, None, self.dtype)

    # -- indexing
    def _basic(self, key):
        if not isinstance(key, tuple):
            key = (key,)
        for k in key:
            if isinstance(k, (SArr, list, _np.ndarray, Sym)) or k is Ellipsis:
                if k is Ellipsis:
                    break
                return None
        if _bi.any(k is Ellipsis for k in key):
            i = [j for j, k in enumerate(key) if k is Ellipsis][0]
            nfill = self.ndim - (len([k for k in key if k is not None]) - 1)
            key = key[:i] + (slice(None),) * nfill + key[i + 1:]
            return self._basic(key) if not _bi.any(isinstance(k, (SArr, list, _np.ndarray, Sym)) for k in key) else None
        n_none = len([k for k in key if k is None])
        key = list(key) + [slice(None)] * (self.ndim - (len(key) - n_none))
        ranges, newshape = [], []
        dims = list(self.shape_cap)
        di = 0
        first_axis_slice = None
        for k in key:
            if k is None:
                newshape.append(1)
                continue
            if di >= len(dims):
                raise IndexError("too many indices for array")
            d = dims[di]
            if isinstance(k, slice):
                if isinstance(k.start, Sym) or isinstance(k.stop, Sym):
                    k = slice(None if k.start is None else int(k.start), None if k.stop is None else int(k.stop), k.step)
                r = range(*k.indices(d))
                ranges.append(r)
                newshape.append(len(r))
                if di == 0:
                    first_axis_slice = k
            else:
                k = int(k)
                if k < 0:
                    k += d
                if not 0 <= k < d:
                    raise IndexError(f"index {k} is out of bounds for axis {di} with size {d}")
                ranges.append([k])
            di += 1
        st = _strides(self.shape_cap)
        pos = [_bi.sum(i * s for i, s in zip(idx, st)) for idx in itertools.product(*ranges)]
        return pos, tuple(newshape), first_axis_slice, key

    def __getitem__(self, key):
        if isinstance(key, _np.ndarray):
            key = array(key)
        if isinstance(key, list):
            key = array(key)
        if isinstance(key, tuple) and _bi.any(isinstance(k, (list, _np.ndarray)) for k in key):
            key = tuple(array(k) if isinstance(k, (list, _np.ndarray)) else k for k in key)
        b = self._basic(key)
        if b is not None:
            pos, shp, s0, nk = b
            n = None
            if self.n is not None:
                k0 = nk[0]
                if isinstance(k0, slice):
                    if k0 == slice(None):
                        n = self.n
                    else:
                        # slicing a varlen array on axis 0: concretise the length
                        ln = sc.concretize(self.n)
                        r = range(*k0.indices(ln))
                        st = _strides(self.shape_cap)
                        rest = nk[1:]
                        sub = SArr(self.buf, self.offs, self.shape_cap, None, self.dtype)
                        return sub[(slice(r.start, r.stop, r.step),) + tuple(rest)] if len(r) else \
                            SArr.new([], (0,) + tuple(s for s in shp[1:]), None, self.dtype)
                else:
                    # integer index into varlen: index must be valid
                    k0i = int(k0)
                    if k0i < 0:
                        ln = sc.concretize(self.n)
                        return SArr(self.buf, self.offs, self.shape_cap, None, self.dtype)[(ln + k0i,) + tuple(nk[1:])]
                    if sc.unwrap(self.n > k0i) is not True and not eng().branch(sc.z(self.n > k0i)):
                        raise IndexError(f"index {k0i} is out of bounds for axis 0 with size {self.n}")
            if shp == ():
                return self.buf[self.offs[pos[0]]]
            return SArr(self.buf, [self.offs[p] for p in pos], shp, n, self.dtype)
        return _adv_get(self, key)

    def __setitem__(self, key, val):
        if isinstance(key, (_np.ndarray, list)):
            key = array(key)
        if isinstance(key, tuple) and _bi.any(isinstance(k, (list, _np.ndarray)) for k in key):
            key = tuple(array(k) if isinstance(k, (list, _np.ndarray)) else k for k in key)
        b = self._basic(key)
        if b is not None:
            pos, shp, _, _ = b
            vals = _bcast(val, shp)
            vals = [_cast_in(v, self.dtype) for v in vals]
            for p, v in zip(pos, vals):
                self.buf[self.offs[p]] = v
            return
        _adv_set(self, key, val)

    def __iter__(self):
        if self.ndim == 0:
            raise TypeError("iteration over a 0-d array")
        for i in range(len(self)):
            yield self[i]

    # -- elementwise
    def _ew(self, o, f, dt=None):
        if isinstance(o, (_np.ndarray, list, tuple)):
            o = array(o)
        if isinstance(o, SArr) and (self.vlast or o.vlast):
            A, B = (self, o)
            if not A.vlast:
                A = SArr(A.buf, A.offs, A.shape_cap + (1,) * (B.ndim - A.ndim), A.n, A.dtype) if A.ndim == 1 else moveaxis_last_first(A)
            if not B.vlast:
                B = SArr(B.buf, B.offs, B.shape_cap + (1,) * (A.ndim - B.ndim), B.n, B.dtype) if B.ndim == 1 else moveaxis_last_first(B)
            shp = _bshape(A.shape_cap, B.shape_cap)
            n = A.n if A.n is not None else B.n
            r = SArr.new([f(x, y) for x, y in zip(_bcast(A, shp), _bcast(B, shp))], shp, n, dt or _promote(self.dtype, o.dtype))
            r.vlast = True
            return r
        if isinstance(o, SArr):
            shp = _bshape(self.shape_cap, o.shape_cap)
            a = _bcast(self, shp)
            b = _bcast(o, shp)
            n = self.n if self.n is not None else o.n
            if self.n is not None and o.n is not None and self.n is not o.n:
                eng().add(self.n == o.n)
            odt = o.dtype
        else:
            shp = self.shape_cap
            a = self.flat_list()
            b = [o] * len(a)
            n = self.n
            odt = _scalar_dtype(o)
        if dt is None:
            dt = _promote(self.dtype, odt)
        r = SArr.new([f(x, y) for x, y in zip(a, b)], shp, n, dt)
        r.vlast = self.vlast
        return r

    def __add__(s, o): return s._ew(o, _add)
    def __radd__(s, o): return s._ew(o, lambda a, b: _add(b, a))
    def __sub__(s, o): return s._ew(o, _sub)
    def __rsub__(s, o): return s._ew(o, lambda a, b: _sub(b, a))
    def __mul__(s, o): return s._ew(o, _mul)
    def __rmul__(s, o): return s._ew(o, lambda a, b: _mul(b, a))
    def __truediv__(s, o): return s._ew(o, _div, float64)
    def __rtruediv__(s, o): return s._ew(o, lambda a, b: _div(b, a), float64)
    def __floordiv__(s, o): return s._ew(o, lambda a, b: a // b)
    def __mod__(s, o): return s._ew(o, lambda a, b: a % b)
    def __pow__(s, o): return s._ew(o, _pow)
    def __neg__(s): return SArr.new([-v for v in s.flat_list()], s.shape_cap, s.n, s.dtype)
    def __abs__(s): return SArr.new([_bi.abs(v) for v in s.flat_list()], s.shape_cap, s.n, s.dtype)
    def __eq__(s, o): return s._ew(o, lambda a, b: _eq(a, b), bool_)
    def __ne__(s, o): return s._ew(o, lambda a, b: not_(_eq(a, b)), bool_)
    def __lt__(s, o): return s._ew(o, lambda a, b: a < b, bool_)
    def __le__(s, o): return s._ew(o, lambda a, b: a <= b, bool_)
    def __gt__(s, o): return s._ew(o, lambda a, b: a > b, bool_)
    def __ge__(s, o): return s._ew(o, lambda a, b: a >= b, bool_)
    def __and__(s, o): return s._ew(o, lambda a, b: and_(a, b), bool_)
    __rand__ = __and__
    def __or__(s, o): return s._ew(o, lambda a, b: or_(a, b), bool_)
    __ror__ = __or__
    def __invert__(s): return SArr.new([not_(v) for v in s.flat_list()], s.shape_cap, s.n, bool_)
    __hash__ = None

    def _inplace(self, r):
        vals = _bcast(r, self.shape_cap)
        for off, v in zip(self.offs, vals):
            self.buf[off] = _cast_in(v, self.dtype)
        return self

    def __iadd__(s, o): return s._inplace(s + o)
    def __isub__(s, o): return s._inplace(s - o)
    def __imul__(s, o): return s._inplace(s * o)
    def __itruediv__(s, o): return s._inplace(s / o)

    def __bool__(self):
        if len(self.offs) != 1:
            raise ValueError("The truth value of an array with more than one element is ambiguous. Use a.any() or a.all()")
        return True if self.flat_list()[0] else False

    def __index__(self):
        if len(self.offs) != 1:
            raise TypeError("only integer scalar arrays can be converted to a scalar index")
        return int(self.flat_list()[0])

    def __repr__(self):
        return f"SArr(shape={self.shape_cap}, n={self.n}, dtype={self.dtype.name}, {self.flat_list()[:12]}{'...' if len(self.offs) > 12 else ''})"

    # -- methods mirroring numpy
    def sort(self, axis=-1):
        r = sort(self, axis)
        for off, v in zip(self.offs, r.flat_list()):
            self.buf[off] = v

    def any(self, axis=None): return any(self, axis)
    def all(self, axis=None): return all(self, axis)
    def sum(self, axis=None, keepdims=False): return sum(self, axis, keepdims=keepdims)
    def min(self, axis=None): return min(self, axis)
    def max(self, axis=None): return max(self, axis)
    def mean(self, axis=None): return mean(self, axis)
    def argmax(self, axis=None): return argmax(self, axis)
    def argmin(self, axis=None): return argmin(self, axis)
    def cumsum(self, axis=None): return cumsum(self, axis)
    def nonzero(self): return nonzero(self)
    def dot(self, o): return dot(self, o)
    def round(self, d=0): raise Unsupported("round")
    def compute(self): return self
    def chunk(self, *a, **k): return self


ndarray = SArr


def _infer_dtype(vals):
    k = "b"
    for v in vals:
        d = _scalar_dtype(v)
        if d.kind == "O":
            return object_
        if d.kind == "f":
            return float64
        if d.kind == "i":
            k = "i"
    if not vals:
        return float64
    return bool_ if k == "b" else int64


def _promote(a, b):
    order = {"b": 0, "i": 1, "f": 2, "O": 3}
    if order[a.kind] > order[b.kind]:
        return a
    if order[a.kind] < order[b.kind]:
        return b
    return a if a.bits >= b.bits else b


def _cast_in(v, dt):
    """value stored into an array of dtype dt"""
    if dt.kind == "f" and isinstance(v, (int, SymInt)) and not isinstance(v, bool):
        return _cast_scalar(v, dt)
    if dt.kind == "i" and isinstance(v, (float, SymReal)):
        return _cast_scalar(v, dt)
    return v


def _num(v):
    if isinstance(v, SymBool):
        return v._asint()
    if isinstance(v, bool):
        return int(v)
    if isinstance(v, _np.generic):
        return v.item()
    return v


def _add(a, b): return _num(a) + _num(b)
def _sub(a, b): return _num(a) - _num(b)
def _mul(a, b): return _num(a) * _num(b)


def _div(a, b):
    a, b = _num(a), _num(b)
    if isinstance(a, Sym) or isinstance(b, Sym):
        if not isinstance(a, Sym):
            a = mk(sc.lift(float(a)))
        return a / b
    try:
        return a / b
    except ZeroDivisionError:      # numpy semantics for floats: nan / +-inf (with a warning)
        a = float(a)
        return float("nan") if a == 0 or a != a else (float("inf") if a > 0 else float("-inf"))


def _pow(a, b):
    a = _num(a)
    if isinstance(a, Sym):
        return a ** b
    return a ** b


def _eq(a, b):
    if isinstance(a, Sym) or isinstance(b, Sym):
        if isinstance(a, SymBool) or isinstance(b, SymBool):
            try:
                return mk(sc._tobool(a) == sc._tobool(b))
            except TypeError:
                return _num(a) == _num(b)
        r = (a == b)
        return r
    if isinstance(a, float) and a != a:
        return False
    return a == b


def _bshape(s1, s2):
    s1, s2 = tuple(s1), tuple(s2)
    n = _bi.max(len(s1), len(s2))
    s1 = (1,) * (n - len(s1)) + s1
    s2 = (1,) * (n - len(s2)) + s2
    out = []
    for a, b in zip(s1, s2):
        if a == b or b == 1:
            out.append(a)
        elif a == 1:
            out.append(b)
        else:
            raise ValueError(f"operands could not be broadcast together with shapes {s1} {s2}")
    return tuple(out)


def _bcast(val, shape):
    """flat list of val broadcast to shape"""
    shape = tuple(shape)
    n = _prod(shape)
    if isinstance(val, (list, tuple, _np.ndarray)):
        val = array(val)
    if not isinstance(val, SArr):
        return [val] * n
    if val.shape_cap == shape:
        return val.flat_list()
    vs = (1,) * (len(shape) - val.ndim) + val.shape_cap
    if len(vs) != len(shape):
        raise ValueError(f"could not broadcast input array from shape {val.shape_cap} into shape {shape}")
    for a, b in zip(vs, shape):
        if a != b and a != 1:
            raise ValueError(f"could not broadcast input array from shape {val.shape_cap} into shape {shape}")
    st = _strides(vs)
    fl = val.flat_list()
    out = []
    for idx in itertools.product(*[range(d) for d in shape]):
        pos = _bi.sum((i if vs[k] != 1 else 0) * st[k] for k, i in enumerate(idx))
        out.append(fl[pos])
    return out


def _valid(a, i):
    return True if a.n is None else (i < a.n)


def _select(k, rows, n=None):
    """rows[k] for symbolic k (merged If-chain)."""
    if isinstance(rows[0], SArr):
        cols = [r.flat_list() for r in rows]
        out = []
        for j in range(len(cols[0])):
            v = cols[-1][j]
            for i in range(len(rows) - 2, -1, -1):
                v = ite(k == i, cols[i][j], v)
            out.append(v)
        return SArr.new(out, rows[0].shape_cap, None, rows[0].dtype)
    v = rows[-1]
    for i in range(len(rows) - 2, -1, -1):
        v = ite(k == i, rows[i], v)
    return v


def _norm_index(k, d):
    """python-style negative index normalisation for a possibly symbolic k"""
    if isinstance(k, Sym):
        return ite(k < 0, k + d, k)
    k = int(k)
    return k + d if k < 0 else k


OOB_HOOK = [None]   # optional callable(cond) invoked with the (symbolic) out-of-bounds condition of a gather


def _check_bounds(k, d, a=None, valid=True):
    """An index must lie in [-d, d); symbolic violations are recorded as a path obligation:
    numpy would raise IndexError, so the path on which it is out of range raises too."""
    if isinstance(k, Sym):
        lim = d if (a is None or a.n is None) else a.n
        bad = and_(valid, or_(k < -d if a is None or a.n is None else k < 0, k >= lim))
        if bad is True or (bad is not False and eng().branch(unwrap(bad))):
            raise IndexError(f"index out of bounds for axis with size {d}")
    else:
        if not -d <= int(k) < d:
            raise IndexError(f"index {k} is out of bounds for axis 0 with size {d}")


def _adv_get(a, key):
    # boolean mask
    if isinstance(key, SArr) and key.dtype.kind == "b":
        if key.ndim == a.ndim and key.ndim > 1:
            return _compress(a.ravel(), key.ravel())
        return _compress(a, key)
    if isinstance(key, Sym):
        key = (key,)
    if isinstance(key, SArr):
        key = (key,)
    if not isinstance(key, tuple):
        raise Unsupported(f"getitem {key!r}")
    # Ellipsis followed by an index array:  a[..., idx]
    if key and key[0] is Ellipsis and len(key) == 2:
        if a.ndim == 1:
            return a[key[1]]
        moved = moveaxis_last_first(a).copy()
        k = key[1]
        r = moved[k]
        if not isinstance(r, SArr):
            return r
        if isinstance(k, SArr):
            kd = 1 if k.dtype.kind == "b" else k.ndim
            if r.n is not None:
                # variable-length result: numpy's shape is lead+(n,); stored here with the variable axis first
                r.vlast = True
                return r
            return moveaxis_first_last(r, kd).copy()
        return r
    # one index array per axis of a 3-d array:  a[i_arr, j_arr, k_arr]  (element-wise triples; variable length allowed)
    if len(key) == 3 and a.ndim == 3 and a.n is None and _bi.all(isinstance(k, SArr) and k.ndim == 1 and k.dtype.kind != "b" for k in key):
        return _triple_get(a, key)
    k0, rest = key[0], tuple(key[1:])
    d0 = a.shape_cap[0]
    # leading full slice then advanced: a[:, idx]
    if isinstance(k0, slice) and k0 == slice(None) and len(rest) == 1 and a.ndim >= 2:
        araw = a.raw()
        rows = [_adv_get(araw[i], (rest[0],)) if not _is_basic(rest[0]) else araw[i][rest[0]] for i in range(d0)]
        return _stack_rows(rows, a.n, a.dtype)
    if isinstance(k0, Sym):
        _check_bounds(k0, d0, a)
        kk = _norm_index(k0, d0)
        rows = []
        for i in range(d0):
            sub = SArr(a.buf, a.offs, a.shape_cap, None, a.dtype)[i] if a.ndim > 1 else a.buf[a.offs[i]]
            if rest:
                sub = sub[rest if len(rest) > 1 else rest[0]]
            rows.append(sub)
        return _select(kk, rows)
    if isinstance(k0, SArr):
        if k0.dtype.kind == "b":
            sub = _compress(a, k0)
            if rest:
                if not _bi.all(_is_basic(r) for r in rest):
                    raise Unsupported("mask + advanced index")
                r = sub.raw()[(slice(None),) + rest]
                if isinstance(r, SArr):
                    r.n = sub.n
                return r
            return sub
        # paired advanced indices a[i_arr, j_arr]
        if rest and isinstance(rest[0], (SArr, Sym)) and len(rest) == 1 and isinstance(rest[0], SArr):
            shp = _bshape(k0.shape_cap, rest[0].shape_cap)
            ii = _bcast(k0, shp)
            jj = _bcast(rest[0], shp)
            out = [a[i, j] if not (isinstance(i, Sym) or isinstance(j, Sym)) else _get2(a, i, j) for i, j in zip(ii, jj)]
            return SArr.new(out, shp, k0.n, a.dtype)
        base = SArr(a.buf, a.offs, a.shape_cap, None, a.dtype)
        rows = []
        for pos, k in enumerate(k0.flat_list()):
            if isinstance(k, Sym):
                if k0.n is not None and k0.ndim == 1:
                    # slots of the index array beyond its valid length hold garbage: they must not trigger an IndexError
                    _check_bounds(k, d0, a, valid=(pos < k0.n))
                    kk = _norm_index(k, d0)
                    subs = []
                    for i in range(d0):
                        sub = base[i] if a.ndim > 1 else a.buf[a.offs[i]]
                        if rest:
                            sub = sub[rest if len(rest) > 1 else rest[0]]
                        subs.append(sub)
                    r = _select(kk, subs)
                else:
                    r = _adv_get(a, (k,) + rest)
            else:
                _check_bounds(k, d0, a)
                kk = _norm_index(k, d0)
                if a.n is not None and sc.unwrap(a.n > kk) is not True and not eng().branch(sc.z(a.n > kk)):
                    raise IndexError(f"index {kk} is out of bounds for axis 0 with size {a.n}")
                r = base[(kk,) + rest] if rest else base[kk]
            rows.append(r)
        if not rows:
            return SArr.new([], k0.shape_cap + a.shape_cap[1:], k0.n, a.dtype)
        if isinstance(rows[0], SArr):
            return SArr.new([v for r in rows for v in r.flat_list()], k0.shape_cap + rows[0].shape_cap, k0.n, a.dtype)
        return SArr.new(rows, k0.shape_cap, k0.n, a.dtype)
    if isinstance(k0, int) and rest:
        return _adv_get(a[k0], rest)
    if isinstance(k0, slice) and rest:
        r0 = range(*k0.indices(d0))
        araw = a.raw()
        rows = [_adv_get(araw[i], rest) if not _bi.all(_is_basic(r) for r in rest) else araw[i][rest] for i in r0]
        return _stack_rows(rows, None, a.dtype)
    raise Unsupported(f"getitem {key!r}")


def _is_basic(k):
    return isinstance(k, (int, slice)) or k is None


def _stack_rows(rows, n, dt):
    if not rows:
        return SArr.new([], (0,), n, dt)
    if isinstance(rows[0], SArr):
        return SArr.new([v for r in rows for v in r.flat_list()], (len(rows),) + rows[0].shape_cap, n, rows[0].dtype)
    return SArr.new(rows, (len(rows),), n, dt)


def _triple_len(keys):
    caps = {k.shape_cap[0] for k in keys}
    if len(caps) != 1:
        raise Unsupported("index arrays of different capacity")
    ns = [k.n for k in keys if k.n is not None]
    return caps.pop(), (ns[0] if ns else None)


def _triple_get(a, keys):
    cap, n = _triple_len(keys)
    D0, D1, D2 = a.shape_cap
    fl = a.flat_list()
    ks = [k.flat_list() for k in keys]
    out = []
    for p in range(cap):
        i, j, k = (_num(x[p]) for x in ks)
        if not _bi.any(isinstance(v, Sym) for v in (i, j, k)):
            out.append(fl[(int(i) * D1 + int(j)) * D2 + int(k)])
            continue
        flat = i * (D1 * D2) + j * D2 + k
        v = fl[-1]
        for q in range(len(fl) - 2, -1, -1):
            v = ite(flat == q, fl[q], v)
        out.append(v)
    return SArr.new(out, (cap,), n, a.dtype)


def _triple_set(a, keys, val):
    cap, n = _triple_len(keys)
    D0, D1, D2 = a.shape_cap
    ks = [k.flat_list() for k in keys]
    vals = asarray(val).flat_list() if isinstance(val, (SArr, list, tuple, _np.ndarray)) else [val] * cap
    if len(vals) == 1:
        vals = vals * cap
    for p in range(cap):
        i, j, k = (_num(x[p]) for x in ks)
        valid = True if n is None else (p < n)
        flat = i * (D1 * D2) + j * D2 + k
        v = _cast_in(vals[p], a.dtype)
        for q, o in enumerate(a.offs):
            a.buf[o] = ite(and_(valid, flat == q), v, a.buf[o])


def _get2(a, i, j):
    d0, d1 = a.shape_cap[0], a.shape_cap[1]
    if isinstance(i, Sym):
        _check_bounds(i, d0, a)
        rows = [_get2(a.raw(), r, j) for r in range(d0)]
        return _select(_norm_index(i, d0), rows)
    row = a[i]
    if isinstance(j, Sym):
        _check_bounds(j, d1)
        cols = [row[c] for c in range(d1)]
        return _select(_norm_index(j, d1), cols)
    return row[j]


def _adv_set(a, key, val):
    if isinstance(key, SArr) and key.dtype.kind == "b":
        if key.shape_cap != a.shape_cap:
            if key.ndim == 1 and key.shape_cap[0] == a.shape_cap[0]:
                # row mask
                rowlen = _prod(a.shape_cap[1:])
                if isinstance(val, SArr):
                    raise Unsupported("row-masked assignment of an array")
                fl = a.offs
                for i, m in enumerate(key.flat_list()):
                    for o in fl[i * rowlen:(i + 1) * rowlen]:
                        a.buf[o] = ite(m, _cast_in(val, a.dtype), a.buf[o])
                return
            raise Unsupported("mask shape mismatch")
        if isinstance(val, (SArr, list, tuple, _np.ndarray)):
            # a[mask] = values  (k-th True takes values[k])
            vals = array(val)
            vl = vals.flat_list()
            if len(vl) == 1:
                val = vl[0]
            else:
                cnt = 0
                for o, m in zip(a.offs, key.flat_list()):
                    pick = vl[-1] if vl else 0
                    for k in range(len(vl) - 2, -1, -1):
                        pick = ite(cnt == k, vl[k], pick)
                    a.buf[o] = ite(m, _cast_in(pick, a.dtype), a.buf[o])
                    cnt = cnt + ite(m, 1, 0)
                return
        v = _cast_in(val, a.dtype)
        for o, m in zip(a.offs, key.flat_list()):
            a.buf[o] = ite(m, v, a.buf[o])
        return
    if isinstance(key, Sym):
        key = (key,)
    if isinstance(key, SArr):
        key = (key,)
    if isinstance(key, tuple) and len(key) == 2 and key[0] is Ellipsis:
        if a.ndim == 1:
            a[key[1]] = val
            return
        view = moveaxis_last_first(a)          # a view: writes go to a's buffer
        k = key[1]
        if isinstance(val, SArr) and val.ndim == a.ndim and not val.vlast:
            val = moveaxis_last_first(val)
        if isinstance(k, SArr) and k.dtype.kind == "b":
            _set_rows_mask(view, k, val)
        else:
            view[k] = val
        return
    if isinstance(key, tuple) and len(key) == 3 and a.ndim == 3 and a.n is None and _bi.all(isinstance(k, SArr) and k.ndim == 1 and k.dtype.kind != "b" for k in key):
        _triple_set(a, key, val)
        return
    if (isinstance(key, tuple) and len(key) == 2 and isinstance(key[0], SArr) and key[0].dtype.kind == "b" and key[0].ndim == 1
            and isinstance(key[1], int) and a.ndim == 2 and a.n is None and key[0].shape_cap[0] == a.shape_cap[0]):
        # a[row_mask, col] = values   (the k-th selected row takes values[k]; a scalar goes everywhere)
        col = key[1] if key[1] >= 0 else key[1] + a.shape_cap[1]
        vl = asarray(val).flat_list() if isinstance(val, (SArr, list, tuple, _np.ndarray)) else None
        cnt = 0
        W = a.shape_cap[1]
        for r, m in enumerate(key[0].flat_list()):
            o = a.offs[r * W + col]
            if vl is None or len(vl) == 1:
                pick = val if vl is None else vl[0]
            else:
                pick = vl[-1]
                for q in range(len(vl) - 2, -1, -1):
                    pick = ite(cnt == q, vl[q], pick)
            a.buf[o] = ite(m, _cast_in(pick, a.dtype), a.buf[o])
            cnt = cnt + ite(m, 1, 0)
        return
    if isinstance(key, tuple):
        k0, rest = key[0], tuple(key[1:])
        d0 = a.shape_cap[0]
        if isinstance(k0, Sym):
            _check_bounds(k0, d0, a)
            kk = _norm_index(k0, d0)
            araw = a.raw()
            for i in range(d0):
                sub = araw[i] if a.ndim > 1 else None
                if sub is None:
                    o = a.offs[i]
                    a.buf[o] = ite(kk == i, _cast_in(val, a.dtype), a.buf[o])
                    continue
                if rest and _bi.any(isinstance(r, Sym) for r in rest):
                    if len(rest) != 1:
                        raise Unsupported("setitem with >2 symbolic indices")
                    j = rest[0]
                    d1 = a.shape_cap[1]
                    _check_bounds(j, d1)
                    jj = _norm_index(j, d1)
                    for c in range(d1):
                        o = sub.offs[c] if sub.ndim == 1 else None
                        if o is None:
                            raise Unsupported("setitem sym,sym on >2d")
                        a.buf[o] = ite(and_(kk == i, jj == c), _cast_in(val, a.dtype), a.buf[o])
                    continue
                tgt = sub[rest] if rest else sub
                if isinstance(tgt, SArr):
                    vals = _bcast(val, tgt.shape_cap)
                    for o, v in zip(tgt.offs, vals):
                        a.buf[o] = ite(kk == i, _cast_in(v, a.dtype), a.buf[o])
                else:
                    pos, _, _, _ = sub._basic(rest)
                    o = sub.offs[pos[0]]
                    a.buf[o] = ite(kk == i, _cast_in(val, a.dtype), a.buf[o])
            return
        if isinstance(k0, SArr) and k0.dtype.kind != "b":
            idx = k0.flat_list()
            if rest and len(rest) == 1 and isinstance(rest[0], SArr):
                jdx = _bcast(rest[0], k0.shape_cap)
                vals = _bcast(val, k0.shape_cap)
                for i, j, v in zip(idx, jdx, vals):
                    a[i, j] = v
                return
            if a.ndim == 1:
                vals = _bcast(val, k0.shape_cap)
                for i, (k, v) in enumerate(zip(idx, vals)):
                    if k0.n is not None:
                        # only the first n entries of the index array are real
                        old = a.copy()
                        a[k] = v
                        for o, ov in zip(a.offs, old.flat_list()):
                            a.buf[o] = ite(i < k0.n, a.buf[o], ov)
                    else:
                        a[k] = v
                return
            rowshape = a.shape_cap[1:]
            if isinstance(val, SArr) and val.ndim == a.ndim:
                rowsv = [val[i] for i in range(val.shape_cap[0])]
            else:
                rowsv = [val] * len(idx)
            for k, v in zip(idx, rowsv):
                a[(k,) + rest] = v
            return
        if isinstance(k0, int) and rest:
            a[k0][rest if len(rest) > 1 else rest[0]] = val
            return
        if isinstance(k0, slice) and rest and len(rest) == 1 and isinstance(rest[0], Sym):
            r0 = range(*k0.indices(d0))
            vals = _bcast(val, (len(r0),))
            araw = a.raw()
            for i, v in zip(r0, vals):
                araw[i][rest[0]] = v
            return
    raise Unsupported(f"setitem {key!r}")


def _set_rows_mask(a, mask, val):
    """a[mask] = val along axis 0 where val is a scalar or an array whose k-th row goes to the k-th True"""
    d0 = a.shape_cap[0]
    ms = mask.flat_list()
    rowlen = _prod(a.shape_cap[1:])
    araw = a.raw()
    if not isinstance(val, SArr):
        for i, m in enumerate(ms):
            for o in araw.offs[i * rowlen:(i + 1) * rowlen]:
                a.buf[o] = ite(m, _cast_in(val, a.dtype), a.buf[o])
        return
    vraw = val.raw()
    nv = vraw.shape_cap[0]
    vfl = vraw.flat_list()
    if _prod(vraw.shape_cap[1:]) != rowlen:
        raise ValueError(f"shape mismatch: value array of shape {val.shape_cap} could not be broadcast to indexing result")
    cnt = 0
    for i, m in enumerate(ms):
        for j, o in enumerate(araw.offs[i * rowlen:(i + 1) * rowlen]):
            pick = vfl[(nv - 1) * rowlen + j] if nv else a.buf[o]
            for k in range(nv - 2, -1, -1):
                pick = ite(cnt == k, vfl[k * rowlen + j], pick)
            a.buf[o] = ite(m, _cast_in(pick, a.dtype), a.buf[o])
        cnt = cnt + ite(m, 1, 0)


def _compress(a, mask):
    """a[mask] along axis 0 -> variable-length array (prefix-count compaction)."""
    cap = a.shape_cap[0]
    if isinstance(mask, (list, _np.ndarray)):
        mask = array(mask)
    if mask.shape_cap != (cap,):
        raise IndexError(f"boolean index did not match indexed array: {mask.shape_cap} vs {a.shape_cap}")
    ms = [and_(m, _valid(a, i), _valid(mask, i)) for i, m in enumerate(mask.flat_list())]
    if _bi.all(isinstance(m, bool) for m in ms):
        base = SArr(a.buf, a.offs, a.shape_cap, None, a.dtype)
        rows = [base[i] for i in range(cap) if ms[i]]
        if a.ndim == 1:
            return SArr.new(rows, (len(rows),), None, a.dtype)
        return SArr.new([v for r in rows for v in r.flat_list()], (len(rows),) + a.shape_cap[1:], None, a.dtype)
    ranks = []
    cnt = 0
    for m in ms:
        ranks.append(cnt)
        cnt = cnt + ite(m, 1, 0)
    base = SArr(a.buf, a.offs, a.shape_cap, None, a.dtype)
    rowlen = _prod(a.shape_cap[1:])
    fl = base.flat_list()
    zero = False if a.dtype.kind == "b" else (0.0 if a.dtype.kind == "f" else 0)
    out = []
    for k in range(cap):
        for j in range(rowlen):
            v = zero
            for i in range(cap - 1, -1, -1):
                if i < k:
                    break   # element i can have rank k only if i >= k
                v = ite(and_(ms[i], ranks[i] == k), fl[i * rowlen + j], v)
            out.append(v)
    return SArr.new(out, a.shape_cap, cnt, a.dtype)


def moveaxis_last_first(a):
    ax = [a.ndim - 1] + list(range(a.ndim - 1))
    return a.transpose(*ax)


def moveaxis_first_last(a, k=1):
    # move the first k axes to the end
    ax = list(range(k, a.ndim)) + list(range(k))
    return a.transpose(*ax)


# ------------------------------------------------------------------ creation
def _unwrap_arraylike(x):
    """xarray-like wrappers (symxr.DataArray) expose their array as .values / __sarr__"""
    if hasattr(x, "__sarr__"):
        return x.__sarr__()
    if not isinstance(x, (SArr, Sym, _np.ndarray, list, tuple, str, bytes, int, float, bool)) and isinstance(getattr(x, "values", None), SArr):
        return x.values
    if isinstance(x, (list, tuple)):
        return type(x)(_unwrap_arraylike(e) for e in x)
    return x


def array(x, dtype=None, copy=True, ndmin=0):
    dt = as_dtype(dtype, none_ok=True)
    x = _unwrap_arraylike(x)
    if isinstance(x, SArr):
        r = x.copy()
        return r.astype(dt) if dt is not None and dt != r.dtype else r
    if isinstance(x, _np.ndarray):
        if x.dtype.kind == "O":
            vals = list(x.ravel())
            r = SArr.new(vals, x.shape, None, dt)
        else:
            vals = [v.item() for v in x.ravel()]
            r = SArr.new(vals, x.shape, None, as_dtype(x.dtype))
        return r.astype(dt) if dt is not None and dt != r.dtype else r
    if hasattr(x, "__sarr__"):
        return array(x.__sarr__(), dtype)
    if isinstance(x, (list, tuple, range)):
        x = list(x)
        if x and _bi.any(isinstance(v, (list, tuple, SArr, _np.ndarray)) for v in x):
            rows = [array(r) for r in x]
            shp = rows[0].shape_cap
            for r in rows:
                if r.shape_cap != shp:
                    raise ValueError("setting an array element with a sequence. The requested array has an inhomogeneous shape")
            vals = [v for r in rows for v in r.flat_list()]
            r = SArr.new(vals, (len(rows),) + shp, None, dt or _infer_dtype(vals))
        else:
            vals = [v.item() if isinstance(v, _np.generic) else v for v in x]
            r = SArr.new(vals, (len(vals),), None, dt or _infer_dtype(vals))
        if dt is not None:
            r = r.astype(dt)
        return r
    # scalar -> 0-d
    if isinstance(x, _np.generic):
        x = x.item()
    return SArr.new([x], (), None, dt or _scalar_dtype(x))


def asarray(x, dtype=None):
    if hasattr(x, "__sarr__"):
        x = x.__sarr__()
    dt = as_dtype(dtype, none_ok=True)
    if isinstance(x, SArr) and (dt is None or dt == x.dtype):
        return x
    return array(x, dtype)


asanyarray = asarray
ascontiguousarray = asarray


def _shape(shape):
    if isinstance(shape, (int, Sym)):
        return (shape,)
    return tuple(shape)


CAP = [8]    # capacity used when an array is allocated with a symbolic leading length


def full(shape, v, dtype=None):
    shape = _shape(shape)
    dt = as_dtype(dtype, none_ok=True) or _scalar_dtype(v)
    v = _cast_scalar(v, dt) if dt.kind in "fib" else v
    if shape and isinstance(shape[0], Sym):
        cap = CAP[0]
        eng().add(shape[0] <= cap, shape[0] >= 0)
        return SArr.new([v] * (cap * _prod(shape[1:])), (cap,) + tuple(shape[1:]), shape[0], dt)
    return SArr.new([v] * _prod(shape), shape, None, dt)


def ones(shape, dtype=None): return full(shape, 1, dtype or float64)
def zeros(shape, dtype=None): return full(shape, 0, dtype or float64)
def empty(shape, dtype=None): return full(shape, 0, dtype or float64)
def zeros_like(a, dtype=None): return full(a.shape_cap, 0, dtype or a.dtype)
def ones_like(a, dtype=None): return full(a.shape_cap, 1, dtype or a.dtype)
def full_like(a, v, dtype=None): return full(a.shape_cap, v, dtype or a.dtype)
def empty_like(a, dtype=None): return full(a.shape_cap, 0, dtype or a.dtype)


def arange(a, b=None, step=1, dtype=None):
    if b is None:
        a, b = 0, a
    if isinstance(b, Sym) or isinstance(a, Sym):
        if isinstance(a, Sym) or step != 1:
            raise Unsupported("arange with symbolic start")
        cap = CAP[0]
        eng().add(b <= a + cap, b >= a)
        return SArr.new([a + i for i in range(cap)], (cap,), b - a, int64)
    r = range(a, b, step)
    return SArr.new(list(r), (len(r),), None, int64)


def copy(a):
    if not isinstance(a, SArr):
        return a
    r = a.copy()
    r.forder = a.forder      # np.copy defaults to order='K' (ndarray.copy() to 'C')
    return r


def expand_dims(a, axis):
    a = asarray(a)
    a._full("expand_dims")
    if axis < 0:
        axis += a.ndim + 1
    shp = a.shape_cap[:axis] + (1,) + a.shape_cap[axis:]
    return SArr(a.buf, a.offs, shp, None, a.dtype)


def squeeze(a, axis=None):
    return asarray(a).squeeze(axis)


def reshape(a, shape):
    return asarray(a).reshape(shape)


def ravel(a):
    return asarray(a).ravel()


def transpose(a, axes=None):
    return asarray(a).transpose(*(axes or ()))


def swapaxes(a, x, y):
    return asarray(a).swapaxes(x, y)


def stack(arrs, axis=0):
    arrs = [asarray(a) for a in arrs]
    shp = arrs[0].shape_cap
    r = SArr.new([v for a in arrs for v in a.flat_list()], (len(arrs),) + shp, None, _promote_all(arrs))
    if axis in (0,):
        return r
    if axis < 0:
        axis += len(shp) + 1
    ax = list(range(1, len(shp) + 1))
    ax.insert(axis, 0)
    return r.transpose(*ax).copy()


def _promote_all(arrs):
    dt = arrs[0].dtype
    for a in arrs[1:]:
        dt = _promote(dt, a.dtype)
    return dt


def concatenate(arrs, axis=0):
    arrs = [asarray(a) for a in arrs]
    if axis != 0:
        if axis in (1, -1) and _bi.all(a.ndim == 2 for a in arrs):
            return concatenate([a.T for a in arrs], 0).T.copy()
        if axis == -1 and _bi.all(a.ndim == 1 for a in arrs):
            return concatenate(arrs, 0)
        raise Unsupported("concatenate axis")
    if _bi.any(a.n is not None for a in arrs):
        return _concat_varlen(arrs)
    rest = arrs[0].shape_cap[1:]
    vals = [v for a in arrs for v in a.flat_list()]
    return SArr.new(vals, (_bi.sum(a.shape_cap[0] for a in arrs),) + rest, None, _promote_all(arrs))


def _concat_varlen(arrs):
    # merged concatenation of variable-length 1-d arrays
    if _bi.any(a.ndim != 1 for a in arrs):
        raise Unsupported("concatenate of variable-length n-d arrays")
    cap = _bi.sum(a.shape_cap[0] for a in arrs)
    dt = _promote_all(arrs)
    zero = 0.0 if dt.kind == "f" else 0
    out = [zero] * cap
    start = 0
    for a in arrs:
        ln = a.n if a.n is not None else a.shape_cap[0]
        fl = a.flat_list()
        for k in range(cap):
            # out[k] = a[k-start] if start <= k < start+ln
            v = out[k]
            for i in range(len(fl)):
                v = ite(and_(start + i == k, i < ln), fl[i], v)
            out[k] = v
        start = start + ln
    return SArr.new(out, (cap,), start, dt)


def append(a, v, axis=None):
    a = asarray(a)
    v = asarray(v)
    if axis is None:
        return concatenate([a.ravel() if a.n is None else a, v.ravel() if v.n is None else v])
    return concatenate([a, v], axis)


def vstack(arrs):
    arrs = [asarray(a) for a in arrs]
    arrs = [a.reshape(1, -1) if a.ndim == 1 else a for a in arrs]
    return concatenate(arrs, 0)


def hstack(arrs):
    arrs = [asarray(a) for a in arrs]
    if arrs[0].ndim == 1:
        return concatenate(arrs, 0)
    return concatenate(arrs, 1)


def column_stack(arrs):
    arrs = [asarray(a) for a in arrs]
    cols = [a.reshape(-1, 1) if a.ndim == 1 else a for a in arrs]
    return concatenate(cols, 1)


def roll(a, shift, axis=None):
    a = asarray(a)
    a._full("roll")
    if axis is None:
        fl = a.flat_list()
        k = shift % len(fl) if fl else 0
        return SArr.new(fl[-k:] + fl[:-k] if k else fl, a.shape_cap, None, a.dtype)
    if axis < 0:
        axis += a.ndim
    m = moveaxis_to_front(a, axis)
    d = m.shape_cap[0]
    rows = [m[(i - shift) % d] for i in range(d)]
    r = _stack_rows(rows, None, a.dtype)
    return moveaxis_from_front(r, axis).copy()


def moveaxis_to_front(a, axis):
    ax = [axis] + [i for i in range(a.ndim) if i != axis]
    return a.transpose(*ax)


def moveaxis_from_front(a, axis):
    ax = list(range(1, a.ndim))
    ax.insert(axis, 0)
    return a.transpose(*ax)


def flip(a, axis=None):
    """numpy.flip returns a *view*: the result shares the buffer (writes through it reach the original)"""
    a = asarray(a)
    if a.ndim == 1:
        if a.n is not None:
            raise Unsupported("flip varlen")
        return SArr(a.buf, list(reversed(a.offs)), a.shape_cap, None, a.dtype)
    if a.ndim == 2 and axis in (1, -1):
        r, c = a.shape_cap
        return SArr(a.buf, [a.offs[i * c + (c - 1 - j)] for i in range(r) for j in range(c)], a.shape_cap, a.n, a.dtype)
    if a.ndim == 2 and axis == 0 and a.n is None:
        r, c = a.shape_cap
        return SArr(a.buf, [a.offs[(r - 1 - i) * c + j] for i in range(r) for j in range(c)], a.shape_cap, None, a.dtype)
    raise Unsupported("flip nd")


def repeat(a, k, axis=None):
    a = asarray(a)
    if axis is None:
        return SArr.new([v for v in a.flat_list() for _ in range(k)], (len(a.offs) * k,), None, a.dtype)
    raise Unsupported("repeat axis")


def pad(a, width, constant_values=0, mode="constant"):
    if isinstance(a, (list, tuple)):
        a = array(a)          # NB: np.array([]) is float64, as in numpy
    if a.ndim == 2 and mode == "constant" and a.n is None:
        (r0, r1), (c0, c1) = [tuple(int(x) for x in w) for w in width]
        cv = _cast_scalar(constant_values, a.dtype) if not isinstance(constant_values, Sym) else constant_values
        R, Cc = a.shape_cap
        fl = a.flat_list()
        W = c0 + Cc + c1
        vals = [cv] * (r0 * W)
        for i in range(R):
            vals += [cv] * c0 + fl[i * Cc:(i + 1) * Cc] + [cv] * c1
        vals += [cv] * (r1 * W)
        out = SArr.new(vals, (r0 + R + r1, W), None, a.dtype)
        out.forder = a.forder         # np.pad allocates its result in the input's memory order
        return out
    if a.ndim != 1:
        raise Unsupported("pad nd")
    lo, hi = width if isinstance(width, tuple) else (width, width)
    if isinstance(lo, tuple):
        lo, hi = lo
    if isinstance(hi, Sym) or isinstance(lo, Sym):
        hi = int(hi)
        lo = int(lo)
    if lo < 0 or hi < 0:
        raise ValueError("index can't contain negative values")
    cv = _cast_scalar(constant_values, a.dtype) if not isinstance(constant_values, Sym) else constant_values
    return SArr.new([cv] * lo + a.flat_list() + [cv] * hi, (lo + a.shape_cap[0] + hi,), None, a.dtype)


# ------------------------------------------------------------------ logical / elementwise functions
def _unary(a, f, dt=None):
    if hasattr(a, "__sarr__"):
        a = a.__sarr__()
    if isinstance(a, (list, tuple, _np.ndarray)):
        a = array(a)
    if isinstance(a, SArr):
        return SArr.new([f(v) for v in a.flat_list()], a.shape_cap, a.n, dt or a.dtype)
    return f(a)


def _binary(a, b, f, dt=None):
    if hasattr(a, "__sarr__"):
        a = a.__sarr__()
    if hasattr(b, "__sarr__"):
        b = b.__sarr__()
    if isinstance(a, (list, tuple, _np.ndarray)):
        a = array(a)
    if isinstance(b, (list, tuple, _np.ndarray)):
        b = array(b)
    if isinstance(a, SArr):
        return a._ew(b, f, dt)
    if isinstance(b, SArr):
        return b._ew(a, lambda x, y: f(y, x), dt)
    return f(a, b)


def logical_or(a, b, out=None):
    if out is not None:
        raise Unsupported("logical_or(out=...)")
    return _binary(a, b, lambda x, y: or_(_tb(x), _tb(y)), bool_)


def logical_and(a, b, out=None):
    if out is not None:
        raise Unsupported("logical_and(out=...)")
    return _binary(a, b, lambda x, y: and_(_tb(x), _tb(y)), bool_)


def logical_not(a):
    return _unary(a, lambda v: not_(_tb(v)), bool_)


def _tb(v):
    if isinstance(v, (bool, SymBool)):
        return v
    if isinstance(v, Sym):
        return v != 0
    return bool(v)


def isinf(a):
    def f(v):
        if isinstance(v, Sym):
            return False          # symbolic reals are finite (stated assumption)
        return isinstance(v, float) and v in (float("inf"), float("-inf"))
    return _unary(a, f, bool_)


def isfinite(a):
    return logical_not(logical_or(isnan(a), isinf(a)))


def isnan(a):
    def f(v):
        if isinstance(v, Sym):
            return False          # symbolic reals/ints are never NaN (stated assumption)
        return isinstance(v, float) and v != v
    return _unary(a, f, bool_)


def absolute(a): return _unary(a, lambda v: _bi.abs(_num(v)))
abs = absolute   # noqa: A001


def sign(a):
    def f(v):
        if isinstance(v, Sym):
            return ite(v > 0, 1, ite(v < 0, -1, 0)) if isinstance(v, SymInt) else ite(v > 0, 1.0, ite(v < 0, -1.0, 0.0))
        return (v > 0) - (v < 0) if isinstance(v, int) else math.copysign(1.0, v) if v != 0 else 0.0
    return _unary(a, f)


def mod(a, m): return _binary(a, m, lambda x, y: x % y)
def add(a, b): return _binary(a, b, _add)
def subtract(a, b): return _binary(a, b, _sub)
def multiply(a, b): return _binary(a, b, _mul)
def divide(a, b): return _binary(a, b, _div, float64)
def power(a, b): return _binary(a, b, _pow)
def square(a): return _unary(a, lambda v: v * v)
def equal(a, b): return _binary(a, b, _eq, bool_)
def not_equal(a, b): return _binary(a, b, lambda x, y: not_(_eq(x, y)), bool_)
def maximum(a, b): return _binary(a, b, sc.smax)
def minimum(a, b): return _binary(a, b, sc.smin)


def clip(a, lo, hi):
    return _unary(a, lambda v: sc.smin(sc.smax(v, lo), hi))


def isclose(a, b, rtol=1e-05, atol=1e-08):
    def f(x, y):
        if not isinstance(x, Sym) and not isinstance(y, Sym):
            return bool(_np.isclose(x, y, rtol=rtol, atol=atol))
        x, y = _num(x), _num(y)
        if isinstance(x, (int, SymInt)) and isinstance(y, (int, SymInt)) and rtol == 1e-05 and atol == 1e-08 and False:
            return x == y
        return _bi.abs(x - y) <= (atol + rtol * _bi.abs(y))
    return _binary(a, b, f, bool_)


def allclose(a, b, rtol=1e-05, atol=1e-08):
    r = isclose(a, b, rtol, atol)
    return all(r) if isinstance(r, SArr) else r


def array_equal(a, b):
    a, b = asarray(a), asarray(b)
    if a.shape_cap != b.shape_cap:
        return False
    return all(a == b)


def where(c, x=None, y=None):
    if x is None:
        return nonzero(c)
    c = asarray(c) if isinstance(c, (list, tuple, _np.ndarray)) else c
    if not isinstance(c, SArr):
        if isinstance(c, Sym):
            return _binary(x, y, lambda p, q: ite(c, p, q))
        return x if c else y
    shp = c.shape_cap
    for o in (x, y):
        if isinstance(o, SArr):
            shp = _bshape(shp, o.shape_cap)
    cc, xx, yy = _bcast(c, shp), _bcast(x, shp), _bcast(y, shp)
    vals = [ite(_tb(p), q, r) for p, q, r in zip(cc, xx, yy)]
    return SArr.new(vals, shp, c.n, None)


def nonzero(a):
    a = asarray(a)
    if a.ndim != 1:
        if a.ndim == 2:
            r, c = a.shape_cap
            ri = SArr.new([i for i in range(r) for _ in range(c)], (r * c,), None, int64)
            ci = SArr.new([j for _ in range(r) for j in range(c)], (r * c,), None, int64)
            m = SArr(a.buf, a.offs, (r * c,), None, a.dtype)
            m = m if m.dtype.kind == "b" else (m != 0)
            if a.n is not None:      # rows beyond the valid length do not count
                m = SArr.new([and_(v, (k // c) < a.n) for k, v in enumerate(m.flat_list())], (r * c,), None, bool_)
            return (_compress(ri, m), _compress(ci, m))
        raise Unsupported("nonzero nd")
    mask = a if a.dtype.kind == "b" else (a != 0)
    idx = SArr.new(list(range(a.shape_cap[0])), (a.shape_cap[0],), a.n, int64)
    return (_compress(idx, mask),)


def argwhere(a):
    a = asarray(a)
    if a.ndim == 1:
        r = nonzero(a)[0]
        return SArr(r.buf, r.offs, (r.shape_cap[0], 1), r.n, r.dtype)
    r = nonzero(a)
    return column_stack_varlen(r)


def column_stack_varlen(cols):
    n = cols[0].n
    cap = cols[0].shape_cap[0]
    vals = []
    fls = [c.flat_list() for c in cols]
    for i in range(cap):
        for f in fls:
            vals.append(f[i])
    return SArr.new(vals, (cap, len(cols)), n, cols[0].dtype)


def count_nonzero(a, axis=None):
    a = asarray(a)
    if axis is not None:
        ind = _unary(a, lambda v: ite(_tb(v), 1, 0), int64)
        return sum(ind, axis)
    c = 0
    for i, v in enumerate(a.flat_list()):
        ok = _tb(v) if a.ndim != 1 else and_(_tb(v), _valid(a, i))
        c = c + ite(ok, 1, 0)
    return c


# ------------------------------------------------------------------ reductions
def _reduce(a, axis, f, init=None, dt=None, valid_neutral=None):
    a = asarray(a)
    if axis is None:
        vals = a.flat_list()
        if a.n is not None:
            rowlen = _prod(a.shape_cap[1:])
            if valid_neutral is None:
                # min/max: fold over the valid prefix only
                if _tb(a.n == 0) if not isinstance(a.n, int) else a.n == 0:
                    raise ValueError("zero-size array to reduction operation which has no identity")
                r = vals[0]
                for i, v in enumerate(vals[1:], 1):
                    r = ite(_valid(a, i // rowlen), f(r, v), r)
                return r
            vals = [ite(_valid(a, i // rowlen), v, valid_neutral) for i, v in enumerate(vals)]
        if not vals:
            if init is None:
                raise ValueError("zero-size array to reduction operation which has no identity")
            return init
        r = vals[0] if init is None else f(init, vals[0])
        for v in vals[1:]:
            r = f(r, v)
        return r
    if isinstance(axis, (tuple, list)):
        r = a
        for ax in sorted([x if x >= 0 else x + a.ndim for x in axis], reverse=True):
            r = _reduce(r, ax, f, init, dt, valid_neutral)
        return r
    if axis < 0:
        axis += a.ndim
    if a.n is not None and axis == 0:
        raise Unsupported("axis-0 reduction over variable-length array")
    m = moveaxis_to_front(SArr(a.buf, a.offs, a.shape_cap, None, a.dtype), axis)
    d = m.shape_cap[0]
    rest = m.shape_cap[1:]
    fl = m.flat_list()
    rl = _prod(rest)
    out = []
    for j in range(rl):
        col = [fl[i * rl + j] for i in range(d)]
        if not col:
            out.append(init)
            continue
        r = col[0] if init is None else f(init, col[0])
        for v in col[1:]:
            r = f(r, v)
        out.append(r)
    return SArr.new(out, rest, a.n if axis != 0 else None, dt)


def sum(a, axis=None, dtype=None, keepdims=False):  # noqa: A001
    a = asarray(a)
    r = _reduce(a, axis, _add, init=(0.0 if a.dtype.kind == "f" else 0), valid_neutral=(0.0 if a.dtype.kind == "f" else 0))
    if keepdims and isinstance(r, SArr) and axis is not None and not isinstance(axis, (tuple, list)):
        ax = axis if axis >= 0 else axis + a.ndim
        r = SArr(r.buf, r.offs, r.shape_cap[:ax] + (1,) + r.shape_cap[ax:], r.n, r.dtype)
    return r


def prod(a, axis=None):
    return _reduce(a, axis, _mul, init=1, valid_neutral=1)


def min(a, axis=None):  # noqa: A001
    return _reduce(a, axis, sc.smin)


def max(a, axis=None):  # noqa: A001
    return _reduce(a, axis, sc.smax)


amin, amax = min, max


def mean(a, axis=None, dtype=None, keepdims=False):
    if keepdims:
        raise Unsupported("mean keepdims")
    a = asarray(a)
    s = sum(a, axis)
    cnt = len(a.offs) if axis is None else a.shape_cap[axis]
    if a.n is not None:
        ax = None if axis is None else (axis if axis >= 0 else axis + a.ndim)
        if ax is None or a.vlast or ax == 0:
            raise Unsupported("mean varlen")
        # reduction over a fixed-size trailing axis of an array whose first axis is variable: row-wise
    return s / cnt if isinstance(s, SArr) else _div(s, cnt)


def any(a, axis=None):  # noqa: A001
    if not isinstance(a, (SArr, list, tuple, _np.ndarray)):
        return _tb(a)
    return _reduce(asarray(a), axis, lambda x, y: or_(_tb(x), _tb(y)), init=False, dt=bool_, valid_neutral=False)


def all(a, axis=None):  # noqa: A001
    if not isinstance(a, (SArr, list, tuple, _np.ndarray)):
        return _tb(a)
    return _reduce(asarray(a), axis, lambda x, y: and_(_tb(x), _tb(y)), init=True, dt=bool_, valid_neutral=True)


def _arg_ext(a, axis, better):
    a = asarray(a)
    if axis is None:
        if a.n is not None:
            raise Unsupported("argmax varlen")
        rows = [a.flat_list()]
        shape = ()
    else:
        if axis < 0:
            axis += a.ndim
        if a.ndim == 2 and axis == 1:
            rows = [a[i].flat_list() for i in range(a.shape_cap[0])]
            shape = (a.shape_cap[0],)
        elif a.ndim == 1 and axis == 0:
            rows = [a.flat_list()]
            shape = ()
        else:
            raise Unsupported("argmax axis")
    out = []
    for row in rows:
        if a.dtype.kind == "b" and better == "max":
            v = 0
            for j in range(len(row) - 1, 0, -1):
                v = ite(row[j], j, v)
            v = ite(row[0], 0, v)
        else:
            # first index attaining the extremum
            best, v = row[0], 0
            for j in range(1, len(row)):
                c = (row[j] > best) if better == "max" else (row[j] < best)
                v = ite(c, j, v)
                best = ite(c, row[j], best)
        out.append(v)
    if shape == ():
        return out[0]
    return SArr.new(out, shape, a.n, int64)


def argmax(a, axis=None): return _arg_ext(a, axis, "max")
def argmin(a, axis=None): return _arg_ext(a, axis, "min")


def cumsum(a, axis=None):
    a = asarray(a)
    if a.ndim != 1:
        raise Unsupported("cumsum nd")
    out, s = [], 0
    for v in a.flat_list():
        s = _add(s, v)
        out.append(s)
    return SArr.new(out, a.shape_cap, a.n, a.dtype)


def cumprod(a, axis=None):
    a = asarray(a)
    dt = int64 if a.dtype in (bool_, bool) else a.dtype
    conv = (lambda v: ite(_tb(v), 1, 0)) if a.dtype in (bool_, bool) else (lambda v: v)
    if a.ndim == 1:
        out, s = [], 1
        for v in a.flat_list():
            s = _mul(s, conv(v))
            out.append(s)
        return SArr.new(out, a.shape_cap, a.n, dt)
    if a.ndim == 2 and axis in (1, -1):
        r, c = a.shape_cap
        fl = a.flat_list()
        out = []
        for i in range(r):
            s = 1
            for j in range(c):
                s = _mul(s, conv(fl[i * c + j]))
                out.append(s)
        return SArr.new(out, a.shape_cap, a.n, dt)
    raise Unsupported("cumprod nd")


def diff(a, axis=-1):
    a = asarray(a)
    if a.ndim == 1:
        fl = a.flat_list()
        return SArr.new([_sub(fl[i + 1], fl[i]) for i in range(len(fl) - 1)], (len(fl) - 1,), None, a.dtype)
    if a.ndim == 2 and axis in (1, -1):
        rows = [diff(a[i]) for i in range(a.shape_cap[0])]
        return _stack_rows(rows, a.n, a.dtype)
    raise Unsupported("diff")


def put(a, idx, vals):
    a = a.ravel() if a.ndim != 1 else a
    idx = asarray(idx).flat_list()
    vals = _bcast(vals, (len(idx),))
    for k, v in zip(idx, vals):
        a[k] = v


def unravel_index(i, shape):
    if isinstance(i, (list, tuple)):
        i = array(i)
    if isinstance(i, SArr):
        if len(shape) != 2 or i.ndim != 1:
            raise Unsupported("unravel_index nd")
        cols = int(shape[1])
        fl = [_num(v) for v in i.flat_list()]
        q = [(v // cols) if not isinstance(v, Sym) else mk(sc.z(v) / cols) for v in fl]        # z3 integer division (indices are non-negative)
        r = [(v % cols) if not isinstance(v, Sym) else mk(sc.z(v) % cols) for v in fl]
        return (SArr.new(q, i.shape_cap, i.n, int64), SArr.new(r, i.shape_cap, i.n, int64))
    if isinstance(i, Sym):
        raise Unsupported("unravel_index on a symbolic scalar")
    return tuple(int(x) for x in _np.unravel_index(i, shape))


def einsum(spec, a, b):
    if spec.replace(" ", "") != "i,...i":
        raise Unsupported(f"einsum {spec}")
    a, b = asarray(a), asarray(b)
    L = a.shape_cap[0]
    if b.shape_cap[-1] != L:
        raise ValueError(f"operands could not be broadcast together with remapped shapes {a.shape_cap} {b.shape_cap}")
    lead = b.shape_cap[:-1]
    fl = b.flat_list()
    av = a.flat_list()
    out = []
    for r in range(_prod(lead)):
        s = 0.0
        for i in range(L):
            s = _add(s, _mul(av[i], fl[r * L + i]))
        out.append(s)
    if lead == ():
        return out[0]
    return SArr.new(out, lead, None, float64)


def dot(a, b):
    a, b = asarray(a), asarray(b)
    if a.ndim == 1 and b.ndim == 1:
        s = 0
        for x, y in zip(a.flat_list(), b.flat_list()):
            s = _add(s, _mul(x, y))
        return s
    raise Unsupported("dot nd")


def cross(a, b):
    a, b = asarray(a).flat_list(), asarray(b).flat_list()
    return SArr.new([a[1] * b[2] - a[2] * b[1], a[2] * b[0] - a[0] * b[2], a[0] * b[1] - a[1] * b[0]], (3,), None, float64)


# ------------------------------------------------------------------ sort / unique / set ops
def _row_lt(r1, r2):
    res = False
    for a, b in reversed(list(zip(r1, r2))):
        res = or_(a < b, and_(_eq(a, b), res))
    return res


def _row_eq(r1, r2):
    return and_(*[_eq(a, b) for a, b in zip(r1, r2)])


def sort(a, axis=-1):
    a = asarray(a)
    if a.ndim == 2 and axis in (1, -1):
        rows = [_sort1(a[i].flat_list()) for i in range(a.shape_cap[0])]
        return SArr.new([v for r in rows for v in r], a.shape_cap, a.n, a.dtype)
    if a.ndim == 1:
        if a.n is not None:
            raise Unsupported("sort varlen")
        return SArr.new(_sort1(a.flat_list()), a.shape_cap, None, a.dtype)
    raise Unsupported("sort axis")


def _sort1(vals):
    """sorting network by rank (merged); exact for concrete values"""
    n = len(vals)
    if not _bi.any(isinstance(v, Sym) for v in vals):
        return sorted(vals)
    if n == 2:
        a, b = vals
        c = a <= b
        return [ite(c, a, b), ite(c, b, a)]
    ranks = _ranks(vals)
    out = []
    for k in range(n):
        v = vals[-1]
        for i in range(n - 2, -1, -1):
            v = ite(ranks[i] == k, vals[i], v)
        out.append(v)
    return out


def _ranks(vals):
    """stable rank of each element"""
    n = len(vals)
    ranks = []
    for i in range(n):
        r = 0
        for j in range(n):
            if j == i:
                continue
            before = (vals[j] <= vals[i]) if j < i else (vals[j] < vals[i])
            r = r + ite(before, 1, 0)
        ranks.append(r)
    return ranks


def argsort(a, axis=-1, kind=None):
    a = asarray(a)
    if a.ndim != 1 or a.n is not None:
        raise Unsupported("argsort nd/varlen")
    vals = a.flat_list()
    n = len(vals)
    if not _bi.any(isinstance(v, Sym) for v in vals):
        return SArr.new(sorted(range(n), key=lambda i: vals[i]), (n,), None, int64)
    ranks = _ranks(vals)
    out = []
    for k in range(n):
        v = n - 1
        for i in range(n - 2, -1, -1):
            v = ite(ranks[i] == k, i, v)
        out.append(v)
    return SArr.new(out, (n,), None, int64)


UNIQUE_MODE = ["relational"]     # "relational" (contract) or "rank" (functional), DESIGN 1.10


def unique(a, return_index=False, return_inverse=False, return_counts=False, axis=None):
    a = asarray(a)
    if a.n is not None and a.ndim > 1 and axis is None and _bi.all(d == 1 for d in a.shape_cap[1:]):
        a = a.ravel()
    if a.n is not None and a.ndim == 1:
        return _unique_varlen(a, return_index, return_inverse, return_counts)
    a._full("unique")
    if axis is None:
        rows = [[v] for v in a.flat_list()]
        w, twod = 1, False
    elif axis == 0 and a.ndim == 2:
        w = a.shape_cap[1]
        f = a.flat_list()
        rows = [f[i * w:(i + 1) * w] for i in range(a.shape_cap[0])]
        twod = True
    elif axis == 0 and a.ndim == 1:
        rows = [[v] for v in a.flat_list()]
        w, twod = 1, False
    else:
        raise Unsupported("unique axis")
    N = len(rows)
    if not _bi.any(isinstance(v, Sym) for r in rows for v in r):
        return _unique_concrete(rows, N, w, twod, a.dtype, return_index, return_inverse, return_counts)
    if UNIQUE_MODE[0] == "relational":
        return _unique_rel(rows, N, w, twod, a.dtype, return_inverse, return_counts, return_index)
    return _unique_rank(rows, N, w, twod, a.dtype, return_index, return_inverse, return_counts)


def _unique_concrete(rows, N, w, twod, dt, return_index, return_inverse, return_counts):
    keys = sorted(set(tuple(r) for r in rows))
    pos = {k: i for i, k in enumerate(keys)}
    U = SArr.new([v for k in keys for v in k], (len(keys), w) if twod else (len(keys),), None, dt)
    res = [U]
    if return_index:
        first = {}
        for i, r in enumerate(rows):
            first.setdefault(tuple(r), i)
        res.append(SArr.new([first[k] for k in keys], (len(keys),), None, int64))
    if return_inverse:
        res.append(SArr.new([pos[tuple(r)] for r in rows], (N,), None, int64))
    if return_counts:
        cnt = [0] * len(keys)
        for r in rows:
            cnt[pos[tuple(r)]] += 1
        res.append(SArr.new(cnt, (len(keys),), None, int64))
    return tuple(res) if len(res) > 1 else U


def _unique_rank(rows, N, w, twod, dt, return_index, return_inverse, return_counts):
    first = []
    for i in range(N):
        c = True
        for j in range(i):
            c = and_(c, not_(_row_eq(rows[j], rows[i])))
        first.append(c)
    rank = []
    for i in range(N):
        r = 0
        for j in range(N):
            if j != i:
                r = r + ite(and_(first[j], _row_lt(rows[j], rows[i])), 1, 0)
        rank.append(r)
    K = 0
    for c in first:
        K = K + ite(c, 1, 0)
    out = []
    zero = 0.0 if dt.kind == "f" else 0
    for k in range(N):
        for col in range(w):
            v = zero
            for i in range(N - 1, -1, -1):
                v = ite(and_(first[i], rank[i] == k), rows[i][col], v)
            out.append(v)
    U = SArr.new(out, (N, w) if twod else (N,), K, dt)
    res = [U]
    if return_index:
        idx = []
        for k in range(N):
            v = 0
            for i in range(N - 1, -1, -1):
                v = ite(and_(first[i], rank[i] == k), i, v)
            idx.append(v)
        res.append(SArr.new(idx, (N,), K, int64))
    if return_inverse:
        res.append(SArr.new(rank, (N,), None, int64))
    if return_counts:
        cnts = []
        for k in range(N):
            c = 0
            for i in range(N):
                c = c + ite(rank[i] == k, 1, 0)
            cnts.append(c)
        res.append(SArr.new(cnts, (N,), K, int64))
    return tuple(res) if len(res) > 1 else U


def _unique_rel(rows, N, w, twod, dt, return_inverse, return_counts, return_index=False):
    """numpy's documented contract as fresh variables: K distinct sorted rows U[0..K), inverse[i]
    with U[inverse[i]] == row_i, every U[k] hit.  Total, hence never vacuous (checked by the
    reachability twin of the calling obligation)."""
    e = eng()
    S = e.solver
    real = dt.kind == "f"
    K = e.fresh("uK", "Int")
    S.add(K >= 1, K <= N)
    U = [[e.fresh(f"uU_{k}_{c}", "Real" if real else "Int") for c in range(w)] for k in range(N)]
    inv = [e.fresh(f"uI_{i}", "Int") for i in range(N)]

    def lt(r1, r2):
        res = z3.BoolVal(False)
        for x, y in reversed(list(zip(r1, r2))):
            res = z3.Or(x < y, z3.And(x == y, res))
        return res
    for k in range(N - 1):
        S.add(z3.Implies(k + 1 < K, lt(U[k], U[k + 1])))
    for i in range(N):
        S.add(inv[i] >= 0, inv[i] < K)
        S.add(z3.Or(*[z3.And(inv[i] == k, *[U[k][c] == sc.lift(rows[i][c]) for c in range(w)]) for k in range(N)]))
    for k in range(N):
        S.add(z3.Implies(k < K, z3.Or(*[inv[i] == k for i in range(N)])))
    Uarr = SArr.new([mk(x) for r in U for x in r], (N, w) if twod else (N,), mk(K), dt)
    res = [Uarr]
    if return_index:
        # index of the first occurrence of each unique row
        ind = [e.fresh(f"uX_{k}", "Int") for k in range(N)]
        for k in range(N):
            S.add(ind[k] >= 0, ind[k] < N)
            for i in range(N):
                S.add(z3.Implies(z3.And(k < K, ind[k] == i), z3.And(inv[i] == k, *[inv[j] != k for j in range(i)])))
        res.append(SArr.new([mk(x) for x in ind], (N,), mk(K), int64))
    if return_inverse:
        res.append(SArr.new([mk(x) for x in inv], (N,), None, int64))
    if return_counts:
        cnts = []
        for k in range(N):
            c = 0
            for i in range(N):
                c = c + ite(mk(inv[i] == k), 1, 0)
            cnts.append(c)
        res.append(SArr.new(cnts, (N,), mk(K), int64))
    return tuple(res) if len(res) > 1 else Uarr


def _unique_varlen(a, return_index, return_inverse, return_counts):
    """unique of a 1-d variable-length array (functional encoding with validity)."""
    if return_index or return_inverse or return_counts:
        raise Unsupported("unique(varlen, return_*)")
    vals = a.flat_list()
    N = len(vals)
    valid = [_valid(a, i) for i in range(N)]
    first = []
    for i in range(N):
        c = valid[i]
        for j in range(i):
            c = and_(c, not_(and_(valid[j], _eq(vals[j], vals[i]))))
        first.append(c)
    rank = []
    for i in range(N):
        r = 0
        for j in range(N):
            if j != i:
                r = r + ite(and_(first[j], vals[j] < vals[i]), 1, 0)
        rank.append(r)
    K = 0
    for c in first:
        K = K + ite(c, 1, 0)
    out = []
    for k in range(N):
        v = 0
        for i in range(N - 1, -1, -1):
            v = ite(and_(first[i], rank[i] == k), vals[i], v)
        out.append(v)
    return SArr.new(out, (N,), K, a.dtype)


def isin(a, b):
    a = asarray(a)
    b = asarray(b)
    bl = b.flat_list()
    out = []
    for v in a.flat_list():
        c = False
        for j, wv in enumerate(bl):
            c = or_(c, and_(_valid(b, j) if b.ndim == 1 else True, _eq(v, wv)))
        out.append(c)
    return SArr.new(out, a.shape_cap, a.n, bool_)


def searchsorted(b, a, side="left"):
    b = asarray(b)
    scalar = not isinstance(a, (SArr, list, tuple, _np.ndarray))
    a = asarray(a)
    out = []
    for v in a.flat_list():
        c = 0
        for j, wv in enumerate(b.flat_list()):
            cond = (wv <= v) if side == "right" else (wv < v)
            c = c + ite(and_(_valid(b, j), cond), 1, 0)
        out.append(c)
    if scalar:
        return out[0]
    return SArr.new(out, a.shape_cap, a.n, int64)


def delete(a, idx, axis=None):
    a = asarray(a)
    if isinstance(idx, (int, Sym)):
        idx = [idx]
    idx = asarray(idx)
    if axis not in (None, 0) or (axis is None and a.ndim != 1):
        raise Unsupported("delete axis")
    cap = a.shape_cap[0]
    il = idx.flat_list()
    keep = []
    for i in range(cap):
        hit = False
        for j, k in enumerate(il):
            hit = or_(hit, and_(_valid(idx, j), _eq(_norm_index(k, cap) if not isinstance(k, Sym) else ite(k < 0, k + (a.n if a.n is not None else cap), k), i)))
        keep.append(not_(hit))
    return _compress(a, SArr.new(keep, (cap,), None, bool_))


def union1d(a, b):
    return unique(concatenate([asarray(a).ravel() if asarray(a).n is None else asarray(a), asarray(b).ravel() if asarray(b).n is None else asarray(b)]))


def intersect1d(a, b):
    a, b = unique(asarray(a)), unique(asarray(b))
    return _compress(a, isin(a, b))


def setdiff1d(a, b):
    a = unique(asarray(a))
    return _compress(a, logical_not(isin(a, b)))


# ------------------------------------------------------------------ real-valued functions
PI_Q = fractions.Fraction(math.pi)
_UF = {}


def uf(name, arity=1):
    if name not in _UF:
        _UF[name] = z3.Function(name, *([z3.RealSort()] * (arity + 1)))
    return _UF[name]


TRIG_RANGE = [False]   # when set, every uninterpreted trig application comes with the range of the float function it stands for
_RANGES = {"sin": (-1, 1), "cos": (-1, 1), "arcsin": (-PI_Q / 2, PI_Q / 2), "arccos": (0, PI_Q), "arctan": (-PI_Q / 2, PI_Q / 2)}
TRIG_MONO = [False]    # when set, arccos/arcsin/arctan applications come with pairwise strict monotonicity
_MONO = {"arccos": -1, "arcsin": 1, "arctan": 1}
TRIG_LOG = []     # (name, argument term, result term) of every uninterpreted application on the current path


def _real(v):
    v = _num(v)
    if isinstance(v, SymInt):
        return z3.ToReal(v.e)
    if isinstance(v, Sym):
        return v.e
    return sc.lift(float(v))


def _uf1(name, pyf):
    def f(v):
        if not isinstance(v, Sym):
            return pyf(v)
        t = uf(name)(_real(v))
        TRIG_LOG.append((name, _real(v), t))
        if TRIG_RANGE[0] and name in _RANGES:
            lo, hi = _RANGES[name]
            eng().solver.add(t >= sc.lift(lo), t <= sc.lift(hi))
        if TRIG_MONO[0] and name in _MONO:
            # strict monotonicity, instantiated against every earlier application on this path
            arg, sign = _real(v), _MONO[name]
            if name == "arccos":
                eng().solver.add(z3.Implies(arg < 1, t > 0), z3.Implies(arg > -1, t < sc.lift(PI_Q)))
            for n2, a2, t2 in TRIG_LOG[:-1]:
                if n2 == name and not a2.eq(arg):
                    eng().solver.add(z3.Implies(a2 < arg, (t2 < t) if sign > 0 else (t2 > t)), z3.Implies(a2 > arg, (t2 > t) if sign > 0 else (t2 < t)))
        return mk(t)
    def g(a, dtype=None, out=None):
        r = _unary(a, f, float64)
        return _ufunc_out(r, out)
    return g


def _ufunc_out(r, out):
    if out is None:
        return r
    if not isinstance(out, SArr) or not isinstance(r, SArr) or out.shape_cap != r.shape_cap:
        raise Unsupported("ufunc out= with mismatching operands")
    for o, v in zip(out.offs, r.flat_list()):
        out.buf[o] = _cast_in(v, out.dtype)
    return out


sin = _uf1("sin", math.sin)
cos = _uf1("cos", math.cos)
tan = _uf1("tan", math.tan)
arcsin = _uf1("arcsin", math.asin)
arccos = _uf1("arccos", math.acos)
arctan = _uf1("arctan", math.atan)
exp = _uf1("exp", math.exp)
log = _uf1("log", math.log)


def arctan2(y, x, dtype=None):
    def f(p, q):
        if not isinstance(p, Sym) and not isinstance(q, Sym):
            return math.atan2(p, q)
        t = uf("arctan2", 2)(_real(p), _real(q))
        TRIG_LOG.append(("arctan2", (_real(p), _real(q)), t))
        if TRIG_RANGE[0]:
            eng().solver.add(t >= sc.lift(-PI_Q), t <= sc.lift(PI_Q))
        return mk(t)
    return _binary(y, x, f, float64)


def deg2rad(a, out=None, dtype=None):
    return _ufunc_out(_unary(a, lambda v: mk(_real(v) * sc.lift(PI_Q) / 180) if isinstance(v, Sym) else math.radians(v), float64), out)


def rad2deg(a, out=None, dtype=None):
    return _ufunc_out(_unary(a, lambda v: mk(_real(v) * 180 / sc.lift(PI_Q)) if isinstance(v, Sym) else math.degrees(v), float64), out)


radians, degrees = deg2rad, rad2deg

SQRT_MODE = ["witness"]     # "witness": fresh r>=0 with r*r==x ; "uf": uninterpreted function


def sqrt(a):
    def f(v):
        if not isinstance(v, Sym):
            return math.sqrt(v)
        if SQRT_MODE[0] == "uf":
            t = uf("sqrt")(_real(v))
            TRIG_LOG.append(("sqrt", _real(v), t))
            return mk(t)
        e = eng()
        r = e.fresh("sqrt", "Real")
        e.solver.add(r >= 0, r * r == _real(v))
        return mk(r)
    return _unary(a, f, float64)


class _Linalg:
    LinAlgError = _np.linalg.LinAlgError

    @staticmethod
    def norm(a, ord=None, axis=None):
        if ord not in (None, 2):
            raise Unsupported(f"norm ord={ord}")
        a = asarray(a)
        if axis is None or a.ndim == 1:
            s = 0.0
            for v in a.flat_list():
                s = _add(s, _mul(v, v))
            return sqrt(s)
        sq = a * a
        return sqrt(sum(sq, axis))


linalg = _Linalg()


class _Random:
    @staticmethod
    def shuffle(x):
        raise Unsupported("np.random.shuffle")


random = _Random()


def vectorize(f, **kw):
    def g(*arrs):
        arrs = [asarray(a) for a in arrs]
        n = arrs[0].shape_cap
        outs = [f(*vals) for vals in zip(*[a.flat_list() for a in arrs])]
        if outs and isinstance(outs[0], tuple):
            return tuple(SArr.new([o[k] for o in outs], n) for k in range(len(outs[0])))
        return SArr.new(outs, n)
    return g


def isscalar(x):
    return not isinstance(x, (SArr, list, tuple, _np.ndarray))


def shape(a):
    return asarray(a).shape


def ndim(a):
    return asarray(a).ndim


def size(a):
    return asarray(a).size


float_ = float64


def to_numpy(a, model=None):
    """concrete SArr -> numpy array (for differential validation)"""
    if not isinstance(a, SArr):
        return a
    n = a.shape_cap[0] if a.n is None or not a.shape_cap else a.n
    if isinstance(n, Sym):
        raise ValueError("symbolic length")
    fl = a.flat_list()
    npdt = {"i": _np.int64, "f": _np.float64, "b": _np.bool_, "O": object}[a.dtype.kind]
    if a.dtype.name == "int32":
        npdt = _np.int32
    if a.dtype.name == "float32":
        npdt = _np.float32
    fl = [float(v.e.as_fraction()) if isinstance(v, SymReal) else v for v in fl]
    arr = _np.array(fl, dtype=npdt).reshape(a.shape_cap)
    if a.n is not None:
        arr = arr[:n]
    return arr


def flatnonzero(a):
    return nonzero(asarray(a).ravel())[0]


def atleast_1d(a):
    a = asarray(a)
    return a.reshape(1) if a.ndim == 0 else a


def __getattr__(name):
    # any numpy attribute the shim does not model: the obligation falls back to degraded mode (DESIGN 1.8)
    if name.startswith("__"):
        raise AttributeError(name)
    raise Unsupported(f"np.{name} is not modelled by the shim")


class errstate:
    """np.errstate(...): floating-point error handling does not exist for reals - a no-op context manager"""
    def __init__(self, **kw):
        pass

    def __enter__(self):
        return self

    def __exit__(self, *a):
        return False


# ------------------------------------------------------------------ calls with arguments a shim function does not model are 'unsupported', not crashes
def _guard_signatures():
    import functools
    import inspect
    import types
    g = globals()
    for name, f in list(g.items()):
        if name.startswith("_") or not isinstance(f, types.FunctionType) or f.__module__ != __name__:
            continue
        try:
            sig = inspect.signature(f)
        except (TypeError, ValueError):
            continue

        def make(f=f, sig=sig, name=name):
            @functools.wraps(f)
            def wrapped(*a, **k):
                try:
                    return f(*a, **k)
                except TypeError:
                    try:
                        sig.bind(*a, **k)          # only on failure: was it the call itself that did not fit the signature?
                    except TypeError as ex:
                        raise Unsupported(f"np.{name} called with arguments the shim does not model: {ex}")
                    raise
            return wrapped
        g[name] = make()


_guard_signatures()
