"""The part of xarray that uxarray's Grid layer uses, with reference semantics (DESIGN.md 1.4).
This shim is environment, not subject: its contract is documented xarray behaviour and it is
validated differentially against real xarray on every run (validate.py)."""
import copy as _copy
import builtins as _bi
import numpy as _np
from . import symnp
from . import core as sc
from .core import Sym, and_, Unsupported
from .symnp import SArr


class _Var:
    """shared variable record: a Dataset and the DataArrays handed out for it share one _Var,
    so `ds[name].data = x` and `ds[name].attrs[k] = v` persist, as in xarray."""
    __slots__ = ("data", "dims", "attrs", "encoding")

    def __init__(self, data, dims, attrs):
        self.data, self.dims, self.attrs = data, tuple(dims), attrs
        self.encoding = {}


def _as_data(data):
    if isinstance(data, SArr):
        return data
    if isinstance(data, DataArray):
        return data._v.data
    if isinstance(data, (list, tuple, _np.ndarray)):
        return symnp.array(data)
    if hasattr(data, "__sarr__"):
        return data
    return symnp.array(data)


class DataArray:
    __slots__ = ("_v", "name", "_coords", "__dict__")

    def __init__(self, data=None, coords=None, dims=None, name=None, attrs=None, **kw):
        if isinstance(data, _Var):
            self._v = data
            self.name = name
            self._coords = {}
            return
        if isinstance(data, DataArray):
            src = data
            d = src._v.data
            if dims is None:
                dims = src.dims
            if attrs is None:
                attrs = src.attrs
            if name is None:
                name = src.name
        else:
            d = _as_data(data)
        if isinstance(dims, str):
            dims = [dims]
        if dims is None:
            dims = tuple(f"dim_{i}" for i in range(d.ndim))
        dims = tuple(dims)
        if len(dims) != d.ndim:
            raise ValueError(f"different number of dimensions on data and dims: {d.ndim} vs {len(dims)}")
        self._v = _Var(d, dims, dict(attrs) if attrs is not None else {})
        self.name = name
        self._coords = dict(coords) if isinstance(coords, dict) else {}

    # -- xarray's subclass protocol: every derived array is built through _replace / _copy
    def _replace(self, variable=None, coords=None, name="__default__", **kw):
        if variable is None:
            variable = self._v
        if name == "__default__":
            name = self.name
        return type(self)(variable, name=name)

    def _new(self, data, dims, attrs=None, name="__default__"):
        return self._replace(_Var(data, dims, dict(self._v.attrs if attrs is None else attrs)), name=name)

    def _copy(self, deep=True, data=None, memo=None):
        d = self._v.data.copy() if deep else self._v.data
        if data is not None:
            d = _as_data(data)
        v = _Var(d, self._v.dims, _copy.deepcopy(self._v.attrs) if deep else dict(self._v.attrs))
        return self._replace(v)

    def copy(self, deep=True, data=None):
        return self._copy(deep=deep, data=data)

    def __copy__(self):
        return self._copy(deep=False)

    def __deepcopy__(self, memo=None):
        return self._copy(deep=True, memo=memo)

    # -- data access
    @property
    def values(self):
        return self._v.data

    @values.setter
    def values(self, v):
        self._v.data = _as_data(v)

    @property
    def data(self):
        return self._v.data

    @data.setter
    def data(self, v):
        v = _as_data(v)
        if v.shape_cap != self._v.data.shape_cap:
            raise ValueError(f"replacement data must match the Variable's shape. replacement data has shape {v.shape_cap}; Variable has shape {self._v.data.shape_cap}")
        self._v.data = v

    def to_numpy(self):
        return self._v.data

    @property
    def variable(self):
        # xarray.Variable: dims + data + attrs, no attached coordinates (shares the data)
        out = _copy.copy(self)
        out._coords = {}
        return out

    @property
    def dims(self):
        return self._v.dims

    @property
    def attrs(self):
        return self._v.attrs

    @attrs.setter
    def attrs(self, a):
        self._v.attrs = dict(a)

    @property
    def encoding(self):
        return self._v.encoding

    @property
    def shape(self):
        return self._v.data.shape

    @property
    def ndim(self):
        return self._v.data.ndim

    @property
    def size(self):
        return self._v.data.size

    @property
    def dtype(self):
        return self._v.data.dtype

    @property
    def sizes(self):
        return dict(zip(self._v.dims, self._v.data.shape))

    @property
    def coords(self):
        return self._coords

    @property
    def T(self):
        return self._new(self._v.data.T, tuple(reversed(self._v.dims)))

    def transpose(self, *dims):
        if not dims:
            return self.T
        ax = [self._v.dims.index(d) for d in dims]
        return self._new(self._v.data.transpose(*ax), dims)

    def __getattr__(self, k):
        if k.startswith("__") or k in ("_v", "name", "_coords"):
            raise AttributeError(k)
        v = object.__getattribute__(self, "_v")
        if k in v.attrs:
            return v.attrs[k]
        raise AttributeError(f"'DataArray' object has no attribute '{k}'")

    def __len__(self):
        return len(self._v.data)

    def __iter__(self):
        for i in range(len(self)):
            yield self[i]

    def __contains__(self, x):
        # real xarray: membership in *values*
        d = self._v.data
        for v in d.flat_list():
            try:
                if v == x:
                    return True
            except Exception:
                pass
        return False

    def __array__(self, *a, **k):
        return symnp.to_numpy(self._v.data)

    def __sarr__(self):
        return self._v.data

    def _wrap(self, d, dims=None):
        if not isinstance(d, SArr):
            return d
        return type(self)._new_like(self, d, dims if dims is not None else self._v.dims)

    @classmethod
    def _new_like(cls, src, d, dims):
        return DataArray(d, dims=dims[-d.ndim:] if d.ndim else (), attrs=src._v.attrs, name=src.name)

    def __getitem__(self, key):
        if isinstance(key, dict):
            return self.isel(key)
        r = self._v.data[key.data if isinstance(key, DataArray) else key]
        if not isinstance(r, SArr):
            return DataArray(symnp.array(r), dims=(), attrs=self._v.attrs, name=self.name)
        dims = self._v.dims
        if r.ndim != len(dims):
            # dropped leading/trailing axes: keep the trailing dims (sufficient for the uses in uxarray)
            if isinstance(key, tuple):
                kept = [d for d, k in zip(dims, list(key) + [slice(None)] * len(dims)) if not isinstance(k, (int, Sym))]
                dims = tuple(kept)[: r.ndim] if len(kept) >= r.ndim else tuple(f"dim_{i}" for i in range(r.ndim))
            else:
                dims = dims[len(dims) - r.ndim:]
        return self._new(r, dims)

    def __setitem__(self, key, val):
        self._v.data[key] = val.data if isinstance(val, DataArray) else val

    def isel(self, indexers=None, drop=False, **kw):
        idx = dict(indexers or {})
        idx.update(kw)
        d = self._v.data
        dims = list(self._v.dims)
        for dim, ix in idx.items():
            if dim not in dims:
                raise ValueError(f"Dimensions {{{dim!r}}} do not exist. Expected one or more of {tuple(dims)}")
            ax = dims.index(dim)
            if isinstance(ix, DataArray):
                ix = ix.data
            scalar = isinstance(ix, (int, Sym)) or (isinstance(ix, _np.integer))
            if isinstance(ix, (list, tuple, _np.ndarray)):
                ix = symnp.array(ix)
            key = (slice(None),) * ax + (ix,)
            d = d[key]
            if scalar:
                dims.pop(ax)
            if not isinstance(d, SArr):
                d = symnp.array(d)
        return self._new(d, tuple(dims))

    def equals(self, other):
        if not isinstance(other, DataArray):
            return False
        a, b = self._v.data, other._v.data
        if self._v.dims != other._v.dims or a.shape_cap != b.shape_cap:
            return False
        if a.n is not None or b.n is not None:
            raise Unsupported("equals on variable-length arrays")
        ca, cb = getattr(self, "_coords", {}) or {}, getattr(other, "_coords", {}) or {}
        if set(ca) != set(cb):
            return False
        extra = []
        for c in ca:
            va, vb = ca[c], cb[c]
            if tuple(va.dims) != tuple(vb.dims) or va.data.shape_cap != vb.data.shape_cap:
                return False
            extra += [symnp._eq(x, y) for x, y in zip(va.data.flat_list(), vb.data.flat_list())]
        return and_(*[symnp._eq(x, y) if not (isinstance(x, float) and x != x and isinstance(y, float) and y != y) else True
                      for x, y in zip(a.flat_list(), b.flat_list())], *extra)

    identical = equals

    def astype(self, dt):
        return self._new(self._v.data.astype(dt), self._v.dims)

    def rename(self, new=None, **kw):
        if isinstance(new, dict) or kw:
            m = dict(new or {})
            m.update(kw)
            for k in m:
                if k not in self._v.dims and k != self.name:
                    raise ValueError(f"cannot rename {k!r} because it is not a variable or dimension in this dataset")
            return self._new(self._v.data, tuple(m.get(d, d) for d in self._v.dims))
        if new is not None:
            return self._replace(name=new)
        return self._replace()

    def assign_attrs(self, *a, **kw):
        attrs = dict(self._v.attrs)
        for x in a:
            attrs.update(x)
        attrs.update(kw)
        return self._new(self._v.data, self._v.dims, attrs=attrs)

    def squeeze(self):
        d = self._v.data
        dims = tuple(dm for dm, s in zip(self._v.dims, d.shape_cap) if s != 1)
        return self._new(d.squeeze(), dims)

    def chunk(self, *a, **k):
        return self

    def compute(self):
        return self

    def load(self):
        return self

    def max(self, *a, **k): return symnp.max(self._v.data)
    def min(self, *a, **k): return symnp.min(self._v.data)
    def sum(self, *a, **k): return symnp.sum(self._v.data)
    def mean(self, *a, **k): return symnp.mean(self._v.data)
    def all(self, *a, **k): return symnp.all(self._v.data)
    def any(self, *a, **k): return symnp.any(self._v.data)
    def item(self): return self._v.data.item()

    def _bin(self, o, f):
        od = o._v.data if isinstance(o, DataArray) else o
        r = f(self._v.data, od)
        return self._new(r, self._v.dims, attrs={}) if isinstance(r, SArr) else r

    def __add__(s, o): return s._bin(o, lambda a, b: a + b)
    def __radd__(s, o): return s._bin(o, lambda a, b: b + a)
    def __sub__(s, o): return s._bin(o, lambda a, b: a - b)
    def __rsub__(s, o): return s._bin(o, lambda a, b: b - a)
    def __mul__(s, o): return s._bin(o, lambda a, b: a * b)
    def __rmul__(s, o): return s._bin(o, lambda a, b: b * a)
    def __truediv__(s, o): return s._bin(o, lambda a, b: a / b)
    def __mod__(s, o): return s._bin(o, lambda a, b: a % b)
    def __pow__(s, o): return s._bin(o, lambda a, b: a ** b)
    def __abs__(s): return s._new(abs(s._v.data), s._v.dims, attrs={})
    def __neg__(s): return s._new(-s._v.data, s._v.dims, attrs={})
    def __eq__(s, o): return s._bin(o, lambda a, b: a == b)
    def __ne__(s, o): return s._bin(o, lambda a, b: a != b)
    def __lt__(s, o): return s._bin(o, lambda a, b: a < b)
    def __le__(s, o): return s._bin(o, lambda a, b: a <= b)
    def __gt__(s, o): return s._bin(o, lambda a, b: a > b)
    def __ge__(s, o): return s._bin(o, lambda a, b: a >= b)
    __hash__ = None

    def __bool__(self):
        return bool(self._v.data)

    def __repr__(self):
        return f"<symxr.DataArray {self.name} dims={self._v.dims} {self._v.data!r}>"


class Dataset:
    def __init__(self, data_vars=None, coords=None, attrs=None):
        self._vars = {}
        self._coord_names = set()
        self._attrs = dict(attrs) if attrs is not None else {}
        self.encoding = {}
        for k, v in (data_vars or {}).items():
            self[k] = v
        for k, v in (coords or {}).items():
            self[k] = v
            self._coord_names.add(k)

    @property
    def attrs(self):
        return self._attrs

    @attrs.setter
    def attrs(self, value):
        self._attrs = dict(value)          # xarray copies the mapping on assignment

    # -- mapping protocol
    def __contains__(self, k):
        return k in self._vars

    def __iter__(self):
        return iter([k for k in self._vars if k not in self._coord_names])

    def keys(self):
        return [k for k in self._vars if k not in self._coord_names]

    def __len__(self):
        return len(self.keys())

    def __getitem__(self, k):
        if isinstance(k, (list, tuple)):
            out = Dataset(attrs=self.attrs)
            for n in k:
                out._vars[n] = self._vars[n]
            return out
        if isinstance(k, dict):
            return self.isel(k)
        try:
            da = DataArray(self._vars[k], name=k)
            # coordinates of the dataset whose dimensions the variable has travel with it (and take part in DataArray.equals)
            dims = set(self._vars[k].dims)
            da._coords = {c: self._vars[c] for c in self._coord_names if c != k and c in self._vars and set(self._vars[c].dims) <= dims}
            return da
        except KeyError:
            if isinstance(k, str) and k in self._dim_caps():
                # a dimension without a coordinate variable: xarray hands out its index 0..size-1
                cap, n = self._dim_caps()[k], self.sizes[k]
                from . import symnp as _snp
                arr = _snp.SArr.new(list(range(cap)), (cap,), None if isinstance(n, int) else n, _snp.int64)
                return DataArray(arr, dims=[k], name=k)
            raise KeyError(f"No variable named {k!r}. Variables on the dataset include {list(self._vars)}")

    def __setitem__(self, k, v):
        if isinstance(v, tuple):
            dims, data = v[0], v[1]
            attrs = v[2] if len(v) > 2 else {}
            v = DataArray(data, dims=dims, attrs=attrs)
        if not isinstance(v, DataArray):
            v = DataArray(v)
        # same buffer, shallow-copied attrs (xarray: Variable shallow copy on assignment)
        for d, s in zip(v._v.dims, v._v.data.shape_cap):
            cur = self._dim_caps().get(d)
            if cur is not None and cur != s and not (k in self._vars and d in self._vars[k].dims and _bi.sum(1 for x in self._vars.values() if d in x.dims) == 1):
                raise ValueError(f"conflicting sizes for dimension {d!r}: length {s} on {k!r} and length {cur} on the dataset")
        self._vars[k] = _Var(v._v.data, v._v.dims, dict(v._v.attrs))

    def __delitem__(self, k):
        del self._vars[k]
        self._coord_names.discard(k)

    def __getattr__(self, k):
        if k.startswith("_"):
            raise AttributeError(k)
        d = self.__dict__
        if k in d.get("_vars", {}):
            return self[k]
        if k in d.get("_attrs", {}):
            return d["_attrs"][k]
        if "_vars" in d and k in self._dim_caps():
            return self[k]
        raise AttributeError(f"'Dataset' object has no attribute '{k}'")

    def _dim_caps(self):
        s = {}
        for v in self._vars.values():
            for d, n in zip(v.dims, v.data.shape_cap):
                s.setdefault(d, n)
        return s

    @property
    def sizes(self):
        s = {}
        for v in self._vars.values():
            for d, n in zip(v.dims, v.data.shape):
                s.setdefault(d, n)
        return s

    @property
    def dims(self):
        return self.sizes

    @property
    def data_vars(self):
        return {k: self[k] for k in self._vars if k not in self._coord_names}

    @property
    def variables(self):
        return {k: self[k] for k in self._vars}

    @property
    def coords(self):
        return {k: self[k] for k in self._coord_names}

    def assign_attrs(self, *a, **kw):
        out = self._shallow()
        out.attrs = dict(self.attrs)
        for x in a:
            out.attrs.update(x)
        out.attrs.update(kw)
        return out

    def _shallow(self):
        out = Dataset()
        out._vars = {k: _Var(v.data, v.dims, dict(v.attrs)) for k, v in self._vars.items()}
        out._coord_names = set(self._coord_names)
        out.attrs = dict(self.attrs)
        return out

    def copy(self, deep=False):
        out = self._shallow()
        if deep:
            for v in out._vars.values():
                v.data = v.data.copy()
                v.attrs = _copy.deepcopy(v.attrs)
            out.attrs = _copy.deepcopy(self.attrs)
        return out

    def __copy__(self):
        return self.copy(deep=False)

    def __deepcopy__(self, memo):
        return self.copy(deep=True)

    def isel(self, indexers=None, **kw):
        idx = dict(indexers or {})
        idx.update(kw)
        out = Dataset(attrs=self.attrs)
        out._coord_names = set(self._coord_names)
        for k, v in self._vars.items():
            sub = {d: i for d, i in idx.items() if d in v.dims}
            da = DataArray(v, name=k)
            if sub:
                da = da.isel(sub)
                out._vars[k] = _Var(da._v.data, da._v.dims, dict(v.attrs))
            else:
                out._vars[k] = _Var(v.data, v.dims, dict(v.attrs))
        return out

    def drop_vars(self, names, errors="raise"):
        if isinstance(names, str):
            names = [names]
        out = self._shallow()
        for n in names:
            if n in out._vars:
                del out._vars[n]
                out._coord_names.discard(n)
            elif errors == "raise":
                raise ValueError(f"These variables cannot be found in this dataset: {[n]}")
        return out

    def rename(self, name_dict=None, **kw):
        m = dict(name_dict or {})
        m.update(kw)
        out = Dataset(attrs=self.attrs)
        for k, v in self._vars.items():
            out._vars[m.get(k, k)] = _Var(v.data, tuple(m.get(d, d) for d in v.dims), dict(v.attrs))
        out._coord_names = {m.get(c, c) for c in self._coord_names}
        for k in m:
            if k not in self._vars and k not in self._dim_caps():
                raise ValueError(f"cannot rename {k!r} because it is not a variable or dimension in this dataset")
        return out

    def rename_dims(self, dims_dict=None, **kw):
        m = dict(dims_dict or {})
        m.update(kw)
        out = Dataset(attrs=self.attrs)
        for k, v in self._vars.items():
            out._vars[k] = _Var(v.data, tuple(m.get(d, d) for d in v.dims), dict(v.attrs))
        out._coord_names = set(self._coord_names)
        return out

    def rename_vars(self, name_dict=None, **kw):
        m = dict(name_dict or {})
        m.update(kw)
        out = Dataset(attrs=self.attrs)
        for k, v in self._vars.items():
            out._vars[m.get(k, k)] = _Var(v.data, v.dims, dict(v.attrs))
        out._coord_names = {m.get(c, c) for c in self._coord_names}
        return out

    def swap_dims(self, dims_dict=None, **kw):
        return self.rename_dims(dims_dict, **kw)

    def set_coords(self, names):
        if isinstance(names, str):
            names = [names]
        out = self._shallow()
        out._coord_names |= set(names)
        return out

    def assign_coords(self, coords=None, **kw):
        m = dict(coords or {})
        m.update(kw)
        out = self._shallow()
        for k, v in m.items():
            out[k] = v
            out._coord_names.add(k)
        return out

    def reset_coords(self, names=None, drop=False):
        out = self._shallow()
        out._coord_names = set()
        return out

    def filter_by_attrs(self, **kw):
        out = Dataset(attrs=self.attrs)
        for k, v in self._vars.items():
            ok = True
            for an, pat in kw.items():
                val = v.attrs.get(an)
                if callable(pat):
                    ok = ok and bool(pat(val))
                else:
                    ok = ok and (an in v.attrs) and val == pat
            if ok:
                out._vars[k] = v
        return out

    def update(self, other):
        for k, v in (other._vars.items() if isinstance(other, Dataset) else other.items()):
            self[k] = DataArray(v, name=k) if isinstance(v, _Var) else v
        return self

    def assign(self, **kw):
        out = self._shallow()
        for k, v in kw.items():
            out[k] = v
        return out

    def chunk(self, *a, **k):
        return self

    def equals(self, other):
        if set(self._vars) != set(other._vars):
            return False
        return and_(*[self[k].equals(other[k]) for k in self._vars])

    def __repr__(self):
        return f"<symxr.Dataset vars={list(self._vars)} attrs={list(self.attrs)}>"


class UncachedAccessor:
    def __init__(self, accessor):
        self._accessor = accessor

    def __get__(self, obj, cls):
        if obj is None:
            return self._accessor
        return self._accessor(obj)


def open_dataset(*a, **k):
    raise Unsupported("xr.open_dataset inside the clone world (file I/O is outside the claim)")


open_mfdataset = open_dataset


def concat(*a, **k):
    raise Unsupported("xr.concat")
